/-
  B3.B3sum.Props13 — property C13
  "The b3sum checkfile format round-trips and never confuses two paths".

  Every theorem is about the executable model of /repo/b3sum/src/main.rs in B3.B3sum.Model
  (`parseCheckLine`, `formatLine`, …).  Vocabulary from B3.B3sum.Proofs:

    fields line = some (esc, hf, fs)   how the parser cuts the line: leading-backslash flag, hash
                                        field, path field (`fields_shape` says what that means)
    pathOf esc fs                       the documented unescaping of the path field
    ValidPath p                         p ≠ [] ∧ NUL ∉ p ∧ U+FFFD ∉ p
    IsTerm t                            t is "", "\n" or "\r\n"
    hasDbl p                            p contains two consecutive spaces

  Theorems that are FALSE for the code as it exists are recorded as `…_false` (the negation, with a
  concrete witness evaluated on the model by `decide`; every witness was replayed on the real code
  through harness/b3sum) next to `…_partial` (the strongest true version).
-/
import B3.B3sum.Proofs

namespace B3.B3sum

/-! ## parse_total -/

/- FULL STATEMENT (false):  ∀ line, parseCheckLine line ≠ .panic -/
theorem parse_total_false : ¬ ∀ line : Str, parseCheckLine line ≠ .panic :=
  fun h => h panicLine (by decide)

/-- Strongest true version: the parser panics EXACTLY on the lines whose hash field is 64 bytes
long, has an odd number of characters, and is lowercase hex up to its last character (so the last
character is a 2-byte one after 62 hex digits, or a 4-byte one after 60).  In particular it never
panics when the hash field is ASCII. -/
theorem parse_total_partial (line : Str) :
    parseCheckLine line = .panic ↔
      ∃ esc hf fs, fields line = some (esc, hf, fs) ∧ byteLen hf = 64 ∧ hf.length % 2 = 1 ∧ AllHex hf.dropLast :=
  parse_panic_iff line

theorem parse_total_partial_ascii (line : Str) (h : ∀ esc hf fs, fields line = some (esc, hf, fs) → AllAscii hf) :
    parseCheckLine line ≠ .panic := by
  intro hp
  obtain ⟨esc, hf, fs, hfl, hna⟩ := parse_panic_nonascii hp
  exact hna (h esc hf fs hfl)

example : fields panicLine = some (false, badHash, ['x']) ∧ byteLen badHash = 64 ∧ badHash.length % 2 = 1 := by decide

/-! ## parse_ok_shape -/

/-- If a line is accepted, then (after trimming trailing CR/LF and an optional leading backslash) it
is literally `<hex of the hash>  <path field>` or `BLAKE3 (<path field>) = <hex of the hash>` with
exactly 64 lowercase hex digits, the result's path is the documented unescaping of the path field
(or the path field itself when there is no leading backslash), and that path is valid. -/
theorem parse_ok_shape (line : Str) (r : Parsed) (h : parseCheckLine line = .ok r) :
    ∃ body, trimEndCRLF line = (if r.isEscaped then '\\' :: body else body) ∧
      (body = hexEncode r.expectedHash ++ UNTAG_SEP ++ r.fileString ∨
       body = TAG_PREFIX ++ r.fileString ++ TAG_SEP ++ hexEncode r.expectedHash) ∧
      r.expectedHash.length = 32 ∧
      (if r.isEscaped then unescapeSpec r.fileString = some r.filePath else r.filePath = r.fileString) ∧
      ValidPath r.filePath := by
  obtain ⟨fs, p, hf, hl, hp, hv, h1, h2⟩ := (parse_ok_iff line r).mp h
  obtain ⟨body, hb1, _, hb3⟩ := fields_shape hf
  subst h1 h2
  refine ⟨body, hb1, ?_, hl, ?_, hv⟩
  · rcases hb3 with h3 | ⟨h3, _⟩
    · exact Or.inl h3
    · exact Or.inr h3
  · unfold pathOf at hp
    cases he : r.isEscaped with
    | true => simpa [he] using hp
    | false => simpa [he] using hp.symm

example : parseCheckLine ("\\BLAKE3 (a\\nb) = ".toList ++ hexEncode hashA ++ ['\r', '\n']) =
    .ok { fileString := "a\\nb".toList, isEscaped := true, filePath := ['a', '\n', 'b'], expectedHash := hashA } := by
  decide

/-! ## parse_rejects_* -/

/-- an empty line (nothing but CR/LF) is an error -/
theorem parse_rejects_empty (line : Str) (h : ∀ c ∈ line, isCRLF c = true) :
    parseCheckLine line = .err .emptyLine := by
  rw [parseCheckLine_eq, trimEnd_allCRLF h]

example : parseCheckLine ['\r', '\n'] = .err .emptyLine := by decide

/-- a hash field that is not 64 bytes long is an error -/
theorem parse_rejects_wrong_length (line : Str) (esc : Bool) (hf fs : Str)
    (hfl : fields line = some (esc, hf, fs)) (hl : byteLen hf ≠ 64) :
    parseCheckLine line = .err .hashLength := by
  rw [parse_eq_fields, hfl]; simp [hl]

example : fields (List.replicate 63 'a' ++ "  x".toList) = some (false, List.replicate 63 'a', ['x']) := by decide

/-- an ASCII hash field with a character that is not a lowercase hex digit is an error -/
theorem parse_rejects_nonhex (line : Str) (esc : Bool) (hf fs : Str)
    (hfl : fields line = some (esc, hf, fs)) (ha : AllAscii hf) (hx : ¬ AllHex hf) :
    parseCheckLine line = .err .hashLength ∨ parseCheckLine line = .err .hex := by
  rw [parse_eq_fields, hfl]
  simp only
  by_cases hl : byteLen hf = 64
  · right
    rw [if_neg (by simp [hl])]
    cases hd : decodeHashLoop 32 hf with
    | ok hb =>
      exfalso
      obtain ⟨h1, _⟩ := (decode64_ok_iff hl hb).mp hd
      exact hx (h1 ▸ allHex_hexEncode hb)
    | err e => rw [decodeHashLoop_err hd]; rfl
    | panic => exact absurd hd (decodeHashLoop_ne_panic_of_ascii ha (by omega))
  · left; rw [if_pos (by simpa using hl)]

example : parseCheckLine (List.replicate 63 'a' ++ "A  x".toList) = .err .hex := by decide

/- FULL STATEMENT (false): a non-ASCII hash field always gives an error:
     fields line = some (esc, hf, fs) → ¬ AllAscii hf → ∃ e, parseCheckLine line = .err e -/
theorem parse_rejects_nonascii_hash_false :
    ¬ ∀ (line : Str) (esc : Bool) (hf fs : Str), fields line = some (esc, hf, fs) → ¬ AllAscii hf →
        ∃ e, parseCheckLine line = .err e := by
  intro h
  have hna : ¬ AllAscii badHash := fun ha => absurd (ha 'é' (by decide)) (by decide)
  obtain ⟨e, he⟩ := h panicLine false badHash ['x'] (by decide) hna
  have hp : parseCheckLine panicLine = .panic := by decide
  rw [hp] at he; cases he

/-- Strongest true version: a non-ASCII hash field is never accepted (error or panic). -/
theorem parse_rejects_nonascii_hash_partial (line : Str) (esc : Bool) (hf fs : Str)
    (hfl : fields line = some (esc, hf, fs)) (hna : ¬ AllAscii hf) :
    (∃ e, parseCheckLine line = .err e) ∨ (parseCheckLine line = .panic ∧ ¬ AllAscii hf) := by
  apply not_ok_cases hfl
  intro r hr
  obtain ⟨fs', p, hf', _⟩ := (parse_ok_iff line r).mp hr
  rw [hfl] at hf'
  simp at hf'
  exact hna (hf'.2.1 ▸ (allHex_hexEncode r.expectedHash).ascii)

example : fields ("é".toList ++ List.replicate 62 'a' ++ "  x".toList) = some (false, "é".toList ++ List.replicate 62 'a', ['x']) ∧
    parseCheckLine ("é".toList ++ List.replicate 62 'a' ++ "  x".toList) = .err .hex := by decide

/-- generic form of the remaining rejections: when the path of a line is missing or invalid, the
line is never accepted; the outcome is an error, or the panic of `parse_total_false` when the hash
field is non-ASCII -/
theorem parse_rejects_path (line : Str) (esc : Bool) (hf fs : Str)
    (hfl : fields line = some (esc, hf, fs)) (hbad : ∀ p, pathOf esc fs = some p → ¬ ValidPath p) :
    (∃ e, parseCheckLine line = .err e) ∨ (parseCheckLine line = .panic ∧ ¬ AllAscii hf) := by
  apply not_ok_cases hfl
  intro r hr
  obtain ⟨fs', p, hf', _, hp, hv, _⟩ := (parse_ok_iff line r).mp hr
  rw [hfl] at hf'
  simp at hf'
  obtain ⟨h1, _, h3⟩ := hf'
  subst h1 h3
  exact hbad p hp hv

/- FULL STATEMENT (false): an invalid or dangling escape always gives an error:
     fields line = some (true, hf, fs) → unescapeSpec fs = none → ∃ e, parseCheckLine line = .err e -/
theorem parse_rejects_bad_escape_false :
    ¬ ∀ (line : Str) (hf fs : Str), fields line = some (true, hf, fs) → unescapeSpec fs = none →
        ∃ e, parseCheckLine line = .err e := by
  intro h
  obtain ⟨e, he⟩ := h ('\\' :: badHash ++ "  \\q".toList) badHash "\\q".toList (by decide) (by decide)
  have hp : parseCheckLine ('\\' :: badHash ++ "  \\q".toList) = .panic := by decide
  rw [hp] at he; cases he

theorem parse_rejects_bad_escape_partial (line : Str) (hf fs : Str)
    (hfl : fields line = some (true, hf, fs)) (hbad : unescapeSpec fs = none) :
    (∃ e, parseCheckLine line = .err e) ∨ (parseCheckLine line = .panic ∧ ¬ AllAscii hf) :=
  parse_rejects_path line true hf fs hfl (by intro p hp; simp [pathOf, hbad] at hp)

example : parseCheckLine ('\\' :: hexEncode hashA ++ "  a\\".toList) = .err .escape ∧
    parseCheckLine ('\\' :: hexEncode hashA ++ "  a\\tb".toList) = .err .escape := by decide

/- FULL STATEMENT (false): an empty path always gives an error:
     fields line = some (esc, hf, fs) → pathOf esc fs = some [] → ∃ e, parseCheckLine line = .err e -/
theorem parse_rejects_empty_path_false :
    ¬ ∀ (line : Str) (esc : Bool) (hf fs : Str), fields line = some (esc, hf, fs) → pathOf esc fs = some [] →
        ∃ e, parseCheckLine line = .err e := by
  intro h
  obtain ⟨e, he⟩ := h (badHash ++ [' ', ' ']) false badHash [] (by decide) (by decide)
  have hp : parseCheckLine (badHash ++ [' ', ' ']) = .panic := by decide
  rw [hp] at he; cases he

theorem parse_rejects_empty_path_partial (line : Str) (esc : Bool) (hf fs : Str)
    (hfl : fields line = some (esc, hf, fs)) (hbad : pathOf esc fs = some []) :
    (∃ e, parseCheckLine line = .err e) ∨ (parseCheckLine line = .panic ∧ ¬ AllAscii hf) :=
  parse_rejects_path line esc hf fs hfl (by
    intro p hp hv; rw [hbad] at hp; exact hv.1 (Option.some.inj hp).symm)

example : parseCheckLine (hexEncode hashA ++ [' ', ' ']) = .err .emptyPath ∧
    parseCheckLine ("BLAKE3 () = ".toList ++ hexEncode hashA) = .err .emptyPath := by decide

/- FULL STATEMENT (false): a NUL in the path always gives an error:
     fields line = some (esc, hf, fs) → pathOf esc fs = some p → NUL ∈ p → ∃ e, parseCheckLine line = .err e -/
theorem parse_rejects_nul_false :
    ¬ ∀ (line : Str) (esc : Bool) (hf fs p : Str), fields line = some (esc, hf, fs) → pathOf esc fs = some p →
        NUL ∈ p → ∃ e, parseCheckLine line = .err e := by
  intro h
  obtain ⟨e, he⟩ := h (badHash ++ [' ', ' ', NUL]) false badHash [NUL] [NUL] (by decide) (by decide) (by decide)
  have hp : parseCheckLine (badHash ++ [' ', ' ', NUL]) = .panic := by decide
  rw [hp] at he; cases he

theorem parse_rejects_nul_partial (line : Str) (esc : Bool) (hf fs p : Str)
    (hfl : fields line = some (esc, hf, fs)) (hp : pathOf esc fs = some p) (hbad : NUL ∈ p) :
    (∃ e, parseCheckLine line = .err e) ∨ (parseCheckLine line = .panic ∧ ¬ AllAscii hf) :=
  parse_rejects_path line esc hf fs hfl (by
    intro q hq hv; rw [hp] at hq; exact hv.2.1 ((Option.some.inj hq) ▸ hbad))

example : parseCheckLine (hexEncode hashA ++ [' ', ' ', 'a', NUL, 'b']) = .err .nul := by decide

/- FULL STATEMENT (false): U+FFFD in the path always gives an error:
     fields line = some (esc, hf, fs) → pathOf esc fs = some p → REPL ∈ p → ∃ e, parseCheckLine line = .err e -/
theorem parse_rejects_fffd_false :
    ¬ ∀ (line : Str) (esc : Bool) (hf fs p : Str), fields line = some (esc, hf, fs) → pathOf esc fs = some p →
        REPL ∈ p → ∃ e, parseCheckLine line = .err e := by
  intro h
  obtain ⟨e, he⟩ := h (badHash ++ [' ', ' ', REPL]) false badHash [REPL] [REPL] (by decide) (by decide) (by decide)
  have hp : parseCheckLine (badHash ++ [' ', ' ', REPL]) = .panic := by decide
  rw [hp] at he; cases he

theorem parse_rejects_fffd_partial (line : Str) (esc : Bool) (hf fs p : Str)
    (hfl : fields line = some (esc, hf, fs)) (hp : pathOf esc fs = some p) (hbad : REPL ∈ p) :
    (∃ e, parseCheckLine line = .err e) ∨ (parseCheckLine line = .panic ∧ ¬ AllAscii hf) :=
  parse_rejects_path line esc hf fs hfl (by
    intro q hq hv; rw [hp] at hq; exact hv.2.2 ((Option.some.inj hq) ▸ hbad))

example : parseCheckLine ("BLAKE3 (a".toList ++ [REPL] ++ ") = ".toList ++ hexEncode hashA) = .err .fffd := by decide

/-- With a hash field of 64 lowercase hex digits (a line that is valid except for its path) all
four path rejections are genuine errors, with the documented message. -/
theorem parse_rejects_path_of_good_hash (line : Str) (esc : Bool) (hb : List UInt8) (fs : Str)
    (hfl : fields line = some (esc, hexEncode hb, fs)) (hl : hb.length = 32) :
    parseCheckLine line =
      match pathOf esc fs with
      | none => .err .escape
      | some p =>
        if p = [] then .err .emptyPath
        else if NUL ∈ p then .err .nul
        else if REPL ∈ p then .err .fffd
        else .ok { fileString := fs, isEscaped := esc, filePath := p, expectedHash := hb } := by
  rw [parse_eq_fields, hfl]
  simp only
  have hbl : byteLen (hexEncode hb) = 64 := by rw [byteLen_hexEncode, hl]
  rw [if_neg (by simp [hbl]), (decode64_ok_iff hbl hb).mpr ⟨rfl, hl⟩, Res.bind_ok, finish_eq]
  cases pathOf esc fs with
  | none => rfl
  | some p => simp

/-! ## parse_format_plain, parse_format_tagged -/

/-- every line printed in the plain form for a valid path parses back to the same path and hash -/
theorem parse_format_plain (p : Str) (hb : List UInt8) (term : Str)
    (hp : ValidPath p) (hl : hb.length = 32) (ht : IsTerm term) :
    parseCheckLine (formatLine false p (hexEncode hb) ++ term) =
      .ok { fileString := (filepathToString p).1, isEscaped := (filepathToString p).2, filePath := p,
            expectedHash := hb } := by
  rw [parse_of_fields_fmt hl (fields_plain p hl ht), filepathToString_eq]
  obtain ⟨h0, h1, h2⟩ := hp
  simp [h0, h1, h2]

example : ValidPath "BLAKE3 (a  b) = \\\r\n ".toList ∧ hashA.length = 32 ∧ IsTerm ['\r', '\n'] := by
  refine ⟨⟨by decide, by decide, by decide⟩, by decide, by simp [IsTerm]⟩

example : parseCheckLine (formatLine false "a  b\n".toList (hexEncode hashA) ++ ['\r', '\n']) =
    .ok { fileString := "a  b\\n".toList, isEscaped := true, filePath := "a  b\n".toList, expectedHash := hashA } := by
  decide

/- FULL STATEMENT (false):  ∀ p hb term, ValidPath p → hb.length = 32 → IsTerm term →
     parseCheckLine (formatLine true p (hexEncode hb) ++ term) = .ok { …, filePath := p, expectedHash := hb } -/
theorem parse_format_tagged_false :
    ¬ ∀ (p : Str) (hb : List UInt8) (term : Str), ValidPath p → hb.length = 32 → IsTerm term →
        parseCheckLine (formatLine true p (hexEncode hb) ++ term) =
          .ok { fileString := (filepathToString p).1, isEscaped := (filepathToString p).2, filePath := p,
                expectedHash := hb } := by
  intro h
  have := h ['a', ' ', ' ', 'b'] hashA ['\n'] ⟨by decide, by decide, by decide⟩ (by decide) (by simp [IsTerm])
  exact absurd this (by decide)

/-- Strongest true version: the `--tag` line of a valid path parses back iff the path has no two
consecutive spaces; if it has, the line is an error (never accepted as a different path). -/
theorem parse_format_tagged_partial (p : Str) (hb : List UInt8) (term : Str)
    (hp : ValidPath p) (hl : hb.length = 32) (ht : IsTerm term) :
    (hasDbl p = false →
      parseCheckLine (formatLine true p (hexEncode hb) ++ term) =
        .ok { fileString := (filepathToString p).1, isEscaped := (filepathToString p).2, filePath := p,
              expectedHash := hb }) ∧
    (hasDbl p = true →
      parseCheckLine (formatLine true p (hexEncode hb) ++ term) = .err .hashLength ∨
      parseCheckLine (formatLine true p (hexEncode hb) ++ term) = .err .hex) := by
  constructor
  · intro hd
    rw [parse_of_fields_fmt hl (fields_tagged p ht hd), filepathToString_eq]
    obtain ⟨h0, h1, h2⟩ := hp
    simp [h0, h1, h2]
  · intro hd
    exact parse_tagged_dbl_err p ht hd

example : parseCheckLine (formatLine true "x) = y\\".toList (hexEncode hashA) ++ ['\n']) =
    .ok { fileString := "x) = y\\\\".toList, isEscaped := true, filePath := "x) = y\\".toList, expectedHash := hashA } := by
  decide

example : parseCheckLine (formatLine true "a  b".toList (hexEncode hashA) ++ ['\n']) = .err .hashLength := by decide

/-! ## format_injective and "never confuses two paths" -/

/-- two printed lines are equal only if form, path and hash are equal -/
theorem format_injective (t1 t2 : Bool) (p1 p2 : Str) (h1 h2 : List UInt8)
    (l1 : h1.length = 32) (l2 : h2.length = 32)
    (h : formatLine t1 p1 (hexEncode h1) = formatLine t2 p2 (hexEncode h2)) :
    t1 = t2 ∧ p1 = p2 ∧ h1 = h2 :=
  formatLine_inj l1 l2 h

example : formatLine false "a\nb".toList (hexEncode hashA) ≠ formatLine false "a\\nb".toList (hexEncode hashA) := by decide

/-- whatever path string `p` a line was printed for (valid or not, either form, any terminator): if
the line is accepted at all, the accepted path is `p` and the hash is the printed one -/
theorem parse_format_sound (tag : Bool) (p : Str) (hb : List UInt8) (term : Str) (r : Parsed)
    (hl : hb.length = 32) (ht : IsTerm term)
    (h : parseCheckLine (formatLine tag p (hexEncode hb) ++ term) = .ok r) :
    r.filePath = p ∧ r.expectedHash = hb ∧ ValidPath p := by
  have key : ∀ {line : Str}, fields line = some (needsEscape p, hexEncode hb, escapeSpec p) →
      parseCheckLine line = .ok r → r.filePath = p ∧ r.expectedHash = hb ∧ ValidPath p := by
    intro line hf hr
    rw [parse_of_fields_fmt hl hf] at hr
    split at hr
    · simp at hr
    · split at hr
      · simp at hr
      · split at hr
        · simp at hr
        · rename_i h0 h1 h2
          have := Res.ok.inj hr
          subst this
          exact ⟨rfl, rfl, h0, h1, h2⟩
  cases tag with
  | false => exact key (fields_plain p hl ht) h
  | true =>
    cases hd : hasDbl p with
    | false => exact key (fields_tagged p ht hd) h
    | true =>
      rcases parse_tagged_dbl_err p (hb := hb) ht hd with e | e <;> rw [e] at h <;> simp at h

/-- no two different path strings ever yield lines that parse to the same path -/
theorem parse_format_no_confusion (t1 t2 : Bool) (p1 p2 : Str) (hb1 hb2 : List UInt8) (term1 term2 : Str)
    (r1 r2 : Parsed) (l1 : hb1.length = 32) (l2 : hb2.length = 32) (ht1 : IsTerm term1) (ht2 : IsTerm term2)
    (h1 : parseCheckLine (formatLine t1 p1 (hexEncode hb1) ++ term1) = .ok r1)
    (h2 : parseCheckLine (formatLine t2 p2 (hexEncode hb2) ++ term2) = .ok r2)
    (hsame : r1.filePath = r2.filePath) : p1 = p2 := by
  have a := (parse_format_sound t1 p1 hb1 term1 r1 l1 ht1 h1).1
  have b := (parse_format_sound t2 p2 hb2 term2 r2 l2 ht2 h2).1
  rw [← a, ← b, hsame]

/-- paths that cannot be represented (empty, NUL, or U+FFFD — which is what every non-UTF-8 OS path
turns into, see `lossy_has_repl` in Proofs) are rejected at check time -/
theorem parse_format_unrepresentable (tag : Bool) (p : Str) (hb : List UInt8) (term : Str)
    (hl : hb.length = 32) (ht : IsTerm term) (hbad : ¬ ValidPath p) :
    ∃ e, parseCheckLine (formatLine tag p (hexEncode hb) ++ term) = .err e := by
  have key : ∀ {line : Str}, fields line = some (needsEscape p, hexEncode hb, escapeSpec p) →
      ∃ e, parseCheckLine line = .err e := by
    intro line hf
    rw [parse_of_fields_fmt hl hf]
    split
    · exact ⟨_, rfl⟩
    · split
      · exact ⟨_, rfl⟩
      · split
        · exact ⟨_, rfl⟩
        · rename_i h0 h1 h2
          exact absurd ⟨h0, h1, h2⟩ hbad
  cases tag with
  | false => exact key (fields_plain p hl ht)
  | true =>
    cases hd : hasDbl p with
    | false => exact key (fields_tagged p ht hd)
    | true => rcases parse_tagged_dbl_err p (hb := hb) ht hd with e | e <;> exact ⟨_, e⟩

example : parseCheckLine (formatLineBytes false [0x61, 0xff, 0x62] (hexEncode hashA) ++ ['\n']) = .err .fffd := by decide

/-! ## the same, for OS paths (arbitrary byte strings on Unix) -/

/-- An OS path that is valid UTF-8 with a valid text round-trips (plain form; `--tag` form when it
has no two consecutive spaces), and the file `--check` then opens — the UTF-8 bytes of the parsed
path — is exactly the original OS path. -/
theorem parse_format_bytes (tag : Bool) (b : List UInt8) (p : Str) (hb : List UInt8) (term : Str)
    (hs : strictDecode b = some p) (hp : ValidPath p) (hl : hb.length = 32) (ht : IsTerm term)
    (hd : tag = true → hasDbl p = false) :
    ∃ r, parseCheckLine (formatLineBytes tag b (hexEncode hb) ++ term) = .ok r ∧
      utf8Encode r.filePath = b ∧ r.expectedHash = hb := by
  have hlp := lossy_of_strict hs
  have henc : utf8Encode p = b := by
    have := encode_lossy b (by rw [hlp]; exact hp.2.2)
    rwa [hlp] at this
  unfold formatLineBytes
  rw [hlp]
  cases tag with
  | false => exact ⟨_, parse_format_plain p hb term hp hl ht, henc, rfl⟩
  | true => exact ⟨_, (parse_format_tagged_partial p hb term hp hl ht).1 (hd rfl), henc, rfl⟩

example : strictDecode [0xc3, 0xa9, 0x20, 0x5c] = some "é \\".toList ∧ ValidPath "é \\".toList := by
  refine ⟨by decide, by decide, by decide, by decide⟩

/-- No two different OS paths ever yield lines (either form, any hashes, any terminators) that are
both accepted with the same path. -/
theorem parse_format_bytes_no_confusion (t1 t2 : Bool) (b1 b2 : List UInt8) (hb1 hb2 : List UInt8)
    (term1 term2 : Str) (r1 r2 : Parsed) (l1 : hb1.length = 32) (l2 : hb2.length = 32)
    (ht1 : IsTerm term1) (ht2 : IsTerm term2)
    (h1 : parseCheckLine (formatLineBytes t1 b1 (hexEncode hb1) ++ term1) = .ok r1)
    (h2 : parseCheckLine (formatLineBytes t2 b2 (hexEncode hb2) ++ term2) = .ok r2)
    (hsame : r1.filePath = r2.filePath) : b1 = b2 := by
  obtain ⟨a1, _, v1⟩ := parse_format_sound t1 (lossyDecode b1) hb1 term1 r1 l1 ht1 h1
  obtain ⟨a2, _, _⟩ := parse_format_sound t2 (lossyDecode b2) hb2 term2 r2 l2 ht2 h2
  exact lossy_injective_of_norepl v1.2.2 (by rw [← a1, ← a2, hsame])

/-- An OS path that is not valid UTF-8 is printed, but its line is an error at check time. -/
theorem parse_format_bytes_unrepresentable (tag : Bool) (b : List UInt8) (hb : List UInt8) (term : Str)
    (hs : strictDecode b = none) (hl : hb.length = 32) (ht : IsTerm term) :
    ∃ e, parseCheckLine (formatLineBytes tag b (hexEncode hb) ++ term) = .err e :=
  parse_format_unrepresentable tag (lossyDecode b) hb term hl ht (fun hv => hv.2.2 (lossy_has_repl hs))

example : strictDecode [0x61, 0xed, 0xa0, 0x80] = none ∧ lossyDecode [0x61, 0xed, 0xa0, 0x80] = ['a', REPL, REPL, REPL] := by
  decide

#print axioms parse_total_false
#print axioms parse_total_partial
#print axioms parse_total_partial_ascii
#print axioms parse_ok_shape
#print axioms parse_rejects_empty
#print axioms parse_rejects_wrong_length
#print axioms parse_rejects_nonhex
#print axioms parse_rejects_nonascii_hash_false
#print axioms parse_rejects_nonascii_hash_partial
#print axioms parse_rejects_path
#print axioms parse_rejects_bad_escape_false
#print axioms parse_rejects_bad_escape_partial
#print axioms parse_rejects_empty_path_false
#print axioms parse_rejects_empty_path_partial
#print axioms parse_rejects_nul_false
#print axioms parse_rejects_nul_partial
#print axioms parse_rejects_fffd_false
#print axioms parse_rejects_fffd_partial
#print axioms parse_rejects_path_of_good_hash
#print axioms parse_format_plain
#print axioms parse_format_tagged_false
#print axioms parse_format_tagged_partial
#print axioms format_injective
#print axioms parse_format_sound
#print axioms parse_format_no_confusion
#print axioms parse_format_unrepresentable
#print axioms parse_format_bytes
#print axioms parse_format_bytes_no_confusion
#print axioms parse_format_bytes_unrepresentable

end B3.B3sum
