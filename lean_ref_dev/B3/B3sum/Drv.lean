/-
  B3.B3sum.Drv — the `P …` ops of /verif/harness/b3sum/src/driver.rs, evaluated on the MODEL
  (B3.B3sum.Model), so that the two drivers can be diffed line by line.

    P line <hex>  P disp <hex>  P fmt <hex> plain|tag  P f2s <hex>  P unescape <hex>
    P rt <hex> plain|tag lf|crlf|none

  (`P xof …` of the Rust driver is the library's output, not b3sum code, and has no model here.)

  `stepLine` returns `none` for a malformed op (the driver prints `bad-op`).
-/
import B3.B3sum.Model

namespace B3.B3sum

def hexVal? (c : Char) : Option Nat :=
  if 48 ≤ c.toNat ∧ c.toNat ≤ 57 then some (c.toNat - 48)
  else if 97 ≤ c.toNat ∧ c.toNat ≤ 102 then some (c.toNat - 87)
  else none

def unhexList : List Char → Option (List UInt8)
  | [] => some []
  | [_] => none
  | a :: b :: rest =>
    match hexVal? a, hexVal? b, unhexList rest with
    | some h, some l, some bs => some ((h * 16 + l).toUInt8 :: bs)
    | _, _, _ => none

/-- `-` is the empty byte string; the empty token is malformed -/
def unhexTok (s : String) : Option (List UInt8) :=
  if s = "-" then some [] else if s.isEmpty then none else unhexList s.toList

def toHexStr (b : List UInt8) : String := String.ofList (hexEncode b)

def strHex (s : Str) : String := toHexStr (utf8Encode s)

def PErr.cls : PErr → String
  | .emptyLine => "err:empty-line"
  | .format => "err:format"
  | .hashLength => "err:hash-length"
  | .hex => "err:hex"
  | .escape => "err:escape"
  | .emptyPath => "err:empty-path"
  | .nul => "err:nul"
  | .fffd => "err:fffd"

def FIXED_HASH : Str := List.replicate 64 'a'

def parseOut (line : Str) : String :=
  match parseCheckLine line with
  | .ok p => "ok " ++ strHex p.filePath ++ " " ++ toHexStr p.expectedHash ++ " " ++ (if p.isEscaped then "1" else "0")
  | .err e => e.cls
  | .panic => "PANIC"

def tagTok? (s : String) : Option Bool :=
  if s = "plain" then some false else if s = "tag" then some true else none

def termTok? (s : String) : Option Str :=
  if s = "lf" then some ['\n'] else if s = "crlf" then some ['\r', '\n'] else if s = "none" then some [] else none

def stepLine (toks : List String) : Option String :=
  match toks with
  | ["P", "line", h] => do
    let b ← unhexTok h
    let s ← strictDecode b
    pure (parseOut s)
  | ["P", "disp", h] => do
    let b ← unhexTok h
    let s ← strictDecode b
    pure (match parseCheckLine s with
      | .ok p => "ok " ++ strHex (if p.isEscaped then '\\' :: p.fileString else p.fileString)
      | .err e => e.cls
      | .panic => "PANIC")
  | ["P", "fmt", h, form] => do
    let b ← unhexTok h
    let tag ← tagTok? form
    pure ("ok " ++ strHex (formatLineBytes tag b FIXED_HASH))
  | ["P", "f2s", h] => do
    let b ← unhexTok h
    let r := filepathToStringBytes b
    pure ("ok " ++ strHex r.1 ++ " " ++ (if r.2 then "1" else "0"))
  | ["P", "unescape", h] => do
    let b ← unhexTok h
    let s ← strictDecode b
    pure (match unescape s with
      | .ok u => "ok " ++ strHex u
      | .err e => e.cls
      | .panic => "PANIC")
  | ["P", "rt", h, form, term] => do
    let b ← unhexTok h
    let tag ← tagTok? form
    let t ← termTok? term
    pure (parseOut (formatLineBytes tag b FIXED_HASH ++ t))
  | _ => none

end B3.B3sum
