/-
Primitive vocabulary shared by Spec, Gen and Model: words, bytes, little-endian conversion,
rotation.  Core Lean only (the driver executable links against this file).
-/
namespace B3

abbrev CV := Vector UInt32 8
abbrev St := Vector UInt32 16

@[inline] def rotr (x : UInt32) (n : UInt32) : UInt32 := (x >>> n) ||| (x <<< (32 - n))

/-- little-endian word from four bytes, defined arithmetically so that round trips are `omega` facts -/
def le32 (b0 b1 b2 b3 : UInt8) : UInt32 :=
  UInt32.ofNat (b0.toNat + 256 * b1.toNat + 65536 * b2.toNat + 16777216 * b3.toNat)

/-- byte `i` (0 = least significant) of a word -/
def byteOf (w : UInt32) (i : Nat) : UInt8 := UInt8.ofNat (w.toNat / 256 ^ i % 256)

theorem le32_bytes (w : UInt32) : le32 (byteOf w 0) (byteOf w 1) (byteOf w 2) (byteOf w 3) = w := by
  apply UInt32.toNat_inj.mp
  have hw := w.toNat_lt
  simp only [le32, byteOf, UInt32.toNat_ofNat', UInt8.toNat_ofNat']
  simp
  omega

theorem bytes_le32 (b0 b1 b2 b3 : UInt8) :
    byteOf (le32 b0 b1 b2 b3) 0 = b0 ∧ byteOf (le32 b0 b1 b2 b3) 1 = b1 ∧
    byteOf (le32 b0 b1 b2 b3) 2 = b2 ∧ byteOf (le32 b0 b1 b2 b3) 3 = b3 := by
  have h0 := b0.toNat_lt; have h1 := b1.toNat_lt; have h2 := b2.toNat_lt; have h3 := b3.toNat_lt
  refine ⟨?_, ?_, ?_, ?_⟩ <;>
  · apply UInt8.toNat_inj.mp
    simp only [le32, byteOf, UInt32.toNat_ofNat', UInt8.toNat_ofNat']
    simp
    omega

/-- the four bytes of a word, least significant first -/
def wordBytes (w : UInt32) : List UInt8 := [byteOf w 0, byteOf w 1, byteOf w 2, byteOf w 3]

/-- little-endian bytes of a vector of words (`le_bytes_from_words_32/64`) -/
def bytesOfWords {n : Nat} (v : Vector UInt32 n) : List UInt8 :=
  v.toList.flatMap wordBytes

/-- word `i` of a byte string, reading zero past its end (zero padding of short blocks) -/
def wordAt (bs : List UInt8) (i : Nat) : UInt32 :=
  le32 (bs.getD (4 * i) 0) (bs.getD (4 * i + 1) 0) (bs.getD (4 * i + 2) 0) (bs.getD (4 * i + 3) 0)

/-- `n` little-endian words from a byte string, zero padded (`words_from_le_bytes_32/64`) -/
def wordsOfBytes (n : Nat) (bs : List UInt8) : Vector UInt32 n := Vector.ofFn fun i => wordAt bs i.val

@[inline] def first8 (s : St) : CV := Vector.ofFn fun i : Fin 8 => s[i.val]

/-- block of a parent node: left child words then right child words -/
@[inline] def catCV (l r : CV) : St := (l ++ r : Vector UInt32 (8 + 8))

theorem wordBytes_length (w : UInt32) : (wordBytes w).length = 4 := rfl

theorem wordAt_wordBytes_append (w : UInt32) (rest : List UInt8) : wordAt (wordBytes w ++ rest) 0 = w := by
  simp [wordAt, wordBytes, le32_bytes]

/-- 64-bit LCG used by every driver to expand `pat <len> <seed>` into bytes -/
def lcgNext (s : UInt64) : UInt64 := s * 6364136223846793005 + 1442695040888963407

def patGo : Nat → UInt64 → Array UInt8 → Array UInt8
  | 0, _, acc => acc
  | n + 1, s, acc => let s' := lcgNext s; patGo n s' (acc.push (s' >>> 56).toUInt8)

def patBytes (n : Nat) (seed : UInt64) : List UInt8 := (patGo n seed (Array.mkEmpty n)).toList

end B3
