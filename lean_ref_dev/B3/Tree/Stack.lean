namespace St

def popcount (n : Nat) : Nat := if h : n = 0 then 0 else n % 2 + popcount (n / 2)
termination_by n
decreasing_by omega

/-- powers of two of T, descending (lowest set bit last) -/
def bd (n : Nat) : List Nat :=
  if h : n = 0 then [] else (bd (n / 2)).map (· * 2) ++ (if n % 2 = 1 then [1] else [])
termination_by n
decreasing_by omega

theorem bd_zero : bd 0 = [] := by rw [bd]; simp
theorem popcount_zero : popcount 0 = 0 := by rw [popcount]; simp

theorem bd_length (n : Nat) : (bd n).length = popcount n := by
  induction n using Nat.strongRecOn with
  | _ n ih =>
    rw [bd, popcount]
    split
    · simp
    · rename_i h
      simp [ih (n / 2) (by omega)]
      rcases Nat.mod_two_eq_zero_or_one n with h2 | h2 <;> simp [h2] <;> omega

theorem bd_double (n : Nat) : bd (2 * n) = (bd n).map (· * 2) := by
  by_cases h : n = 0
  · subst h; simp [bd_zero]
  · rw [bd]
    have : 2 * n ≠ 0 := by omega
    simp [this]

theorem bd_double_succ (n : Nat) : bd (2 * n + 1) = (bd n).map (· * 2) ++ [1] := by
  rw [bd]
  have h2 : (2 * n + 1) / 2 = n := by omega
  simp [h2]

inductive Lazy (T : Nat) : List Nat → Prop
  | canon : Lazy T (bd T)
  | merge (xs : List Nat) (s : Nat) : Lazy T (xs ++ [2 * s]) → Lazy T (xs ++ [s, s])

theorem Lazy.scale {T : Nat} {xs : List Nat} (h : Lazy T xs) : Lazy (2 * T) (xs.map (· * 2)) := by
  induction h with
  | canon => rw [← bd_double]; exact Lazy.canon
  | merge xs s _ ih =>
    simp only [List.map_append, List.map_cons, List.map_nil] at ih ⊢
    apply Lazy.merge
    have : 2 * s * 2 = 2 * (s * 2) := by omega
    rw [this] at ih
    exact ih

/-- pushing one unit chunk -/
theorem push_one (T : Nat) : Lazy (T + 1) (bd T ++ [1]) := by
  induction T using Nat.strongRecOn with
  | _ T ih =>
    rcases Nat.mod_two_eq_zero_or_one T with h | h
    · -- even
      have e : T = 2 * (T / 2) := by omega
      have : bd T ++ [1] = bd (T + 1) := by
        conv => rhs; rw [e, bd_double_succ]
        conv => lhs; rw [e, bd_double]
      rw [this]; exact Lazy.canon
    · have e : T = 2 * (T / 2) + 1 := by omega
      have hb : bd T = (bd (T / 2)).map (· * 2) ++ [1] := by
        conv => lhs; rw [e, bd_double_succ]
      rw [hb, List.append_assoc]
      show Lazy (T + 1) ((bd (T / 2)).map (· * 2) ++ [1, 1])
      apply Lazy.merge
      have ih' := (ih (T / 2) (by omega)).scale
      simp only [List.map_append, List.map_cons, List.map_nil] at ih'
      have e2 : T + 1 = 2 * (T / 2 + 1) := by omega
      rw [e2]
      exact ih'

/-- general carry: push a block of size 2^k when 2^k divides T -/
theorem push_carry (k T : Nat) : Lazy (2 ^ k * T + 2 ^ k) ((bd (2 ^ k * T)) ++ [2 ^ k]) := by
  induction k with
  | zero => simpa using push_one T
  | succ k ih =>
    have h := ih.scale
    simp only [List.map_append, List.map_cons, List.map_nil] at h
    rw [← bd_double] at h
    have e1 : 2 * (2 ^ k * T) = 2 ^ (k + 1) * T := by rw [Nat.pow_succ]; ac_rfl
    have e2 : 2 * (2 ^ k * T + 2 ^ k) = 2 ^ (k + 1) * T + 2 ^ (k + 1) := by
      rw [Nat.pow_succ, Nat.mul_add, Nat.mul_right_comm, Nat.mul_comm 2 (2 ^ k * T), Nat.mul_comm 2 (2 ^ k)]
    have e3 : 2 ^ k * 2 = 2 ^ (k + 1) := by rw [Nat.pow_succ]
    rw [e1, e2, e3] at h
    exact h

theorem lazy_len_ge {T : Nat} {xs : List Nat} (h : Lazy T xs) : popcount T ≤ xs.length := by
  induction h with
  | canon => rw [bd_length]; exact Nat.le_refl _
  | merge xs s _ ih => simp at ih ⊢; omega

/-- the merge loop on sizes -/
def mergeTo (target : Nat) (xs : List Nat) : List Nat :=
  if h : xs.length > target ∧ 2 ≤ xs.length then
    mergeTo target (xs.dropLast.dropLast ++ [xs.dropLast.getLast! + xs.getLast!])
  else xs
termination_by xs.length
decreasing_by simp; omega

theorem mergeTo_lazy {T : Nat} {xs : List Nat} (h : Lazy T xs) : mergeTo (popcount T) xs = bd T := by
  induction h with
  | canon => rw [mergeTo]; simp [bd_length]
  | merge xs s hl ih =>
    rw [mergeTo]
    have := lazy_len_ge hl
    simp at this
    have c : (xs ++ [s, s]).length > popcount T ∧ 2 ≤ (xs ++ [s, s]).length := by simp; omega
    rw [dif_pos c]
    have e : (xs ++ [s, s]).dropLast.dropLast ++ [(xs ++ [s, s]).dropLast.getLast! + (xs ++ [s, s]).getLast!] = xs ++ [2 * s] := by
      have h1 : xs ++ [s, s] = (xs ++ [s]) ++ [s] := by simp
      rw [h1, List.dropLast_concat, List.dropLast_concat]
      simp
      omega
    rw [e]; exact ih

end St

namespace St

theorem bd_sum (n : Nat) : (bd n).sum = n := by
  induction n using Nat.strongRecOn with
  | _ n ih =>
    by_cases h : n = 0
    · subst h; simp [bd_zero]
    · rcases Nat.mod_two_eq_zero_or_one n with h2 | h2
      · have e : n = 2 * (n / 2) := by omega
        rw [e, bd_double]
        have := ih (n / 2) (by omega)
        have hm : ∀ l : List Nat, (l.map (· * 2)).sum = l.sum * 2 := by
          intro l; induction l with
          | nil => rfl
          | cons a l ihl => simp [ihl]; omega
        rw [hm, this]; omega
      · have e : n = 2 * (n / 2) + 1 := by omega
        rw [e, bd_double_succ]
        have := ih (n / 2) (by omega)
        have hm : ∀ l : List Nat, (l.map (· * 2)).sum = l.sum * 2 := by
          intro l; induction l with
          | nil => rfl
          | cons a l ihl => simp [ihl]; omega
        simp [hm, this]; omega

theorem bd_pow2 (n : Nat) : ∀ s ∈ bd n, ∃ a, s = 2 ^ a := by
  induction n using Nat.strongRecOn with
  | _ n ih =>
    intro s hs
    by_cases h : n = 0
    · subst h; simp [bd_zero] at hs
    · rcases Nat.mod_two_eq_zero_or_one n with h2 | h2
      · have e : n = 2 * (n / 2) := by omega
        rw [e, bd_double] at hs
        simp at hs
        obtain ⟨x, hx, rfl⟩ := hs
        obtain ⟨a, rfl⟩ := ih (n / 2) (by omega) x hx
        exact ⟨a + 1, by rw [Nat.pow_succ]⟩
      · have e : n = 2 * (n / 2) + 1 := by omega
        rw [e, bd_double_succ] at hs
        simp at hs
        rcases hs with ⟨x, hx, rfl⟩ | rfl
        · obtain ⟨a, rfl⟩ := ih (n / 2) (by omega) x hx
          exact ⟨a + 1, by rw [Nat.pow_succ]⟩
        · exact ⟨0, rfl⟩

theorem lazy_pow2 {T : Nat} {xs : List Nat} (h : Lazy T xs) : ∀ s ∈ xs, ∃ a, s = 2 ^ a := by
  induction h with
  | canon => exact bd_pow2 T
  | merge xs s _ ih =>
    intro x hx
    simp at hx
    have hs : ∃ a, s = 2 ^ a := by
      obtain ⟨a, ha⟩ := ih (2 * s) (by simp)
      cases a with
      | zero => simp at ha; omega
      | succ a => exact ⟨a, by rw [Nat.pow_succ] at ha; omega⟩
    rcases hx with hx | rfl
    · exact ih x (by simp [hx])
    · exact hs

theorem lazy_sum {T : Nat} {xs : List Nat} (h : Lazy T xs) : xs.sum = T := by
  induction h with
  | canon => exact bd_sum T
  | merge xs s _ ih => simp at ih ⊢; omega

/-- every element is at least the sum of everything after it plus `k` -/
def GoodS (k : Nat) : List Nat → Prop
  | [] => True
  | x :: r => r.sum + k ≤ x ∧ GoodS k r

theorem goodS_map2 (k : Nat) : (l : List Nat) → GoodS k l → GoodS (2 * k) (l.map (· * 2))
  | [], _ => trivial
  | x :: r, h => by
    have hm : ∀ l : List Nat, (l.map (· * 2)).sum = l.sum * 2 := by
      intro l; induction l with
      | nil => rfl
      | cons a l ihl => simp [ihl]; omega
    refine ⟨?_, goodS_map2 k r h.2⟩
    have := h.1
    show (r.map (· * 2)).sum + 2 * k ≤ x * 2
    rw [hm]; omega

theorem goodS_mono {k k' : Nat} (hk : k' ≤ k) : (l : List Nat) → GoodS k l → GoodS k' l
  | [], _ => trivial
  | x :: r, h => ⟨by have := h.1; omega, goodS_mono hk r h.2⟩

theorem goodS_append_one : (l : List Nat) → GoodS 2 l → GoodS 1 (l ++ [1])
  | [], _ => by simp [GoodS]
  | x :: r, h => by
    refine ⟨?_, goodS_append_one r h.2⟩
    have := h.1
    simp; omega

theorem bd_goodS (n : Nat) : GoodS 1 (bd n) := by
  induction n using Nat.strongRecOn with
  | _ n ih =>
    by_cases h : n = 0
    · subst h; simp [bd_zero, GoodS]
    · rcases Nat.mod_two_eq_zero_or_one n with h2 | h2
      · have e : n = 2 * (n / 2) := by omega
        rw [e, bd_double]
        exact goodS_mono (by omega) _ (goodS_map2 1 _ (ih (n / 2) (by omega)))
      · have e : n = 2 * (n / 2) + 1 := by omega
        rw [e, bd_double_succ]
        exact goodS_append_one _ (goodS_map2 1 _ (ih (n / 2) (by omega)))

theorem goodS_unmerge (xs : List Nat) (s : Nat) : GoodS 0 (xs ++ [2 * s]) → GoodS 0 (xs ++ [s, s]) := by
  induction xs with
  | nil => intro _; simp [GoodS]
  | cons x r ih =>
    intro h
    refine ⟨?_, ih h.2⟩
    have := h.1
    simp at this ⊢; omega

theorem lazy_goodS {T : Nat} {xs : List Nat} (h : Lazy T xs) : GoodS 0 xs := by
  induction h with
  | canon => exact goodS_mono (by omega) _ (bd_goodS T)
  | merge xs s _ ih => exact goodS_unmerge xs s ih

end St
