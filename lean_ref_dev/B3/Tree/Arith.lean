namespace Ar

/-- `largest_power_of_two_leq` -/
def lp2le (n : Nat) : Nat := 2 ^ Nat.log2 n

theorem lp2le_le (n : Nat) (h : n ≠ 0) : lp2le n ≤ n := Nat.log2_self_le h
theorem lt_two_lp2le (n : Nat) : n < 2 * lp2le n := by
  have := @Nat.lt_log2_self n
  rw [Nat.pow_succ] at this
  unfold lp2le; omega

theorem lp2le_ge_pow (n c : Nat) (h : 2 ^ c ≤ n) : c ≤ Nat.log2 n := by
  have hn : n ≠ 0 := by have := Nat.two_pow_pos c; omega
  exact (Nat.le_log2 hn).mpr h

/-- the shrink loop of `update_with_join` -/
def shrink (st csf : Nat) : Nat :=
  if h : (st - 1) &&& csf ≠ 0 then shrink (st / 2) csf else st
termination_by st
decreasing_by
  have : st - 1 ≠ 0 := by
    intro h0; rw [h0] at h; simp at h
  omega

theorem mask_zero_iff (e csf : Nat) : (2 ^ e - 1) &&& csf = 0 ↔ 2 ^ e ∣ csf := by
  rw [Nat.and_comm, Nat.and_two_pow_sub_one_eq_mod]
  exact (Nat.dvd_iff_mod_eq_zero ..).symm

theorem shrink_spec (c csf : Nat) (hc : 2 ^ c ∣ csf) :
    ∀ e0, c ≤ e0 → ∃ e, c ≤ e ∧ e ≤ e0 ∧ shrink (2 ^ e0) csf = 2 ^ e ∧ 2 ^ e ∣ csf := by
  intro e0
  induction e0 with
  | zero =>
    intro h
    have : c = 0 := by omega
    subst this
    refine ⟨0, Nat.le_refl _, Nat.le_refl _, ?_, by simp⟩
    rw [shrink]; simp
  | succ e0 ih =>
    intro h
    rw [shrink]
    by_cases hm : (2 ^ (e0 + 1) - 1) &&& csf ≠ 0
    · rw [dif_pos hm]
      have hne : c ≠ e0 + 1 := by
        intro heq; subst heq
        exact hm ((mask_zero_iff _ _).mpr hc)
      have h2 : 2 ^ (e0 + 1) / 2 = 2 ^ e0 := by rw [Nat.pow_succ]; omega
      rw [h2]
      obtain ⟨e, h1, h3, h4, h5⟩ := ih (by omega)
      exact ⟨e, h1, by omega, h4, h5⟩
    · rw [dif_neg hm]
      have : (2 ^ (e0 + 1) - 1) &&& csf = 0 := by
        by_cases h0 : (2 ^ (e0 + 1) - 1) &&& csf = 0
        · exact h0
        · exact absurd h0 hm
      exact ⟨e0 + 1, h, Nat.le_refl _, rfl, (mask_zero_iff _ _).mp this⟩

theorem pow_dvd_pow' (a b : Nat) (h : a ≤ b) : 2 ^ a ∣ 2 ^ b := by
  obtain ⟨k, rfl⟩ := Nat.exists_eq_add_of_le h
  exact ⟨2 ^ k, by rw [Nat.pow_add]⟩

end Ar
