import B3.Tree.Basic
import B3.Tree.Hasher
namespace Hs
open Tr

variable {α β : Type} (node : α → α → α) (d : α)
variable (c : Nat)
variable (leaf : Nat → List β → α)

/-- all leaves of a non-empty input: the complete chunks, then the partial last chunk if any
(this is what `compress_chunks_parallel` returns when the input fits in one SIMD batch) -/
def allLeaves (t : Nat) (s : List β) : List α :=
  if h : 2 ^ c < s.length then leaf t (s.take (2 ^ c)) :: allLeaves (t + 1) (s.drop (2 ^ c))
  else [leaf t s]
termination_by s.length
decreasing_by
  have := Nat.two_pow_pos c
  simp [List.length_drop]; omega

/-- number of chunks of a non-empty input -/
def nchunks (n : Nat) : Nat := (n + 2 ^ c - 1) / 2 ^ c

theorem allLeaves_length (t : Nat) (s : List β) (hs : 0 < s.length) :
    (allLeaves c leaf t s).length = nchunks c s.length := by
  have hp := Nat.two_pow_pos c
  induction hn : s.length using Nat.strongRecOn generalizing t s with
  | _ n ih =>
    rw [allLeaves]
    split
    · rename_i h
      simp only [List.length_cons]
      rw [ih (s.drop (2 ^ c)).length (by simp [List.length_drop]; omega) (t + 1) (s.drop (2 ^ c))
            (by simp [List.length_drop]; omega) rfl]
      simp only [nchunks, List.length_drop]
      rw [← hn]
      have : s.length + 2 ^ c - 1 = (s.length - 2 ^ c + 2 ^ c - 1) + 2 ^ c := by omega
      rw [this, Nat.add_div_right _ hp]
    · rename_i h
      simp only [nchunks, List.length_singleton]
      rw [← hn]
      have h1 : s.length + 2 ^ c - 1 = (s.length - 1) + 2 ^ c := by omega
      rw [h1, Nat.add_div_right _ hp, Nat.div_eq_of_lt (by omega)]

/-- splitting after `k` complete chunks, with something left over -/
theorem allLeaves_append (k : Nat) : ∀ (t : Nat) (a b : List β), a.length = k * 2 ^ c → 0 < b.length →
    allLeaves c leaf t (a ++ b) = fullLeaves c leaf t a ++ allLeaves c leaf (t + k) b := by
  have hp := Nat.two_pow_pos c
  induction k with
  | zero =>
    intro t a b ha _
    have : a = [] := List.eq_nil_of_length_eq_zero (by simpa using ha)
    subst this
    simp [fullLeaves_short c leaf t [] (by simpa using hp)]
  | succ k ih =>
    intro t a b ha hb
    have hle : 2 ^ c ≤ a.length := by rw [ha, Nat.succ_mul]; omega
    rw [allLeaves, dif_pos (by simp; omega), fullLeaves_cons c leaf t a hle]
    rw [List.take_append_of_le_length hle, List.drop_append_of_le_length hle]
    rw [ih (t + 1) (a.drop (2 ^ c)) b (by simp [List.length_drop, ha, Nat.succ_mul]) hb]
    have e : t + 1 + k = t + (k + 1) := by omega
    simp [e]

end Hs

namespace Hs
open Tr

variable {α β : Type} (node : α → α → α) (d : α)
variable (c : Nat)
variable (leaf : Nat → List β → α)

theorem nchunks_spec (n : Nat) (hn : 0 < n) :
    (nchunks c n - 1) * 2 ^ c < n ∧ n ≤ nchunks c n * 2 ^ c ∧ 1 ≤ nchunks c n := by
  have hp := Nat.two_pow_pos c
  unfold nchunks
  have h1 := Nat.div_add_mod (n + 2 ^ c - 1) (2 ^ c)
  have h2 := Nat.mod_lt (n + 2 ^ c - 1) hp
  generalize (n + 2 ^ c - 1) / 2 ^ c = q at *
  generalize (n + 2 ^ c - 1) % 2 ^ c = r at *
  have hq : 1 ≤ q := by
    rcases Nat.eq_zero_or_pos q with h0 | h0
    · subst h0; simp at h1; omega
    · exact h0
  refine ⟨?_, ?_, hq⟩
  · have : (q - 1) * 2 ^ c + 2 ^ c = q * 2 ^ c := by
      have : q = (q - 1) + 1 := by omega
      conv => rhs; rw [this, Nat.add_mul]
      simp
    rw [Nat.mul_comm] at h1; omega
  · rw [Nat.mul_comm] at h1; omega

theorem nchunks_unique (n q : Nat) (h1 : (q - 1) * 2 ^ c < n) (h2 : n ≤ q * 2 ^ c) (hq : 1 ≤ q) :
    nchunks c n = q := by
  have hp := Nat.two_pow_pos c
  have hn : 0 < n := by omega
  obtain ⟨a1, a2, a3⟩ := nchunks_spec c n hn
  generalize nchunks c n = m at *
  -- both m and q satisfy (x-1)*C < n ≤ x*C
  rcases Nat.lt_trichotomy m q with h | h | h
  · have : m * 2 ^ c ≤ (q - 1) * 2 ^ c := Nat.mul_le_mul_right _ (by omega)
    omega
  · exact h
  · have : q * 2 ^ c ≤ (m - 1) * 2 ^ c := Nat.mul_le_mul_right _ (by omega)
    omega

theorem allLeaves_complete (k : Nat) : ∀ (t : Nat) (s : List β), s.length = (k + 1) * 2 ^ c →
    allLeaves c leaf t s = fullLeaves c leaf t s := by
  have hp := Nat.two_pow_pos c
  induction k with
  | zero =>
    intro t s hs
    simp at hs
    rw [allLeaves, dif_neg (by omega), fullLeaves_one c leaf t s hs]
  | succ k ih =>
    intro t s hs
    have hlt : 2 ^ c < s.length := by
      rw [hs, Nat.succ_mul, Nat.succ_mul]; omega
    rw [allLeaves, dif_pos hlt, fullLeaves_cons c leaf t s (by omega)]
    rw [ih (t + 1) (s.drop (2 ^ c)) (by simp [List.length_drop, hs, Nat.succ_mul])]

theorem lp2lt_ge_pow (j n : Nat) (h : 2 ^ j < n) : 2 ^ j ≤ lp2lt n := by
  unfold lp2lt
  have hn : n - 1 ≠ 0 := by have := Nat.two_pow_pos j; omega
  exact Nat.pow_le_pow_right (by omega) ((Nat.le_log2 hn).mpr (by omega))

theorem collapse_pairUp (xs : List α) : collapse node d (pairUp node xs) = collapse node d xs := by
  have h1 : xs.length ≤ 2 ^ (xs.length + 1) := by
    have := @Nat.lt_two_pow_self (xs.length + 1); omega
  have h2 : (pairUp node xs).length ≤ 2 ^ xs.length := by
    rw [pairUp_length]
    have := @Nat.lt_two_pow_self xs.length; omega
  rw [collapse_eq_iter node d (xs.length + 1) xs h1, collapse_eq_iter node d xs.length _ h2]
  rfl

end Hs

namespace Hs
open Tr

variable {α β : Type} (node : α → α → α) (d : α)
variable (c : Nat)
variable (leaf : Nat → List β → α)

/-- `left_subtree_len`, in bytes -/
def leftLen (n : Nat) : Nat := lp2lt (nchunks c n) * 2 ^ c

/-- `compress_subtree_wide` for SIMD degree `sd`, returning the list of chaining values -/
def wide (sd : Nat) (t : Nat) (input : List β) : List α :=
  if h : input.length ≤ sd * 2 ^ c then allLeaves c leaf t input
  else
    if hL : 0 < leftLen c input.length ∧ leftLen c input.length < input.length then
      let l := wide sd t (input.take (leftLen c input.length))
      let r := wide sd (t + leftLen c input.length / 2 ^ c) (input.drop (leftLen c input.length))
      if l.length = 1 then l ++ r else pairUp node (l ++ r)
    else allLeaves c leaf t input
termination_by input.length
decreasing_by
  · simp [List.length_take]; omega
  · simp [List.length_drop]; omega

/-- facts about the split point -/
theorem split_facts (sd j n : Nat) (hsd : sd = 2 ^ j) (hn : sd * 2 ^ c < n) :
    ∃ a, leftLen c n = 2 ^ a * 2 ^ c ∧ 2 ^ a * 2 ^ c < n ∧ j ≤ a ∧
         nchunks c (n - 2 ^ a * 2 ^ c) = nchunks c n - 2 ^ a ∧
         1 ≤ nchunks c n - 2 ^ a ∧ nchunks c n - 2 ^ a ≤ 2 ^ a ∧ 2 ^ a < nchunks c n := by
  have hp := Nat.two_pow_pos c
  have hj := Nat.two_pow_pos j
  have hn0 : 0 < n := by
    have : 0 < sd * 2 ^ c := by rw [hsd]; exact Nat.mul_pos hj hp
    omega
  obtain ⟨s1, s2, s3⟩ := nchunks_spec c n hn0
  have hq : sd < nchunks c n := by
    rcases Nat.lt_or_ge sd (nchunks c n) with h | h
    · exact h
    · have : nchunks c n * 2 ^ c ≤ sd * 2 ^ c := Nat.mul_le_mul_right _ h
      omega
  have hq2 : 2 ≤ nchunks c n := by omega
  obtain ⟨l1, l2⟩ := lp2lt_spec (nchunks c n) hq2
  refine ⟨Nat.log2 (nchunks c n - 1), rfl, ?_, ?_, ?_, ?_, ?_, ?_⟩
  · show lp2lt (nchunks c n) * 2 ^ c < n
    have : lp2lt (nchunks c n) * 2 ^ c ≤ (nchunks c n - 1) * 2 ^ c := Nat.mul_le_mul_right _ (by omega)
    omega
  · have h1 := lp2lt_ge_pow j (nchunks c n) (by omega)
    unfold lp2lt at h1
    exact (Nat.pow_le_pow_iff_right (by omega)).mp h1
  · show nchunks c (n - lp2lt (nchunks c n) * 2 ^ c) = nchunks c n - lp2lt (nchunks c n)
    apply nchunks_unique
    · have e : (nchunks c n - lp2lt (nchunks c n) - 1) * 2 ^ c + lp2lt (nchunks c n) * 2 ^ c
          = (nchunks c n - 1) * 2 ^ c := by
        rw [← Nat.add_mul]; congr 1; omega
      have : lp2lt (nchunks c n) * 2 ^ c ≤ (nchunks c n - 1) * 2 ^ c := Nat.mul_le_mul_right _ (by omega)
      omega
    · have e : (nchunks c n - lp2lt (nchunks c n)) * 2 ^ c + lp2lt (nchunks c n) * 2 ^ c
          = nchunks c n * 2 ^ c := by
        rw [← Nat.add_mul]; congr 1; omega
      omega
    · omega
  · show 1 ≤ nchunks c n - lp2lt (nchunks c n); omega
  · show nchunks c n - lp2lt (nchunks c n) ≤ lp2lt (nchunks c n); omega
  · exact l1

end Hs

namespace Hs
open Tr

variable {α β : Type} (node : α → α → α) (d : α)
variable (c : Nat)
variable (leaf : Nat → List β → α)

theorem wide_base (sd t : Nat) (input : List β) (h : input.length ≤ sd * 2 ^ c) :
    wide node c leaf sd t input = allLeaves c leaf t input := by
  rw [wide]; simp [h]

theorem wide_step (sd t : Nat) (input : List β) (h : ¬ input.length ≤ sd * 2 ^ c)
    (hL : 0 < leftLen c input.length ∧ leftLen c input.length < input.length) :
    wide node c leaf sd t input =
      if (wide node c leaf sd t (input.take (leftLen c input.length))).length = 1 then
        wide node c leaf sd t (input.take (leftLen c input.length)) ++
          wide node c leaf sd (t + leftLen c input.length / 2 ^ c) (input.drop (leftLen c input.length))
      else pairUp node
        (wide node c leaf sd t (input.take (leftLen c input.length)) ++
          wide node c leaf sd (t + leftLen c input.length / 2 ^ c) (input.drop (leftLen c input.length))) := by
  rw [wide]; simp only [h, hL, dif_neg, dif_pos, not_false_eq_true, and_self]

theorem max_pow (j : Nat) : ∃ b, max (2 ^ j) 2 = 2 ^ b ∧ 1 ≤ b := by
  cases j with
  | zero => exact ⟨1, by simp, by omega⟩
  | succ j =>
    refine ⟨j + 1, ?_, by omega⟩
    have := Nat.two_pow_pos j
    rw [Nat.pow_succ]; omega

theorem nchunks_pow (e : Nat) : nchunks c (2 ^ e * 2 ^ c) = 2 ^ e := by
  have hp := Nat.two_pow_pos c
  have he' := Nat.two_pow_pos e
  apply nchunks_unique
  · have : (2 ^ e - 1) * 2 ^ c + 2 ^ c = 2 ^ e * 2 ^ c := by
      have h1 : 2 ^ e = (2 ^ e - 1) + 1 := by omega
      conv => rhs; rw [h1, Nat.add_mul]
      simp
    omega
  · omega
  · exact he'

/-- between 2^a and 2·2^a the only power of two is 2·2^a -/
theorem pow_between (a e : Nat) (h1 : 2 ^ a < 2 ^ e) (h2 : 2 ^ e ≤ 2 * 2 ^ a) : 2 ^ e = 2 * 2 ^ a := by
  have hae : a < e := (Nat.pow_lt_pow_iff_right (by omega)).mp h1
  have : 2 ^ (a + 1) ≤ 2 ^ e := Nat.pow_le_pow_right (by omega) hae
  rw [Nat.pow_succ] at this
  omega

theorem wide_spec (sd j : Nat) (hsd : sd = 2 ^ j) :
    ∀ (n t : Nat) (input : List β), input.length = n → 0 < n →
      collapse node d (wide node c leaf sd t input) = collapse node d (allLeaves c leaf t input) ∧
      1 ≤ (wide node c leaf sd t input).length ∧ (wide node c leaf sd t input).length ≤ max sd 2 ∧
      (∀ e, n = 2 ^ e * 2 ^ c →
        (wide node c leaf sd t input).length = if 2 ^ e ≤ sd then 2 ^ e else max sd 2) := by
  have hp := Nat.two_pow_pos c
  have hj := Nat.two_pow_pos j
  intro n
  induction n using Nat.strongRecOn with
  | _ n ih =>
    intro t input hlen hpos
    by_cases hb : input.length ≤ sd * 2 ^ c
    · -- one SIMD batch
      rw [wide_base node c leaf sd t input hb]
      have hl := allLeaves_length c leaf t input (by omega)
      obtain ⟨s1, s2, s3⟩ := nchunks_spec c input.length (by omega)
      have hq : nchunks c input.length ≤ sd := by
        rcases Nat.lt_or_ge sd (nchunks c input.length) with h | h
        · have : sd * 2 ^ c ≤ (nchunks c input.length - 1) * 2 ^ c := Nat.mul_le_mul_right _ (by omega)
          omega
        · exact h
      refine ⟨rfl, by omega, by omega, ?_⟩
      intro e he
      have : nchunks c input.length = 2 ^ e := by
        apply nchunks_unique
        · have he' := Nat.two_pow_pos e
          have : (2 ^ e - 1) * 2 ^ c + 2 ^ c = 2 ^ e * 2 ^ c := by
            have h1 : 2 ^ e = (2 ^ e - 1) + 1 := by omega
            conv => rhs; rw [h1, Nat.add_mul]
            simp
          omega
        · omega
        · exact Nat.two_pow_pos e
      rw [hl, this, if_pos (by omega)]
    · -- recursion
      obtain ⟨a, f1, f2, f3, f4, f5, f6, f7⟩ := split_facts c sd j input.length hsd (by omega)
      have ha := Nat.two_pow_pos a
      have hL : 0 < leftLen c input.length ∧ leftLen c input.length < input.length := by
        rw [f1]; exact ⟨Nat.mul_pos ha hp, f2⟩
      rw [wide_step node c leaf sd t input hb hL, f1, Nat.mul_div_cancel _ hp]
      have htl : (input.take (2 ^ a * 2 ^ c)).length = 2 ^ a * 2 ^ c := by
        rw [List.length_take]; omega
      have hdl : (input.drop (2 ^ a * 2 ^ c)).length = input.length - 2 ^ a * 2 ^ c := List.length_drop
      obtain ⟨li, l1, l2, l3⟩ := ih (2 ^ a * 2 ^ c) (by omega) t (input.take (2 ^ a * 2 ^ c)) htl (by omega)
      obtain ⟨ri, r1, r2, r3⟩ := ih (input.length - 2 ^ a * 2 ^ c) (by omega) (t + 2 ^ a)
        (input.drop (2 ^ a * 2 ^ c)) hdl (by omega)
      have hl3 := l3 a rfl
      -- the leaves split accordingly
      have hleaves : allLeaves c leaf t input =
          fullLeaves c leaf t (input.take (2 ^ a * 2 ^ c)) ++ allLeaves c leaf (t + 2 ^ a) (input.drop (2 ^ a * 2 ^ c)) := by
        have := allLeaves_append c leaf (2 ^ a) t (input.take (2 ^ a * 2 ^ c)) (input.drop (2 ^ a * 2 ^ c)) htl (by omega)
        rw [List.take_append_drop] at this; exact this
      have hcomp : allLeaves c leaf t (input.take (2 ^ a * 2 ^ c)) = fullLeaves c leaf t (input.take (2 ^ a * 2 ^ c)) := by
        obtain ⟨k, hk⟩ : ∃ k, 2 ^ a = k + 1 := ⟨2 ^ a - 1, by omega⟩
        exact allLeaves_complete c leaf k t _ (by rw [htl, hk])
      have hfl : (fullLeaves c leaf t (input.take (2 ^ a * 2 ^ c))).length = 2 ^ a := by
        rw [fullLeaves_length, htl, Nat.mul_div_cancel _ hp]
      have hal : (allLeaves c leaf (t + 2 ^ a) (input.drop (2 ^ a * 2 ^ c))).length = nchunks c input.length - 2 ^ a := by
        rw [allLeaves_length c leaf _ _ (by omega), hdl, f4]
      have hspecR : collapse node d (allLeaves c leaf t input) =
          node (collapse node d (fullLeaves c leaf t (input.take (2 ^ a * 2 ^ c))))
               (collapse node d (allLeaves c leaf (t + 2 ^ a) (input.drop (2 ^ a * 2 ^ c)))) := by
        rw [hleaves]
        exact collapse_append node d a _ _ hfl (by omega) (by omega)
      rw [hcomp] at li
      have hja : 2 ^ j ≤ 2 ^ a := Nat.pow_le_pow_right (by omega) f3
      obtain ⟨b, hb1, hb2⟩ := max_pow j
      -- size of the left result
      have hlsize : (wide node c leaf sd t (input.take (2 ^ a * 2 ^ c))).length = 1 ∨
          ((wide node c leaf sd t (input.take (2 ^ a * 2 ^ c))).length = max sd 2 ∧
           (wide node c leaf sd t (input.take (2 ^ a * 2 ^ c))).length ≠ 1) := by
        rw [hl3]
        by_cases hc : 2 ^ a ≤ sd
        · rw [if_pos hc]
          have : 2 ^ a = sd := by omega
          rcases Nat.lt_or_ge sd 2 with h2 | h2
          · left; omega
          · right; omega
        · rw [if_neg hc]; right
          exact ⟨rfl, by omega⟩
      rcases hlsize with h1 | ⟨hm, hne⟩
      · -- degree-1 special case: two chaining values are returned as they are
        rw [if_pos h1]
        have hA := collapse_append node d 0 _ (wide node c leaf sd (t + 2 ^ a) (input.drop (2 ^ a * 2 ^ c)))
          (by simpa using h1) r1 (by
            -- the right side is a single chunk here
            have : (wide node c leaf sd t (input.take (2 ^ a * 2 ^ c))).length = if 2 ^ a ≤ sd then 2 ^ a else max sd 2 := hl3
            have hsd1 : sd = 1 ∧ 2 ^ a = 1 := by
              rw [h1] at this
              by_cases hc : 2 ^ a ≤ sd
              · rw [if_pos hc] at this; omega
              · rw [if_neg hc] at this; omega
            have hr1 : (input.drop (2 ^ a * 2 ^ c)).length ≤ sd * 2 ^ c := by
              obtain ⟨s1, s2, s3⟩ := nchunks_spec c input.length (by omega)
              rw [hdl, hsd1.1, hsd1.2]
              have : nchunks c input.length ≤ 2 := by omega
              have : nchunks c input.length * 2 ^ c ≤ 2 * 2 ^ c := Nat.mul_le_mul_right _ this
              omega
            rw [wide_base node c leaf sd _ _ hr1, hal]
            simp; omega)
        have hsd1 : sd = 1 ∧ 2 ^ a = 1 := by
          have := hl3
          rw [h1] at this
          by_cases hc : 2 ^ a ≤ sd
          · rw [if_pos hc] at this; omega
          · rw [if_neg hc] at this; omega
        have hrlen1 : (wide node c leaf sd (t + 2 ^ a) (input.drop (2 ^ a * 2 ^ c))).length = 1 := by
          have hr1 : (input.drop (2 ^ a * 2 ^ c)).length ≤ sd * 2 ^ c := by
            obtain ⟨s1, s2, s3⟩ := nchunks_spec c input.length (by omega)
            rw [hdl, hsd1.1, hsd1.2]
            have : nchunks c input.length ≤ 2 := by omega
            have : nchunks c input.length * 2 ^ c ≤ 2 * 2 ^ c := Nat.mul_le_mul_right _ this
            omega
          rw [wide_base node c leaf sd _ _ hr1, hal]
          omega
        refine ⟨?_, ?_, ?_, ?_⟩
        · rw [hA, li, ri, hspecR]
        · simp; omega
        · simp only [List.length_append, h1, hrlen1]
          omega
        · intro e he
          simp only [List.length_append, h1, hrlen1]
          have hq : nchunks c input.length = 2 ^ e := by rw [hlen, he, nchunks_pow]
          have h2e : 2 ^ e = 2 := by
            have := pow_between a e (by omega) (by omega); omega
          rw [h2e, hsd1.1]
          simp
      · rw [if_neg hne]
        have hrle : (wide node c leaf sd (t + 2 ^ a) (input.drop (2 ^ a * 2 ^ c))).length ≤ 2 ^ b := by
          rw [← hb1, ← hsd]; exact r2
        have hA := collapse_append node d b _ (wide node c leaf sd (t + 2 ^ a) (input.drop (2 ^ a * 2 ^ c)))
          (by rw [hm, hsd, hb1]) r1 hrle
        refine ⟨?_, ?_, ?_, ?_⟩
        · rw [collapse_pairUp, hA, li, ri, hspecR]
        · rw [pairUp_length]; simp only [List.length_append]; omega
        · rw [pairUp_length]; simp only [List.length_append]
          rw [hm]
          have : (wide node c leaf sd (t + 2 ^ a) (input.drop (2 ^ a * 2 ^ c))).length ≤ max sd 2 := r2
          omega
        · intro e he
          have hq : nchunks c input.length = 2 ^ e := by rw [hlen, he, nchunks_pow]
          have h2e : 2 ^ e = 2 * 2 ^ a := pow_between a e (by omega) (by omega)
          have hrlen : input.length - 2 ^ a * 2 ^ c = 2 ^ a * 2 ^ c := by
            rw [hlen, he, h2e, Nat.mul_assoc, Nat.two_mul]; omega
          have hr3 := r3 a hrlen
          rw [pairUp_length]; simp only [List.length_append]
          rw [hr3, ← hl3, hm]
          have : ¬ 2 ^ e ≤ sd := by omega
          rw [if_neg this]
          omega

end Hs
