namespace Tr
variable {α : Type} (node : α → α → α)

def pairUp : List α → List α
  | a :: b :: rest => node a b :: pairUp rest
  | xs => xs

@[simp] theorem pairUp_nil : pairUp node ([] : List α) = [] := by simp [pairUp]
@[simp] theorem pairUp_single (a : α) : pairUp node [a] = [a] := by simp [pairUp]
@[simp] theorem pairUp_cons2 (a b : α) (r : List α) : pairUp node (a :: b :: r) = node a b :: pairUp node r := by
  simp [pairUp]

theorem pairUp_length (xs : List α) : (pairUp node xs).length = (xs.length + 1) / 2 := by
  fun_induction pairUp node xs with
  | case1 a b rest ih => simp [ih]; omega
  | case2 xs hne =>
    match xs, hne with
    | [], _ => simp
    | [a], _ => simp
    | a :: b :: r, hne => exact absurd rfl (hne a b r)

theorem pairUp_append_even (xs ys : List α) (h : xs.length % 2 = 0) :
    pairUp node (xs ++ ys) = pairUp node xs ++ pairUp node ys := by
  fun_induction pairUp node xs with
  | case1 a b rest ih => simp; apply ih; simp at h; omega
  | case2 xs hne =>
    match xs, hne with
    | [], _ => simp
    | [a], _ => simp at h
    | a :: b :: r, hne => exact absurd rfl (hne a b r)

/-- iterate pairUp `n` times -/
def iter : Nat → List α → List α
  | 0, xs => xs
  | n+1, xs => iter n (pairUp node xs)

/-- collapse with explicit default -/
def collapse (d : α) (xs : List α) : α := (iter node xs.length xs).headD d

theorem iter_single (n : Nat) (a : α) : iter node n [a] = [a] := by
  induction n with
  | zero => rfl
  | succ n ih => simp [iter, ih]

theorem iter_nil (n : Nat) : iter node n ([] : List α) = [] := by
  induction n with
  | zero => rfl
  | succ n ih => simp [iter, ih]

/-- enough fuel: any n ≥ length gives a list of length ≤ 1, and more fuel does not change it -/
theorem iter_len_le_one (n : Nat) (xs : List α) (h : xs.length ≤ 2 ^ n) : (iter node n xs).length ≤ 1 := by
  induction n generalizing xs with
  | zero => simpa [iter] using h
  | succ n ih =>
    simp only [iter]
    apply ih
    rw [pairUp_length]
    rw [Nat.pow_succ] at h
    omega

theorem iter_add (m n : Nat) (xs : List α) : iter node (m + n) xs = iter node n (iter node m xs) := by
  induction m generalizing xs with
  | zero => simp [iter]
  | succ m ih => rw [Nat.succ_add]; simp [iter, ih]

theorem iter_stable (n k : Nat) (xs : List α) (h : (iter node n xs).length ≤ 1) :
    iter node (n + k) xs = iter node n xs := by
  rw [iter_add]
  generalize iter node n xs = ys at h
  match ys, h with
  | [], _ => exact iter_nil node k
  | [a], _ => exact iter_single node k a

theorem lt_two_pow_self' (n : Nat) : n < 2 ^ n := Nat.lt_two_pow_self

/-- collapse can be computed with any sufficient fuel -/
theorem collapse_eq_iter (d : α) (n : Nat) (xs : List α) (h : xs.length ≤ 2 ^ n) :
    collapse node d xs = (iter node n xs).headD d := by
  unfold collapse
  have h1 : (iter node n xs).length ≤ 1 := iter_len_le_one node n xs h
  have h2 : (iter node xs.length xs).length ≤ 1 :=
    iter_len_le_one node xs.length xs (Nat.le_of_lt Nat.lt_two_pow_self)
  rcases Nat.le_total n xs.length with hle | hle
  · obtain ⟨k, hk⟩ := Nat.exists_eq_add_of_le hle
    rw [hk, iter_stable node n k xs h1]
  · obtain ⟨k, hk⟩ := Nat.exists_eq_add_of_le hle
    rw [hk, iter_stable node xs.length k xs h2]

theorem iter_append_pow (a : Nat) (xs ys : List α) (hx : xs.length = 2 ^ a) :
    iter node a (xs ++ ys) = iter node a xs ++ iter node a ys := by
  induction a generalizing xs ys with
  | zero => simp [iter]
  | succ a ih =>
    simp only [iter]
    rw [pairUp_append_even node xs ys (by rw [hx, Nat.pow_succ]; omega)]
    apply ih
    rw [pairUp_length, hx, Nat.pow_succ]; omega

theorem iter_len_pos (n : Nat) (xs : List α) (h : 1 ≤ xs.length) : 1 ≤ (iter node n xs).length := by
  induction n generalizing xs with
  | zero => simpa [iter] using h
  | succ n ih => simp only [iter]; apply ih; rw [pairUp_length]; omega

/-- (A) -/
theorem collapse_append (d : α) (a : Nat) (xs ys : List α)
    (hx : xs.length = 2 ^ a) (hy1 : 1 ≤ ys.length) (hy2 : ys.length ≤ 2 ^ a) :
    collapse node d (xs ++ ys) = node (collapse node d xs) (collapse node d ys) := by
  have hxy : (xs ++ ys).length ≤ 2 ^ (a + 1) := by simp [Nat.pow_succ]; omega
  rw [collapse_eq_iter node d (a+1) (xs ++ ys) hxy,
      collapse_eq_iter node d a xs (by omega), collapse_eq_iter node d a ys hy2]
  rw [show a + 1 = a + 1 from rfl, iter_add, iter_append_pow node a xs ys hx]
  have h1 := iter_len_le_one node a xs (by omega)
  have h2 := iter_len_le_one node a ys hy2
  -- both are singletons
  have lx : (iter node a xs).length = 1 := by
    have := iter_len_pos node a xs (by omega); omega
  have ly : (iter node a ys).length = 1 := by
    have := iter_len_pos node a ys (by omega); omega
  match hxs : iter node a xs, hys : iter node a ys, lx, ly with
  | [x], [y], _, _ => simp [iter]


/-- largest power of two strictly below n (n ≥ 2) -/
def lp2lt (n : Nat) : Nat := 2 ^ Nat.log2 (n - 1)

theorem lp2lt_spec (n : Nat) (h : 2 ≤ n) : lp2lt n < n ∧ n ≤ 2 * lp2lt n := by
  unfold lp2lt
  have h1 : n - 1 ≠ 0 := by omega
  have := Nat.log2_self_le h1
  have := @Nat.lt_log2_self (n - 1)
  rw [Nat.pow_succ] at this
  omega

def topDown (d : α) (xs : List α) : α :=
  if h : xs.length ≤ 1 then xs.headD d else
    node (topDown d (xs.take (lp2lt xs.length))) (topDown d (xs.drop (lp2lt xs.length)))
termination_by xs.length
decreasing_by
  all_goals
    have := lp2lt_spec xs.length (by omega)
    simp [List.length_take, List.length_drop] <;> omega

theorem collapse_le_one (d : α) (xs : List α) (h : xs.length ≤ 1) : collapse node d xs = xs.headD d := by
  match xs, h with
  | [], _ => simp [collapse, iter]
  | [x], _ => simp [collapse, iter]

/-- (P) -/
theorem topDown_eq_collapse (d : α) (xs : List α) : topDown node d xs = collapse node d xs := by
  induction hn : xs.length using Nat.strongRecOn generalizing xs with
  | _ n ih =>
    rw [topDown]
    split
    · rename_i h; rw [collapse_le_one node d xs h]
    · rename_i h
      have hs := lp2lt_spec xs.length (by omega)
      have e1 := ih (xs.take (lp2lt xs.length)).length (by simp [List.length_take]; omega) (xs.take (lp2lt xs.length)) rfl
      have e2 := ih (xs.drop (lp2lt xs.length)).length (by simp [List.length_drop]; omega) (xs.drop (lp2lt xs.length)) rfl
      rw [e1, e2]
      have := collapse_append node d (Nat.log2 (xs.length - 1)) (xs.take (lp2lt xs.length)) (xs.drop (lp2lt xs.length))
        (by simp [List.length_take, lp2lt] at *; omega) (by simp [List.length_drop]; omega) (by simp [List.length_drop, lp2lt] at *; omega)
      rw [List.take_append_drop] at this
      exact this.symm

/-- the split point is determined by the bounds -/
theorem lp2lt_unique (a n : Nat) (h1 : 2 ^ a < n) (h2 : n ≤ 2 * 2 ^ a) : lp2lt n = 2 ^ a := by
  unfold lp2lt
  have hn : n - 1 ≠ 0 := by have := Nat.two_pow_pos a; omega
  have e : Nat.log2 (n - 1) = a := by
    apply Nat.le_antisymm
    · have : n - 1 < 2 ^ (a + 1) := by rw [Nat.pow_succ]; omega
      have := (Nat.log2_lt hn).mpr this
      omega
    · exact (Nat.le_log2 hn).mpr (by omega)
  rw [e]

/-- right fold of `node` over a list (what `final_output` and the reference `finalize` compute) -/
def foldR (d : α) : List α → α
  | [] => d
  | [x] => x
  | x :: y :: r => node x (foldR d (y :: r))

/-- every block is a power of two in size and at least as large as everything after it -/
def Good : List (List α) → Prop
  | [] => True
  | [b] => 1 ≤ b.length
  | b :: c :: r => (∃ a, b.length = 2 ^ a ∧ (c :: r).flatten.length ≤ 2 ^ a) ∧ Good (c :: r)

theorem good_flatten_pos : (bs : List (List α)) → bs ≠ [] → Good bs → 1 ≤ bs.flatten.length
  | [b], _, h => by simpa [Good] using h
  | b :: c :: r, _, h => by
    have := good_flatten_pos (c :: r) (by simp) h.2
    simp only [List.flatten_cons, List.length_append] at this ⊢
    omega

/-- (F) -/
theorem foldR_blocks (d : α) : (bs : List (List α)) → bs ≠ [] → Good bs →
    foldR node d (bs.map (collapse node d)) = collapse node d bs.flatten
  | [b], _, _ => by simp [foldR]
  | b :: c :: r, _, h => by
    obtain ⟨⟨a, ha, hle⟩, hg⟩ := h
    have ih := foldR_blocks d (c :: r) (by simp) hg
    have hpos := good_flatten_pos (c :: r) (by simp) hg
    simp only [List.map_cons, foldR] at ih ⊢
    rw [ih]
    have := collapse_append node d a b (c :: r).flatten ha hpos hle
    simpa using this.symm

end Tr
