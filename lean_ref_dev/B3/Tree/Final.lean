import B3.Tree.Basic
import B3.Tree.Stack
namespace Hs
open Tr St
variable {α : Type} (node : α → α → α) (d : α)

/-- The two children of the root parent node, as `final_output` (Rust, C) and the reference
`finalize` compute them: the bottom stack entry, and the right fold of everything above it. -/
theorem root_children (b : List α) (r : List (List α)) (hr : r ≠ []) (hg : Good (b :: r)) :
    (collapse node d b, foldR node d (r.map (collapse node d))) =
      (collapse node d (((b :: r).flatten).take (lp2lt (b :: r).flatten.length)),
       collapse node d (((b :: r).flatten).drop (lp2lt (b :: r).flatten.length))) := by
  match r, hr with
  | c :: r', _ =>
    obtain ⟨⟨a, ha, hle⟩, hg'⟩ := hg
    have hpos := good_flatten_pos (c :: r') (by simp) hg'
    have hL : lp2lt (b :: c :: r').flatten.length = 2 ^ a := by
      apply lp2lt_unique
      · simp only [List.flatten_cons, List.length_append] at hpos ⊢; omega
      · simp only [List.flatten_cons, List.length_append] at hle ⊢; omega
    rw [hL, foldR_blocks node d (c :: r') (by simp) hg']
    have e : (b :: c :: r').flatten = b ++ (c :: r').flatten := by simp
    rw [e, List.take_left' ha, List.drop_left' ha]

theorem goodS_append_one' : (l : List Nat) → GoodS 1 l → GoodS 0 (l ++ [1])
  | [], _ => by simp [GoodS]
  | x :: r, h => by
    refine ⟨?_, goodS_append_one' r h.2⟩
    have := h.1
    simp; omega

/-- from sizes to blocks -/
theorem good_of_sizes : (bs : List (List α)) → bs ≠ [] →
    (∀ s ∈ bs.map List.length, ∃ a, s = 2 ^ a) → GoodS 0 (bs.map List.length) → Good bs
  | [b], _, hp, _ => by
    obtain ⟨a, ha⟩ := hp b.length (by simp)
    have := Nat.two_pow_pos a
    show 1 ≤ b.length
    omega
  | b :: c :: r, _, hp, hg => by
    obtain ⟨a, ha⟩ := hp b.length (by simp)
    refine ⟨⟨a, ha, ?_⟩, good_of_sizes (c :: r) (by simp) (fun s hs => hp s (by simp at hs ⊢; right; exact hs)) hg.2⟩
    have h1 := hg.1
    have : (c :: r).flatten.length = ((c :: r).map List.length).sum := by
      simp [List.length_flatten]
    rw [this]
    simp only [List.map_cons] at h1 ⊢
    omega

end Hs
