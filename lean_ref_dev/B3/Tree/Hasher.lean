import B3.Tree.Basic
import B3.Tree.Stack
import B3.Tree.Blocks
import B3.Tree.Arith
namespace Hs
open Tr St Ar

variable {α β : Type} (node : α → α → α) (d : α)
variable (c : Nat)                      -- chunk length C = 2^c
variable (leaf : Nat → List β → α)      -- non-root chaining value of one chunk at counter t
variable (pair : Nat → List β → α × α)  -- compress_subtree_to_parent_node

/-- chaining values of the complete chunks of `s`, counters starting at `t` -/
def fullLeaves (t : Nat) (s : List β) : List α :=
  if h : 2 ^ c ≤ s.length then leaf t (s.take (2 ^ c)) :: fullLeaves (t + 1) (s.drop (2 ^ c)) else []
termination_by s.length
decreasing_by
  have := Nat.two_pow_pos c
  simp [List.length_drop]; omega

theorem fullLeaves_short (t : Nat) (s : List β) (h : s.length < 2 ^ c) : fullLeaves c leaf t s = [] := by
  rw [fullLeaves]; simp; omega

theorem fullLeaves_cons (t : Nat) (s : List β) (h : 2 ^ c ≤ s.length) :
    fullLeaves c leaf t s = leaf t (s.take (2 ^ c)) :: fullLeaves c leaf (t + 1) (s.drop (2 ^ c)) := by
  rw [fullLeaves]; simp [h]

theorem fullLeaves_length (t : Nat) (s : List β) : (fullLeaves c leaf t s).length = s.length / 2 ^ c := by
  have hp := Nat.two_pow_pos c
  induction hn : s.length using Nat.strongRecOn generalizing t s with
  | _ n ih =>
    rw [fullLeaves]
    split
    · rename_i h
      simp only [List.length_cons]
      rw [ih (s.drop (2 ^ c)).length (by simp [List.length_drop]; omega) (t + 1) (s.drop (2 ^ c)) rfl]
      simp [List.length_drop]
      rw [← hn]
      have : s.length = (s.length - 2 ^ c) + 2 ^ c := by omega
      conv => rhs; rw [this]
      rw [Nat.add_div_right _ hp]
    · rename_i h
      simp
      rw [← hn]
      exact (Nat.div_eq_of_lt (by omega)).symm

/-- appending after `k` complete chunks -/
theorem fullLeaves_append (k : Nat) : ∀ (t : Nat) (a b : List β), a.length = k * 2 ^ c →
    fullLeaves c leaf t (a ++ b) = fullLeaves c leaf t a ++ fullLeaves c leaf (t + k) b := by
  have hp := Nat.two_pow_pos c
  induction k with
  | zero =>
    intro t a b ha
    have : a = [] := List.eq_nil_of_length_eq_zero (by simpa using ha)
    subst this
    simp [fullLeaves_short c leaf t [] (by simpa using hp)]
  | succ k ih =>
    intro t a b ha
    have hle : 2 ^ c ≤ a.length := by rw [ha, Nat.succ_mul]; omega
    rw [fullLeaves_cons c leaf t (a ++ b) (by simp; omega), fullLeaves_cons c leaf t a hle]
    rw [List.take_append_of_le_length hle, List.drop_append_of_le_length hle]
    rw [ih (t + 1) (a.drop (2 ^ c)) b (by simp [List.length_drop, ha, Nat.succ_mul])]
    simp
    have e : t + 1 + k = t + (k + 1) := by omega
    rw [e]

theorem popcount_pos (n : Nat) (h : 0 < n) : 0 < popcount n := by
  induction n using Nat.strongRecOn with
  | _ n ih =>
    rw [popcount]
    rw [dif_neg (by omega)]
    rcases Nat.mod_two_eq_zero_or_one n with h2 | h2
    · have := ih (n / 2) (by omega) (by omega); omega
    · omega

/-- one `push_cv` seen on blocks of leaves -/
theorem push_blocks (T k : Nat) (stack : List α) (bs : List (List α))
    (hst : stack = bs.map (collapse node d)) (hl : Lazy T (bs.map List.length))
    (hdiv : 2 ^ k ∣ T) (b : List α) (hb : b.length = 2 ^ k) :
    ∃ bs' : List (List α),
      mergeStack node d (popcount T) stack ++ [collapse node d b] = bs'.map (collapse node d)
      ∧ bs'.flatten = bs.flatten ++ b
      ∧ Lazy (T + 2 ^ k) (bs'.map List.length)
      ∧ bs'.length = popcount T + 1 := by
  obtain ⟨bs1, e1, e2, e3⟩ := mergeStack_blocks node d T _ hl bs rfl
  refine ⟨bs1 ++ [b], ?_, ?_, ?_, ?_⟩
  · rw [hst, e1]; simp
  · simp [e2]
  · obtain ⟨T', rfl⟩ := hdiv
    have := push_carry k T'
    simpa [e3, hb] using this
  · have : bs1.length = popcount T := by
      rw [← bd_length, ← e3, List.length_map]
    simp [this]

structure H (α β : Type) where
  stack : List α
  cc : Nat
  tail : List β
  t0 : Nat

def pushCv (h : H α β) (cv : α) (total : Nat) : H α β :=
  { h with stack := mergeStack node d (popcount (total - h.t0)) h.stack ++ [cv] }

structure Inv (h : H α β) (m : List β) (bs : List (List α)) : Prop where
  t0le : h.t0 ≤ h.cc
  len : m.length = (h.cc - h.t0) * 2 ^ c
  st : h.stack = bs.map (collapse node d)
  fl : bs.flatten = fullLeaves c leaf h.t0 m
  lz : Lazy (h.cc - h.t0) (bs.map List.length)

theorem fullLeaves_one (t : Nat) (s : List β) (hs : s.length = 2 ^ c) :
    fullLeaves c leaf t s = [leaf t s] := by
  have hp := Nat.two_pow_pos c
  rw [fullLeaves_cons c leaf t s (by omega)]
  rw [fullLeaves_short c leaf (t + 1) _ (by simp [List.length_drop]; omega)]
  rw [List.take_of_length_le (by omega)]

/-- pushing one complete chunk -/
theorem push_single (h : H α β) (m : List β) (bs : List (List α)) (s : List β)
    (hi : Inv node d c leaf h m bs) (hs : s.length = 2 ^ c) :
    ∃ bs', Inv node d c leaf { pushCv node d h (leaf h.cc s) h.cc with cc := h.cc + 1 } (m ++ s) bs'
      ∧ bs'.length = popcount (h.cc - h.t0) + 1 := by
  obtain ⟨bs', e1, e2, e3, e4⟩ := push_blocks node d (h.cc - h.t0) 0 h.stack bs hi.st hi.lz (by simp)
    [leaf h.cc s] (by simp)
  refine ⟨bs', ⟨?_, ?_, ?_, ?_, ?_⟩, e4⟩
  · simp [pushCv]; have := hi.t0le; omega
  · simp [pushCv, hi.len, hs]; have := hi.t0le
    have : h.cc + 1 - h.t0 = (h.cc - h.t0) + 1 := by omega
    rw [this, Nat.succ_mul]
  · simp only [pushCv]; rw [← e1]; simp [collapse_le_one]
  · simp only [pushCv]
    rw [e2, hi.fl, fullLeaves_append c leaf (h.cc - h.t0) h.t0 m s hi.len]
    have := hi.t0le
    have e : h.t0 + (h.cc - h.t0) = h.cc := by omega
    rw [e, fullLeaves_one c leaf h.cc s hs]
  · simp only [pushCv]
    have := hi.t0le
    have e : h.cc + 1 - h.t0 = (h.cc - h.t0) + 2 ^ 0 := by simp; omega
    rw [e]; exact e3

def PairSpec : Prop := ∀ (t k : Nat) (s : List β), s.length = 2 ^ (k + 1) * 2 ^ c →
  pair t s = (collapse node d (fullLeaves c leaf t (s.take (2 ^ k * 2 ^ c))),
              collapse node d (fullLeaves c leaf (t + 2 ^ k) (s.drop (2 ^ k * 2 ^ c))))

theorem pow_succ_mul (k c : Nat) : 2 ^ (k + 1) * 2 ^ c = 2 ^ k * 2 ^ c + 2 ^ k * 2 ^ c := by
  rw [Nat.pow_succ, Nat.mul_comm (2 ^ k) 2, Nat.mul_assoc, Nat.two_mul]

theorem pow_half (k : Nat) : 2 ^ (k + 1) / 2 = 2 ^ k := by rw [Nat.pow_succ]; omega

/-- pushing the two halves of a complete subtree of 2^(k+1) chunks -/
theorem push_pair (hp : PairSpec node d c leaf pair) (h : H α β) (m : List β) (bs : List (List α))
    (s : List β) (k : Nat) (hi : Inv node d c leaf h m bs) (hs : s.length = 2 ^ (k + 1) * 2 ^ c)
    (hdiv : 2 ^ (k + 1) ∣ h.cc - h.t0) :
    ∃ bs', Inv node d c leaf
        { pushCv node d (pushCv node d h (pair h.cc s).1 h.cc) (pair h.cc s).2 (h.cc + 2 ^ (k + 1) / 2)
          with cc := h.cc + 2 ^ (k + 1) } (m ++ s) bs'
      ∧ 2 ≤ bs'.length := by
  have hpc := Nat.two_pow_pos c
  have hpk := Nat.two_pow_pos k
  have ht := hi.t0le
  have hhalf : 2 ^ k * 2 ^ c ≤ s.length := by rw [hs, pow_succ_mul]; omega
  have hdk : 2 ^ k ∣ h.cc - h.t0 := Nat.dvd_trans (pow_dvd_pow' k (k + 1) (by omega)) hdiv
  rw [hp h.cc k s hs, pow_half]
  -- first half
  have l1 : (fullLeaves c leaf h.cc (s.take (2 ^ k * 2 ^ c))).length = 2 ^ k := by
    rw [fullLeaves_length, List.length_take, Nat.min_eq_left hhalf, Nat.mul_div_cancel _ hpc]
  obtain ⟨bs1, a1, a2, a3, a4⟩ := push_blocks node d (h.cc - h.t0) k h.stack bs hi.st hi.lz hdk _ l1
  -- second half
  have l2 : (fullLeaves c leaf (h.cc + 2 ^ k) (s.drop (2 ^ k * 2 ^ c))).length = 2 ^ k := by
    rw [fullLeaves_length, List.length_drop, hs]
    have : 2 ^ (k + 1) * 2 ^ c - 2 ^ k * 2 ^ c = 2 ^ k * 2 ^ c := by
      rw [pow_succ_mul]; omega
    rw [this, Nat.mul_div_cancel _ hpc]
  have hd2 : 2 ^ k ∣ h.cc - h.t0 + 2 ^ k := (Nat.dvd_add_right hdk).mpr (Nat.dvd_refl _)
  obtain ⟨bs2, b1, b2, b3, b4⟩ := push_blocks node d (h.cc - h.t0 + 2 ^ k) k _ bs1 a1 a3 hd2 _ l2
  have ecc : h.cc + 2 ^ k - h.t0 = h.cc - h.t0 + 2 ^ k := by omega
  refine ⟨bs2, ⟨?_, ?_, ?_, ?_, ?_⟩, ?_⟩
  · simp [pushCv]; omega
  · simp [pushCv, hi.len, hs]
    have : h.cc + 2 ^ (k + 1) - h.t0 = (h.cc - h.t0) + 2 ^ (k + 1) := by omega
    rw [this, Nat.add_mul]
  · simp only [pushCv]; rw [ecc]; exact b1
  · simp only [pushCv]
    rw [b2, a2, hi.fl, fullLeaves_append c leaf (h.cc - h.t0) h.t0 m s hi.len]
    have e : h.t0 + (h.cc - h.t0) = h.cc := by omega
    rw [e, List.append_assoc]
    congr 1
    have := fullLeaves_append c leaf (2 ^ k) h.cc (s.take (2 ^ k * 2 ^ c)) (s.drop (2 ^ k * 2 ^ c))
      (by rw [List.length_take, Nat.min_eq_left hhalf])
    rw [List.take_append_drop] at this
    exact this.symm
  · simp only [pushCv]
    have e : h.cc + 2 ^ (k + 1) - h.t0 = (h.cc - h.t0 + 2 ^ k) + 2 ^ k := by rw [Nat.pow_succ]; omega
    rw [e]; exact b3
  · have := popcount_pos (h.cc - h.t0 + 2 ^ k) (by omega)
    omega

/-- the `while input.len() > CHUNK_LEN` loop of `update_with_join` -/
def loop (h : H α β) (input : List β) : H α β × List β :=
  if hlt : 2 ^ c < input.length then
    let st := shrink (lp2le input.length) (h.cc * 2 ^ c)
    if hst : 0 < st ∧ st ≤ input.length then
      let sc := st / 2 ^ c
      let h' : H α β :=
        if st ≤ 2 ^ c then pushCv node d h (leaf h.cc (input.take st)) h.cc
        else pushCv node d (pushCv node d h (pair h.cc (input.take st)).1 h.cc)
               (pair h.cc (input.take st)).2 (h.cc + sc / 2)
      loop { h' with cc := h.cc + sc } (input.drop st)
    else (h, input)
  else (h, input)
termination_by input.length
decreasing_by simp [List.length_drop]; omega

/-- what the shrink loop delivers: a power-of-two number of chunks dividing the chunk count -/
theorem subtree_len_spec (cc n : Nat) (hn : 2 ^ c < n) :
    ∃ k, shrink (lp2le n) (cc * 2 ^ c) = 2 ^ k * 2 ^ c ∧ 2 ^ k * 2 ^ c ≤ n ∧ 2 ^ k ∣ cc := by
  have hpc := Nat.two_pow_pos c
  have hc : c ≤ Nat.log2 n := lp2le_ge_pow n c (by omega)
  obtain ⟨e, h1, h2, h3, h4⟩ := shrink_spec c (cc * 2 ^ c) ⟨cc, Nat.mul_comm _ _⟩ (Nat.log2 n) hc
  obtain ⟨k, rfl⟩ := Nat.exists_eq_add_of_le h1
  refine ⟨k, ?_, ?_, ?_⟩
  · unfold lp2le; rw [h3, Nat.pow_add, Nat.mul_comm]
  · have := lp2le_le n (by omega)
    have h5 : 2 ^ (c + k) ≤ 2 ^ Nat.log2 n := Nat.pow_le_pow_right (by omega) h2
    unfold lp2le at this
    rw [Nat.pow_add, Nat.mul_comm] at h5; omega
  · rw [Nat.pow_add, Nat.mul_comm (2 ^ c)] at h4
    exact Nat.dvd_of_mul_dvd_mul_right hpc h4

theorem loop_stop (h : H α β) (input : List β) (hn : ¬ 2 ^ c < input.length) :
    loop node d c leaf pair h input = (h, input) := by
  rw [loop]; simp [hn]

theorem loop_step (h : H α β) (input : List β) (hn : 2 ^ c < input.length)
    (hst : 0 < shrink (lp2le input.length) (h.cc * 2 ^ c) ∧ shrink (lp2le input.length) (h.cc * 2 ^ c) ≤ input.length) :
    loop node d c leaf pair h input =
      loop node d c leaf pair
        { (if shrink (lp2le input.length) (h.cc * 2 ^ c) ≤ 2 ^ c then
             pushCv node d h (leaf h.cc (input.take (shrink (lp2le input.length) (h.cc * 2 ^ c)))) h.cc
           else pushCv node d (pushCv node d h (pair h.cc (input.take (shrink (lp2le input.length) (h.cc * 2 ^ c)))).1 h.cc)
               (pair h.cc (input.take (shrink (lp2le input.length) (h.cc * 2 ^ c)))).2
               (h.cc + shrink (lp2le input.length) (h.cc * 2 ^ c) / 2 ^ c / 2)) with
          cc := h.cc + shrink (lp2le input.length) (h.cc * 2 ^ c) / 2 ^ c }
        (input.drop (shrink (lp2le input.length) (h.cc * 2 ^ c))) := by
  rw [loop]; simp only [hn, hst, dif_pos, and_self]

theorem step_inv (hp : PairSpec node d c leaf pair) (h : H α β) (input m : List β) (bs : List (List α))
    (hn : 2 ^ c < input.length) (hi : Inv node d c leaf h m bs)
    (hz : ∀ k, 2 ^ k * 2 ^ c ≤ input.length → 2 ^ k ∣ h.t0) :
    ∃ (k : Nat) (h1 : H α β) (bs1 : List (List α)),
      2 ^ k * 2 ^ c ≤ input.length ∧
      loop node d c leaf pair h input = loop node d c leaf pair h1 (input.drop (2 ^ k * 2 ^ c)) ∧
      Inv node d c leaf h1 (m ++ input.take (2 ^ k * 2 ^ c)) bs1 ∧ h1.tail = h.tail ∧ h1.t0 = h.t0 ∧
      (2 ^ k * 2 ^ c = input.length → 2 ≤ bs1.length) := by
  have hpc := Nat.two_pow_pos c
  obtain ⟨k, hk1, hk2, hk3⟩ := subtree_len_spec c h.cc input.length hn
  have hpk := Nat.two_pow_pos k
  have hst : 0 < shrink (lp2le input.length) (h.cc * 2 ^ c) ∧
      shrink (lp2le input.length) (h.cc * 2 ^ c) ≤ input.length := by
    rw [hk1]; exact ⟨Nat.mul_pos hpk hpc, hk2⟩
  have ht := hi.t0le
  have hdT : 2 ^ k ∣ h.cc - h.t0 := Nat.dvd_sub hk3 (hz k hk2)
  have hsc : 2 ^ k * 2 ^ c / 2 ^ c = 2 ^ k := Nat.mul_div_cancel _ hpc
  rw [loop_step node d c leaf pair h input hn hst, hk1, hsc]
  have htk : (input.take (2 ^ k * 2 ^ c)).length = 2 ^ k * 2 ^ c := by
    rw [List.length_take, Nat.min_eq_left hk2]
  cases k with
  | zero =>
    have hle : 2 ^ 0 * 2 ^ c ≤ 2 ^ c := by simp
    rw [if_pos hle]
    obtain ⟨bs1, i1, _⟩ := push_single node d c leaf h m bs (input.take (2 ^ 0 * 2 ^ c)) hi (by rw [htk]; simp)
    refine ⟨0, _, bs1, hk2, rfl, ?_, ?_, ?_, ?_⟩
    · simpa using i1
    · simp [pushCv]
    · simp [pushCv]
    · intro he; simp at he; omega
  | succ k =>
    have hgt : ¬ 2 ^ (k + 1) * 2 ^ c ≤ 2 ^ c := by
      have := Nat.two_pow_pos k
      rw [pow_succ_mul]
      have : 2 ^ c ≤ 2 ^ k * 2 ^ c := Nat.le_mul_of_pos_left _ this
      omega
    rw [if_neg hgt]
    obtain ⟨bs1, i1, i2⟩ := push_pair node d c leaf pair hp h m bs (input.take (2 ^ (k + 1) * 2 ^ c)) k hi htk hdT
    exact ⟨k + 1, _, bs1, hk2, rfl, i1, by simp [pushCv], by simp [pushCv], fun _ => i2⟩

theorem loop_inv (hp : PairSpec node d c leaf pair) :
    ∀ (n : Nat) (h : H α β) (input m : List β) (bs : List (List α)),
      input.length = n → Inv node d c leaf h m bs →
      (∀ k, 2 ^ k * 2 ^ c ≤ input.length → 2 ^ k ∣ h.t0) →
      ∃ (consumed : List β) (bs' : List (List α)),
        input = consumed ++ (loop node d c leaf pair h input).2 ∧
        (loop node d c leaf pair h input).2.length ≤ 2 ^ c ∧
        Inv node d c leaf (loop node d c leaf pair h input).1 (m ++ consumed) bs' ∧
        (loop node d c leaf pair h input).1.tail = h.tail ∧
        (loop node d c leaf pair h input).1.t0 = h.t0 ∧
        ((loop node d c leaf pair h input).2 = [] → consumed ≠ [] → 2 ≤ bs'.length) ∧
        (consumed = [] → (loop node d c leaf pair h input).1 = h ∧ bs' = bs) := by
  intro n
  induction n using Nat.strongRecOn with
  | _ n ih =>
    intro h input m bs hlen hi hz
    have hpc := Nat.two_pow_pos c
    by_cases hn : 2 ^ c < input.length
    · obtain ⟨k, h1, bs1, s1, s2, s3, s4, s5, s6⟩ := step_inv node d c leaf pair hp h input m bs hn hi hz
      have hpk := Nat.two_pow_pos k
      have hpos : 0 < 2 ^ k * 2 ^ c := Nat.mul_pos hpk hpc
      obtain ⟨cons, bs', r1, r2, r3, r4, r5, r6, r7⟩ :=
        ih (input.drop (2 ^ k * 2 ^ c)).length (by rw [List.length_drop]; omega) h1
          (input.drop (2 ^ k * 2 ^ c)) (m ++ input.take (2 ^ k * 2 ^ c)) bs1 rfl s3
          (by
            intro j hj; rw [s5]; apply hz
            rw [List.length_drop] at hj; omega)
      rw [s2]
      refine ⟨input.take (2 ^ k * 2 ^ c) ++ cons, bs', ?_, r2, ?_, ?_, ?_, ?_, ?_⟩
      · rw [List.append_assoc, ← r1, List.take_append_drop]
      · rw [← List.append_assoc]; exact r3
      · rw [r4, s4]
      · rw [r5, s5]
      · intro hnil _
        by_cases hc : cons = []
        · obtain ⟨e1, e2⟩ := r7 hc
          subst e2
          -- everything was consumed by this step
          have : (input.drop (2 ^ k * 2 ^ c)) = [] := by rw [r1, hc, hnil]; rfl
          have hl := congrArg List.length this
          rw [List.length_drop] at hl
          simp at hl
          exact s6 (by omega)
        · exact r6 hnil hc
      · intro hc
        have : (input.take (2 ^ k * 2 ^ c)).length = 0 := by
          have := congrArg List.length hc; simp at this; simp [this.1]
        rw [List.length_take, Nat.min_eq_left s1] at this
        omega
    · rw [loop_stop node d c leaf pair h input hn]
      refine ⟨[], bs, by simp, by simp; omega, by simpa using hi, rfl, rfl, ?_, ?_⟩
      · intro _ hne; exact absurd rfl hne
      · intro _; exact ⟨rfl, rfl⟩

end Hs
