import B3.Tree.Basic
import B3.Tree.Stack
namespace Hs
open Tr St
variable {α : Type} (node : α → α → α) (d : α)

/-- `merge_cv_stack`: while the stack is longer than `target`, replace the top two by their parent -/
def mergeStack (target : Nat) (s : List α) : List α :=
  if h : target < s.length ∧ 2 ≤ s.length then
    mergeStack target (s.dropLast.dropLast ++ [node (s.dropLast.getLastD d) (s.getLastD d)])
  else s
termination_by s.length
decreasing_by simp; omega

theorem map_eq_append_two {β γ : Type} (f : β → γ) (l : List β) (xs : List γ) (u v : γ)
    (h : l.map f = xs ++ [u, v]) : ∃ lx b1 b2, l = lx ++ [b1, b2] ∧ lx.map f = xs ∧ f b1 = u ∧ f b2 = v := by
  obtain ⟨l1, l2, rfl, h1, h2⟩ := List.map_eq_append_iff.mp h
  match l2, h2 with
  | [b1, b2], h2 =>
    simp at h2
    exact ⟨l1, b1, b2, rfl, h1, h2.1, h2.2⟩

theorem mergeStack_step (target : Nat) (s : List α) (x y : α) (h : target < (s ++ [x, y]).length) :
    mergeStack node d target (s ++ [x, y]) = mergeStack node d target (s ++ [node x y]) := by
  rw [mergeStack]
  have c : target < (s ++ [x, y]).length ∧ 2 ≤ (s ++ [x, y]).length := ⟨h, by simp⟩
  rw [dif_pos c]
  have e : s ++ [x, y] = (s ++ [x]) ++ [y] := by simp
  congr 1
  rw [e, List.dropLast_concat, List.dropLast_concat]
  simp

theorem mergeStack_blocks (T : Nat) (sizes : List Nat) (hl : Lazy T sizes) :
    ∀ bs : List (List α), bs.map List.length = sizes →
    ∃ bs' : List (List α), mergeStack node d (popcount T) (bs.map (collapse node d)) = bs'.map (collapse node d)
       ∧ bs'.flatten = bs.flatten ∧ bs'.map List.length = bd T := by
  induction hl with
  | canon =>
    intro bs hs
    refine ⟨bs, ?_, rfl, hs⟩
    rw [mergeStack]
    have : (bs.map (collapse node d)).length = popcount T := by
      rw [List.length_map, ← bd_length, ← hs, List.length_map]
    simp [this]
  | merge xs s hl ih =>
    intro bs hs
    obtain ⟨bx, b1, b2, rfl, hx, h1, h2⟩ := map_eq_append_two _ bs xs s s hs
    have hp := lazy_pow2 (Lazy.merge xs s hl) s (by simp)
    obtain ⟨a, ha⟩ := hp
    have hge := lazy_len_ge hl
    simp only [List.map_append, List.map_cons, List.map_nil]
    rw [mergeStack_step]
    · have hA := collapse_append node d a b1 b2 (by omega) (by have := Nat.two_pow_pos a; omega) (by omega)
      rw [← hA]
      obtain ⟨bs', e1, e2, e3⟩ := ih (bx ++ [b1 ++ b2]) (by simp [hx, h1, h2]; omega)
      refine ⟨bs', ?_, ?_, e3⟩
      · simpa using e1
      · simpa using e2
    · have hlen : bx.length = xs.length := by rw [← hx, List.length_map]
      simp at hge ⊢; omega

end Hs
