/-
Executable model of the C library's hasher (c/blake3.c).  The tree layer of blake3.c has the same
control flow as src/lib.rs with no input offset (it was ported from it), so the model reuses the
Rust model's functions where the code is the same and spells out what differs:
`blake3_hasher_update`'s early return on zero length, `hasher_merge_cv_stack` keyed by the popcount
of the absolute chunk counter, `blake3_hasher_finalize_seek` and `output_root_bytes` with its three
segments, the two derive-key initialisers (context hashed through update + finalize), `reset`.
-/
import B3.Model.Rs
namespace B3.C
open B3 B3.Rs

variable (K : Kern)

abbrev Hasher := Rs.Hasher

/-- `hasher_init_base` -/
def initBase (key : CV) (flags : UInt8) : Hasher := Rs.Hasher.newInternal key flags

/-- `blake3_hasher_update` (the C hasher has no input offset, so the Rust model's assertion on
`max_subtree_len` is vacuous and `updateOk` is the whole function) -/
def update (sd : Nat) (h : Hasher) (input : List UInt8) : Hasher :=
  if input.length = 0 then h else h.updateOk K sd input

/-- `output_root_bytes`: a partial first block, whole blocks through `blake3_xof_many`, a partial
last block -/
def outputRootBytes (o : Spec.Node) (seek outLen : Nat) : List UInt8 :=
  if outLen = 0 then [] else
  let ctr := seek / 64
  let off := seek % 64
  let (out1, ctr, outLen) :=
    if off ≠ 0 then
      let wide := bytesOfWords (rootBlock K o ctr)
      let avail := 64 - off
      let n := if outLen > avail then avail else outLen
      ((wide.drop off).take n, ctr + 1, outLen - n)
    else ([], ctr, outLen)
  let out2 := if outLen / 64 ≠ 0 then xofMany K o ctr (outLen / 64) else []
  let ctr := ctr + outLen / 64
  let rest := outLen - (outLen / 64) * 64      -- `out_len -= out_len & -64`
  let out3 := if rest ≠ 0 then (bytesOfWords (rootBlock K o ctr)).take rest else []
  out1 ++ out2 ++ out3

/-- `blake3_hasher_finalize_seek` -/
def finalizeSeek (h : Hasher) (seek outLen : Nat) : List UInt8 :=
  if outLen = 0 then [] else outputRootBytes K (h.finalOutput K) seek outLen

/-- `blake3_hasher_finalize` -/
def finalize (h : Hasher) (outLen : Nat) : List UInt8 := finalizeSeek K h 0 outLen

/-- `blake3_hasher_reset` -/
def reset (h : Hasher) : Hasher :=
  { h with cs := Rs.ChunkState.new h.key 0 h.cs.flags, stack := [] }

/-- `blake3_hasher_init_derive_key_raw` -/
def initDeriveKeyRaw (sd : Nat) (ctx : List UInt8) : Hasher :=
  let ch := update K sd (initBase Spec.IV Spec.DERIVE_KEY_CONTEXT) ctx
  let ck := finalize K ch 32
  initBase (wordsOfBytes 8 ck) Spec.DERIVE_KEY_MATERIAL

end B3.C
