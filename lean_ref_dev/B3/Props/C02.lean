/-
C02 - property theorems.  The multi-chunk loop of `update_with_join` preserves the representation
invariant (stack = collapsed blocks of leaf chaining values with lazily merged sizes); see
B3/Tree/Hasher.lean for the invariant `Hs.Inv`.
-/
import B3.Tree.Hasher
import B3.Tree.Final
namespace B3.Props.C02
open Hs Tr St

variable {α β : Type} (node : α → α → α) (d : α) (c : Nat) (leaf : Nat → List β → α) (pair : Nat → List β → α × α)

/-- the loop `while input.len() > CHUNK_LEN` of `update_with_join`, for every input, every chunk
counter and every SIMD degree: it consumes a prefix of the input made of whole subtrees, leaves at
most one chunk, and the CV stack afterwards represents exactly the chunks consumed so far with
lazily merged sizes (`Hs.Inv`) -/
theorem update_loop_invariant (hp : PairSpec node d c leaf pair)
    (h : H α β) (input m : List β) (bs : List (List α))
    (hi : Inv node d c leaf h m bs) (hz : ∀ k, 2 ^ k * 2 ^ c ≤ input.length → 2 ^ k ∣ h.t0) :
    ∃ (consumed : List β) (bs' : List (List α)),
      input = consumed ++ (loop node d c leaf pair h input).2 ∧
      (loop node d c leaf pair h input).2.length ≤ 2 ^ c ∧
      Inv node d c leaf (loop node d c leaf pair h input).1 (m ++ consumed) bs' ∧
      (loop node d c leaf pair h input).1.t0 = h.t0 := by
  obtain ⟨cons, bs', a, b, c', _, e, _, _⟩ := loop_inv node d c leaf pair hp input.length h input m bs rfl hi hz
  exact ⟨cons, bs', a, b, c', e⟩

/-- `merge_cv_stack` on a lazily merged stack yields the canonical stack (sizes = binary
decomposition of the chunk count) over the same leaves -/
theorem merge_cv_stack_canonical (T : Nat) (bs : List (List α)) (hl : Lazy T (bs.map List.length)) :
    ∃ bs' : List (List α),
      mergeStack node d (popcount T) (bs.map (collapse node d)) = bs'.map (collapse node d)
      ∧ bs'.flatten = bs.flatten ∧ bs'.map List.length = bd T :=
  mergeStack_blocks node d T _ hl bs rfl

end B3.Props.C02
