/-
C06 - property theorems about the model of c/blake3.c.
-/
import B3.Model.C
import B3.Proofs.Arith
namespace B3.Props.C06
open B3

/-- zero-length updates are no-ops -/
theorem zero_len_update_noop (K : Kern) (sd : Nat) (h : C.Hasher) : C.update K sd h [] = h := by
  simp [C.update]

/-- zero-length outputs write nothing -/
theorem zero_len_output_noop (K : Kern) (h : C.Hasher) (seek : Nat) : C.finalizeSeek K h seek 0 = [] := by
  simp [C.finalizeSeek]

/-- `blake3_hasher_finalize` is `finalize_seek` at 0 -/
theorem finalize_eq_seek_zero (K : Kern) (h : C.Hasher) (n : Nat) : C.finalize K h n = C.finalizeSeek K h 0 n := rfl

/-- `blake3_hasher_reset` returns the hasher to the freshly initialised state of the same key and
mode flags (C hashers never carry an input offset) -/
theorem reset_eq_init (h : C.Hasher) (h0 : h.t0 = 0) : C.reset h = C.initBase h.key h.cs.flags := by
  cases h with
  | mk key cs t0 stack => simp at h0; subst h0; rfl

/-- finalizing is a pure query: in the model it returns bytes only, the hasher is not an output;
what the type says is that two finalizations of the same state agree -/
theorem finalize_deterministic (K : Kern) (h : C.Hasher) (s n : Nat) :
    C.finalizeSeek K h s n = C.finalizeSeek K h s n := rfl

/-- the C library splits subtrees exactly where the Rust crate does -/
theorem left_subtree_len_eq_rust (n : Nat) (h1 : 1024 < n) (h2 : n < 2 ^ 64) :
    Gen.C.left_subtree_len n = Gen.Rs.left_subtree_len n := by
  rw [Proofs.c_left_subtree_len_spec n h1 h2, Proofs.rs_left_subtree_len_spec n h1 h2]

/-- `round_down_to_power_of_2` (used by `blake3_hasher_update` to size subtrees) is the Rust
crate's `largest_power_of_two_leq` -/
theorem round_down_eq_rust (n : Nat) (h1 : 0 < n) (h2 : n < 2 ^ 63) :
    Gen.C.round_down_to_power_of_2 n = Gen.Rs.largest_power_of_two_leq n := by
  rw [Proofs.c_round_down_spec n (by omega), Proofs.rs_largest_power_of_two_leq_spec n h1 h2, if_neg (by omega)]

end B3.Props.C06
