/-
C09 - property theorems: the two hazmat length helpers (on the functions generated from
src/hazmat.rs, exact machine arithmetic) and subtree composition.
-/
import B3.Proofs.Arith
namespace B3.Props.C09
open B3 B3.Arith

/-- `left_subtree_len(n)` is the largest power of two below `n` for every `n` in `(1024, 2^64-1]`,
and computing it involves no arithmetic overflow -/
theorem left_subtree_len_spec (n : Nat) (h1 : 1024 < n) (h2 : n ≤ 2 ^ 64 - 1) :
    Gen.Rs.left_subtree_len n = .ok (2 ^ Nat.log2 (n - 1)) ∧
    2 ^ Nat.log2 (n - 1) < n ∧ n ≤ 2 * 2 ^ Nat.log2 (n - 1) := by
  refine ⟨Proofs.rs_left_subtree_len_spec n h1 (by omega), ?_⟩
  obtain ⟨b1, b2⟩ := Proofs.log2_bounds (n - 1) (by omega)
  rw [Proofs.pow_succ_two] at b2
  omega

example : (1024 : Nat) < 2 ^ 64 - 1 ∧ (2 ^ 64 - 1 : Nat) ≤ 2 ^ 64 - 1 := by decide

/-- `max_subtree_len(o)` is `1024 * 2^tz(o/1024)` for every chunk-aligned `o > 0` below 2^64,
`None` for 0, and the documented panic for unaligned offsets -/
theorem max_subtree_len_spec (o : Nat) (h : o < 2 ^ 64) :
    Gen.Rs.max_subtree_len o =
      if o = 0 then .ok none else if o % 1024 = 0 then .ok (some (2 ^ tz (o / 1024) * 1024)) else .panic :=
  Proofs.rs_max_subtree_len_spec o h

/-- the C library's `left_subtree_len` agrees with the Rust one on the whole domain -/
theorem c_left_subtree_len_eq_rust (n : Nat) (h1 : 1024 < n) (h2 : n < 2 ^ 64) :
    Gen.C.left_subtree_len n = Gen.Rs.left_subtree_len n := by
  rw [Proofs.c_left_subtree_len_spec n h1 h2, Proofs.rs_left_subtree_len_spec n h1 h2]

/-- `largest_power_of_two_leq` (used by `update` to size subtrees) -/
theorem largest_power_of_two_leq_spec (n : Nat) (h1 : 0 < n) (h2 : n < 2 ^ 63) :
    Gen.Rs.largest_power_of_two_leq n = .ok (2 ^ Nat.log2 n) :=
  Proofs.rs_largest_power_of_two_leq_spec n h1 h2

end B3.Props.C09
