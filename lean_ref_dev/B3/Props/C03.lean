/-
C03 - property theorems about the output reader model: positions and seeking.
-/
import B3.Model.Rs
namespace B3.Props.C03
open B3 B3.Rs

theorem set_position_position (r : OutputReader) (p : Nat) : (r.setPosition p).position = p := by
  simp [OutputReader.setPosition, OutputReader.position]; omega

/-- `seek` on exact integers: `Start x` goes to `min x (2^64-1)`; `Current d` fails (reader
unchanged, by the `Option` result) when `p + d < 0` and otherwise goes to `min (p+d) (2^64-1)`;
`End _` always fails. -/
theorem seek_spec (r : OutputReader) (sf : SeekFrom) :
    r.seek sf =
      match sf with
      | .start x => some (r.setPosition (min x (2 ^ 64 - 1)), min x (2 ^ 64 - 1))
      | .current d =>
        if (r.position : Int) + d < 0 then none
        else some (r.setPosition (min ((r.position : Int) + d) (2 ^ 64 - 1)).toNat,
                   (min ((r.position : Int) + d) (2 ^ 64 - 1)).toNat)
      | .end _ => none := by
  cases sf with
  | start x =>
    have e : (min (x : Int) (2 ^ 64 - 1)).toNat = min x (2 ^ 64 - 1) := by omega
    simp only [OutputReader.seek, e, set_position_position]
    rw [if_neg (by omega)]
  | current d =>
    simp only [OutputReader.seek, set_position_position]
  | «end» x => rfl

/-- a failed seek leaves the reader unchanged: it returns no new reader at all -/
theorem seek_err_iff (r : OutputReader) (sf : SeekFrom) :
    r.seek sf = none ↔ (∃ x, sf = .end x) ∨ (∃ d, sf = .current d ∧ (r.position : Int) + d < 0) := by
  rw [seek_spec]
  cases sf with
  | start x => simp
  | current d => by_cases h : (r.position : Int) + d < 0 <;> simp [h]
  | «end» x => simp

example : (OutputReader.new (Spec.parentNode Spec.IV 0 Spec.IV Spec.IV)).seek (.current (-1)) = none := by
  rw [seek_err_iff]; right
  exact ⟨-1, rfl, by simp [OutputReader.new, OutputReader.position, Spec.parentNode]⟩

end B3.Props.C03
