/-
C01 - property theorems (statements only live here; helper lemmas are in B3/Proofs and B3/Tree).
-/
import B3.Proofs.Compress
namespace B3.Props.C01
open B3

/-- the compression function generated from src/portable.rs is the specification's -/
theorem rs_portable_compress_eq_spec (cv : CV) (block : St) (bl : UInt8) (t : UInt64) (fl : UInt8) :
    Gen.Rs.compress_xof cv block bl t fl = Spec.compress cv block t bl.toUInt32 fl.toUInt32 ∧
    Gen.Rs.compress_in_place cv block bl t fl = first8 (Spec.compress cv block t bl.toUInt32 fl.toUInt32) :=
  ⟨Proofs.rs_compress_xof_eq cv block bl t fl, Proofs.rs_compress_in_place_eq cv block bl t fl⟩

end B3.Props.C01
