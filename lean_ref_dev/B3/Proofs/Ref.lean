/-
Helper lemmas for C15 (first half): the model of reference_impl.rs (`B3.Ref`) against the
specification.  Property theorems are in `B3/Props/C15.lean`.
-/
import B3.Model.Ref
import B3.Tree.Basic
import B3.Tree.Stack
import B3.Tree.Final
import B3.Tree.Hasher
namespace B3.Proofs.Ref
open B3 B3.Ref

/-! ### constants and flags -/

theorem iv_eq : Ref.IV = Spec.IV := rfl

theorem flag_consts :
    CHUNK_START = Spec.CHUNK_START.toUInt32 ∧ CHUNK_END = Spec.CHUNK_END.toUInt32 ∧
    PARENT = Spec.PARENT.toUInt32 ∧ ROOT = Spec.ROOT.toUInt32 ∧ KEYED_HASH = Spec.KEYED_HASH.toUInt32 ∧
    DERIVE_KEY_CONTEXT = Spec.DERIVE_KEY_CONTEXT.toUInt32 ∧ DERIVE_KEY_MATERIAL = Spec.DERIVE_KEY_MATERIAL.toUInt32 := by
  decide

/-- the reference's `Output` that corresponds to a specification node -/
def ofNode (n : Spec.Node) : Output :=
  { inputChainingValue := n.cv, blockWords := n.block, counter := n.t, blockLen := n.blen, flags := n.flags.toUInt32 }

theorem chainingValue_ofNode (n : Spec.Node) : (ofNode n).chainingValue Spec.compress = n.chain := rfl

theorem parentOutput_eq (key : CV) (fl : UInt8) (l r : CV) :
    parentOutput l r key fl.toUInt32 = ofNode (Spec.parentNode key fl l r) := by
  simp only [parentOutput, ofNode, Spec.parentNode, UInt8.toUInt32_or, Output.mk.injEq, true_and]
  refine ⟨rfl, ?_⟩
  rw [flag_consts.2.2.1, UInt32.or_comm]

theorem parentCv_eq (key : CV) (fl : UInt8) (l r : CV) :
    parentCv Spec.compress l r key fl.toUInt32 = Spec.parentCV key fl l r := by
  rw [parentCv, parentOutput_eq, chainingValue_ofNode]; rfl

/-! ### ChunkState -/

section chunk
variable (cmp : Cmp)

/-- the representation invariant of `ChunkState`: `block_len ≤ BLOCK_LEN` -/
def CsWF (cs : ChunkState) : Prop := cs.block.length ≤ 64

theorem cs_update_nil (cs : ChunkState) : cs.update cmp [] = cs := by
  rw [ChunkState.update]; simp

theorem cs_update_step (cs : ChunkState) (x : List UInt8) (hx : x ≠ []) :
    cs.update cmp x =
      if min (64 - (cs.compressFullBlock cmp).block.length) x.length = 0 then cs.compressFullBlock cmp else
        ChunkState.update cmp
          { cs.compressFullBlock cmp with block := (cs.compressFullBlock cmp).block ++
              x.take (min (64 - (cs.compressFullBlock cmp).block.length) x.length) }
          (x.drop (min (64 - (cs.compressFullBlock cmp).block.length) x.length)) := by
  rw [ChunkState.update]
  simp only [hx, ↓reduceDIte, ChunkState.blockLen, BLOCK_LEN]
  split <;> rfl

theorem compressFullBlock_of_lt (cs : ChunkState) (h : cs.block.length < 64) : cs.compressFullBlock cmp = cs := by
  simp [ChunkState.compressFullBlock, ChunkState.blockLen, BLOCK_LEN]; omega

theorem compressFullBlock_block (cs : ChunkState) (h : CsWF cs) : (cs.compressFullBlock cmp).block.length < 64 := by
  unfold ChunkState.compressFullBlock
  unfold CsWF at h
  split
  · simp
  · simp only [ChunkState.blockLen, BLOCK_LEN] at *; omega

theorem compressFullBlock_idem (cs : ChunkState) (h : CsWF cs) :
    (cs.compressFullBlock cmp).compressFullBlock cmp = cs.compressFullBlock cmp :=
  compressFullBlock_of_lt cmp _ (compressFullBlock_block cmp cs h)

/-- the first action of `update` on non-empty input can be done beforehand -/
theorem cs_update_flush (cs : ChunkState) (x : List UInt8) (hx : x ≠ []) (h : CsWF cs) :
    cs.update cmp x = (cs.compressFullBlock cmp).update cmp x := by
  rw [cs_update_step cmp cs x hx, cs_update_step cmp (cs.compressFullBlock cmp) x hx, compressFullBlock_idem cmp cs h]

/-- a prefix that fits into the block buffer is simply appended to it -/
theorem cs_absorb_prefix (cs : ChunkState) (x y : List UInt8) (h1 : cs.block.length < 64)
    (h2 : cs.block.length + x.length ≤ 64) :
    cs.update cmp (x ++ y) = ChunkState.update cmp { cs with block := cs.block ++ x } y := by
  by_cases hx : x = []
  · subst hx; simp
  have hxl := List.length_pos_iff.mpr hx
  by_cases hy : y = []
  · subst hy
    rw [List.append_nil, cs_update_nil, cs_update_step cmp cs x hx, compressFullBlock_of_lt cmp cs h1]
    have e : min (64 - cs.block.length) x.length = x.length := by omega
    rw [e, if_neg (by omega), List.take_length, List.drop_length, cs_update_nil]
  have hyl := List.length_pos_iff.mpr hy
  rw [cs_update_step cmp cs (x ++ y) (by simp [hx]), compressFullBlock_of_lt cmp cs h1]
  by_cases hfull : cs.block.length + x.length = 64
  · have e : min (64 - cs.block.length) (x ++ y).length = x.length := by simp; omega
    rw [e, if_neg (by omega), List.take_left' rfl, List.drop_left' rfl]
  · rw [cs_update_step cmp { cs with block := cs.block ++ x } y hy,
      compressFullBlock_of_lt cmp { cs with block := cs.block ++ x } (by simp; omega)]
    have e : min (64 - cs.block.length) (x ++ y).length = x.length + min (64 - (cs.block ++ x).length) y.length := by
      simp; omega
    rw [e, if_neg (by omega), if_neg (by simp; omega)]
    simp only [List.take_append, List.drop_append, List.append_assoc]
    have t1 : List.take (x.length + min (64 - (cs.block ++ x).length) y.length) x = x :=
      List.take_of_length_le (by omega)
    have t2 : List.drop (x.length + min (64 - (cs.block ++ x).length) y.length) x = [] :=
      List.drop_of_length_le (by omega)
    rw [t1, t2]
    simp

theorem cs_absorb_small (cs : ChunkState) (x : List UInt8) (h1 : cs.block.length < 64)
    (h2 : cs.block.length + x.length ≤ 64) :
    cs.update cmp x = { cs with block := cs.block ++ x } := by
  have := cs_absorb_prefix cmp cs x [] h1 h2
  rwa [List.append_nil, cs_update_nil] at this

end chunk
end B3.Proofs.Ref
