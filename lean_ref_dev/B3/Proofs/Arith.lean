/-
Specifications of the generated arithmetic helpers (Gen/Arith.lean): power-of-two roundings and
subtree lengths, on exact machine arithmetic (overflow = panic).
-/
import B3.Arith
import B3.Gen.Arith
namespace B3.Proofs
open B3 B3.Arith

theorem log2_unique (n k : Nat) (h1 : 2 ^ k ≤ n) (h2 : n < 2 ^ (k + 1)) : Nat.log2 n = k := by
  have hn : n ≠ 0 := by have := Nat.two_pow_pos k; omega
  have a : k ≤ Nat.log2 n := (Nat.le_log2 hn).mpr h1
  have b : Nat.log2 n < k + 1 := (Nat.log2_lt hn).mpr h2
  omega

theorem log2_bounds (n : Nat) (hn : n ≠ 0) : 2 ^ Nat.log2 n ≤ n ∧ n < 2 ^ (Nat.log2 n + 1) :=
  ⟨Nat.log2_self_le hn, Nat.lt_log2_self⟩

theorem pow_succ_two (k : Nat) : 2 ^ (k + 1) = 2 * 2 ^ k := by rw [Nat.pow_succ]; omega

/-- the smallest power of two that is at least `m`, for `2^k < m ≤ 2^(k+1)` -/
theorem nextPow2_of_bounds (m k : Nat) (h1 : 2 ^ k < m) (h2 : m ≤ 2 ^ (k + 1)) : nextPow2 m = 2 ^ (k + 1) := by
  have hp := Nat.two_pow_pos k
  unfold nextPow2
  rw [if_neg (by omega)]
  rw [log2_unique (m - 1) k (by omega) (by omega)]

theorem nextPow2_one : nextPow2 1 = 1 := by simp [nextPow2]

/-- `ceil(n/2)` rounded up to a power of two is the largest power of two strictly below `n` -/
theorem nextPow2_half (n : Nat) (hn : 2 ≤ n) : nextPow2 ((n - 1) / 2 + 1) = 2 ^ Nat.log2 (n - 1) := by
  obtain ⟨b1, b2⟩ := log2_bounds (n - 1) (by omega)
  generalize hk : Nat.log2 (n - 1) = k at b1 b2
  cases k with
  | zero =>
    simp at b1 b2
    have : n = 2 := by omega
    subst this; simp [nextPow2]
  | succ k =>
    rw [pow_succ_two] at b1
    rw [pow_succ_two, pow_succ_two] at b2
    have hp := Nat.two_pow_pos k
    apply nextPow2_of_bounds
    · omega
    · rw [pow_succ_two]; omega

/-- `left_subtree_len(n)` (src/hazmat.rs) is the largest power of two strictly below `n`, for every
`n` in `(1024, 2^64 - 1]`, without arithmetic overflow -/
theorem rs_left_subtree_len_spec (n : Nat) (h1 : 1024 < n) (h2 : n < 2 ^ 64) :
    Gen.Rs.left_subtree_len n = .ok (2 ^ Nat.log2 (n - 1)) := by
  have hl : Nat.log2 (n - 1) < 64 := (Nat.log2_lt (by omega)).mpr (by omega)
  have hpow : 2 ^ Nat.log2 (n - 1) < 2 ^ 64 := Nat.pow_lt_pow_right (by omega) hl
  have key := nextPow2_half n (by omega)
  simp only [Gen.Rs.left_subtree_len, assertTrue, csub, cdiv, cadd, npow2, W, bind, pure]
  simp [h1, show 1 ≤ n by omega, show (n - 1) / 2 + 1 < 2 ^ 64 by omega, key, hpow]

/-- `largest_power_of_two_leq(n)` (src/lib.rs) for `0 < n < 2^63` -/
theorem rs_largest_power_of_two_leq_spec (n : Nat) (h1 : 0 < n) (h2 : n < 2 ^ 63) :
    Gen.Rs.largest_power_of_two_leq n = .ok (2 ^ Nat.log2 n) := by
  have hl : Nat.log2 n < 63 := (Nat.log2_lt (by omega)).mpr h2
  have hpow : 2 ^ Nat.log2 n < 2 ^ 64 :=
    Nat.lt_of_lt_of_le (Nat.pow_lt_pow_right (by omega) hl) (Nat.pow_le_pow_right (by omega) (by omega))
  have key : nextPow2 (n / 2 + 1) = 2 ^ Nat.log2 n := by
    have := nextPow2_half (n + 1) (by omega)
    simpa using this
  simp only [Gen.Rs.largest_power_of_two_leq, cdiv, cadd, npow2, W, bind, pure]
  simp [show n / 2 + 1 < 2 ^ 64 by omega, key, hpow]

theorem tz_lt (n : Nat) (h : n ≠ 0) : 2 ^ tz n ∣ n := by
  induction n using Nat.strongRecOn with
  | _ n ih =>
    rw [tz]
    rw [dif_neg h]
    split
    · simp
    · rename_i h2
      have hd : n = 2 * (n / 2) := by omega
      have := ih (n / 2) (by omega) (by omega)
      rw [Nat.pow_add, Nat.pow_one, hd]
      exact Nat.mul_dvd_mul_left 2 (by rw [← hd]; exact this)

theorem tz_le (n : Nat) (h : n ≠ 0) : 2 ^ tz n ≤ n := Nat.le_of_dvd (by omega) (tz_lt n h)

/-- `max_subtree_len(o)` (src/hazmat.rs) is `1024 * 2^tz(o/1024)` for every chunk-aligned `o > 0`,
without arithmetic overflow; it is `None` for 0 and panics (documented) for unaligned offsets -/
theorem rs_max_subtree_len_spec (o : Nat) (h2 : o < 2 ^ 64) :
    Gen.Rs.max_subtree_len o =
      if o = 0 then .ok none else if o % 1024 = 0 then .ok (some (2 ^ tz (o / 1024) * 1024)) else .panic := by
  by_cases h0 : o = 0
  · simp [Gen.Rs.max_subtree_len, h0, pure]
  · by_cases ha : o % 1024 = 0
    · have hc : o / 1024 ≠ 0 := by omega
      have hle := tz_le (o / 1024) hc
      have hlt : tz (o / 1024) < 64 := by
        have h54 : o / 1024 < 2 ^ 54 := by omega
        have : 2 ^ tz (o / 1024) < 2 ^ 54 := by omega
        have := (Nat.pow_lt_pow_iff_right (a := 2) (by omega)).mp this
        omega
      have hm : 2 ^ tz (o / 1024) * 1024 < 2 ^ 64 := by omega
      have hmod : 2 ^ tz (o / 1024) % 2 ^ 64 = 2 ^ tz (o / 1024) := Nat.mod_eq_of_lt (by omega)
      simp only [Gen.Rs.max_subtree_len, cmod, cdiv, cshl, cmul, assertEq, W, bind, pure, if_neg h0]
      simp [ha, hlt, hmod, hm]
    · simp only [Gen.Rs.max_subtree_len, cmod, cdiv, cshl, cmul, assertEq, W, bind, pure, if_neg h0]
      simp [ha]

/-- C `round_down_to_power_of_2` -/
theorem c_round_down_spec (x : Nat) (h : x < 2 ^ 64) :
    Gen.C.round_down_to_power_of_2 x = .ok (if x = 0 then 1 else 2 ^ Nat.log2 x) := by
  have hor : Nat.log2 (x ||| 1) = if x = 0 then 0 else Nat.log2 x := by
    by_cases h0 : x = 0
    · simp [h0]; decide
    · rw [if_neg h0]
      obtain ⟨b1, b2⟩ := log2_bounds x h0
      apply log2_unique
      · exact Nat.le_trans b1 (Nat.left_le_or)
      · exact Nat.or_lt_two_pow b2 (by
          have : 0 < Nat.log2 x + 1 := by omega
          exact Nat.one_lt_two_pow (by omega))
  have hl : Nat.log2 x < 64 := by
    by_cases h0 : x = 0
    · subst h0; decide
    · exact (Nat.log2_lt h0).mpr h
  simp only [Gen.C.round_down_to_power_of_2, highestOne, cshl, W, bind, pure, hor]
  by_cases h0 : x = 0
  · simp [h0]
  · have hp : 2 ^ Nat.log2 x < 2 ^ 64 := Nat.pow_lt_pow_right (by omega) hl
    simp [h0, hl, Nat.mod_eq_of_lt hp]

theorem wsub_eq (a b : Nat) (h : b ≤ a) : wsub a b = .ok (a - b) := by
  unfold wsub; rw [if_pos h]

theorem wmul_eq (a b : Nat) (h : a * b < W) : wmul a b = .ok (a * b) := by
  unfold wmul; rw [if_pos h]

/-- C `left_subtree_len` equals the Rust one on `(1024, 2^64)` -/
theorem c_left_subtree_len_spec (n : Nat) (h1 : 1024 < n) (h2 : n < 2 ^ 64) :
    Gen.C.left_subtree_len n = .ok (2 ^ Nat.log2 (n - 1)) := by
  have hq : (n - 1) / 1024 ≠ 0 := by omega
  have hq2 : (n - 1) / 1024 < 2 ^ 64 := Nat.lt_of_le_of_lt (Nat.div_le_self _ _) (by omega)
  obtain ⟨b1, b2⟩ := log2_bounds ((n - 1) / 1024) hq
  have hlog : Nat.log2 (n - 1) = Nat.log2 ((n - 1) / 1024) + 10 := by
    apply log2_unique
    · rw [Nat.pow_add]; omega
    · rw [show Nat.log2 ((n - 1) / 1024) + 10 + 1 = (Nat.log2 ((n - 1) / 1024) + 1) + 10 by omega, Nat.pow_add]
      omega
  have hl : Nat.log2 (n - 1) < 64 := (Nat.log2_lt (by omega)).mpr (by omega)
  have hpow : 2 ^ Nat.log2 (n - 1) < 2 ^ 64 := Nat.pow_lt_pow_right (by omega) hl
  have hW : W = 2 ^ 64 := rfl
  simp only [Gen.C.left_subtree_len, cdiv, bind, pure]
  rw [wsub_eq n 1 (by omega)]
  simp only [show (1024 : Nat) ≠ 0 by omega, if_false]
  rw [c_round_down_spec _ hq2, if_neg hq]
  simp only []
  rw [wmul_eq _ _ (by rw [hW, hlog, Nat.pow_add] at *; simpa using hpow)]
  rw [hlog, Nat.pow_add]

end B3.Proofs
