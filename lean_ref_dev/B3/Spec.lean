/-
The BLAKE3 specification, transcribed from the paper (sections 2.1-2.6), deliberately not shaped
like any of the implementations: the message permutation is applied between rounds, a chunk is a
left fold over its blocks, and the tree is built top-down with the left subtree holding the
largest power of two of chunks that is strictly less than the total.
-/
import B3.Prim
import B3.Tree.Basic
namespace B3.Spec
open B3

def IV : CV := #v[0x6A09E667, 0xBB67AE85, 0x3C6EF372, 0xA54FF53A, 0x510E527F, 0x9B05688C, 0x1F83D9AB, 0x5BE0CD19]

def CHUNK_START : UInt8 := 1
def CHUNK_END : UInt8 := 2
def PARENT : UInt8 := 4
def ROOT : UInt8 := 8
def KEYED_HASH : UInt8 := 16
def DERIVE_KEY_CONTEXT : UInt8 := 32
def DERIVE_KEY_MATERIAL : UInt8 := 64

/-- the quarter-round G (paper section 2.2) -/
def g (s : St) (a b c d : Fin 16) (x y : UInt32) : St :=
  let s := s.set a (s[a] + s[b] + x)
  let s := s.set d (rotr (s[d] ^^^ s[a]) 16)
  let s := s.set c (s[c] + s[d])
  let s := s.set b (rotr (s[b] ^^^ s[c]) 12)
  let s := s.set a (s[a] + s[b] + y)
  let s := s.set d (rotr (s[d] ^^^ s[a]) 8)
  let s := s.set c (s[c] + s[d])
  let s := s.set b (rotr (s[b] ^^^ s[c]) 7)
  s

/-- a round with message words supplied by `f` (columns, then diagonals) -/
def roundWith (s : St) (f : Fin 16 → UInt32) : St :=
  let s := g s 0 4 8 12 (f 0) (f 1)
  let s := g s 1 5 9 13 (f 2) (f 3)
  let s := g s 2 6 10 14 (f 4) (f 5)
  let s := g s 3 7 11 15 (f 6) (f 7)
  let s := g s 0 5 10 15 (f 8) (f 9)
  let s := g s 1 6 11 12 (f 10) (f 11)
  let s := g s 2 7 8 13 (f 12) (f 13)
  let s := g s 3 4 9 14 (f 14) (f 15)
  s

def round (s m : St) : St := roundWith s (fun i => m[i])

/-- the message word permutation (paper table 2) -/
def sigma : Vector (Fin 16) 16 := #v[2, 6, 3, 10, 7, 0, 4, 13, 1, 11, 12, 5, 9, 14, 15, 8]
def permute (m : St) : St := Vector.ofFn (fun i => m[sigma[i]])

def rounds7 (s m : St) : St :=
  let s := round s m; let m := permute m
  let s := round s m; let m := permute m
  let s := round s m; let m := permute m
  let s := round s m; let m := permute m
  let s := round s m; let m := permute m
  let s := round s m; let m := permute m
  round s m

def initState (h : CV) (t : UInt64) (b d : UInt32) : St :=
  #v[h[0], h[1], h[2], h[3], h[4], h[5], h[6], h[7],
     IV[0], IV[1], IV[2], IV[3], t.toUInt32, (t >>> 32).toUInt32, b, d]

/-- output transformation: `v[i] ^= v[i+8]`, `v[i+8] ^= h[i]` -/
def feedForward (h : CV) (v : St) : St :=
  #v[v[0] ^^^ v[8], v[1] ^^^ v[9], v[2] ^^^ v[10], v[3] ^^^ v[11],
     v[4] ^^^ v[12], v[5] ^^^ v[13], v[6] ^^^ v[14], v[7] ^^^ v[15],
     v[8] ^^^ h[0], v[9] ^^^ h[1], v[10] ^^^ h[2], v[11] ^^^ h[3],
     v[12] ^^^ h[4], v[13] ^^^ h[5], v[14] ^^^ h[6], v[15] ^^^ h[7]]

/-- the compression function: chaining value, 16 message words, 64-bit counter, block length,
flags; 16 output words -/
def compress (h : CV) (m : St) (t : UInt64) (b d : UInt32) : St :=
  feedForward h (rounds7 (initState h t b d) m)

/-- A node just before the choice "chaining value or root output" (what the Rust code calls
`Output`): input chaining value, message block, block length, counter, flags. -/
structure Node where
  cv : CV
  block : St
  blen : Nat
  t : Nat
  flags : UInt8
deriving DecidableEq

/-- non-root chaining value of a node -/
def Node.chain (n : Node) : CV :=
  first8 (compress n.cv n.block (UInt64.ofNat n.t) (UInt32.ofNat n.blen) n.flags.toUInt32)

/-- root output block `k`: ROOT flag set, counter `k` -/
def Node.rootBlock (n : Node) (k : Nat) : St :=
  compress n.cv n.block (UInt64.ofNat k) (UInt32.ofNat n.blen) (n.flags ||| ROOT).toUInt32

def startFlag (first : Bool) : UInt8 := if first then CHUNK_START else 0

/-- The node of a chunk (at most 1024 bytes) with counter `t`: every block but the last is
compressed into the chaining value; the last block (possibly short, empty only for the empty
chunk) carries CHUNK_END.  The first block carries CHUNK_START. -/
def chunkGo (flags : UInt8) (t : Nat) (cv : CV) (first : Bool) (c : List UInt8) : Node :=
  if h : c.length ≤ 64 then
    { cv := cv, block := wordsOfBytes 16 c, blen := c.length, t := t,
      flags := flags ||| startFlag first ||| CHUNK_END }
  else
    chunkGo flags t
      (first8 (compress cv (wordsOfBytes 16 (c.take 64)) (UInt64.ofNat t) 64 (flags ||| startFlag first).toUInt32))
      false (c.drop 64)
termination_by c.length
decreasing_by simp [List.length_drop]; omega

def chunkNode (key : CV) (flags : UInt8) (t : Nat) (c : List UInt8) : Node := chunkGo flags t key true c

def parentNode (key : CV) (flags : UInt8) (l r : CV) : Node :=
  { cv := key, block := catCV l r, blen := 64, t := 0, flags := flags ||| PARENT }

def parentCV (key : CV) (flags : UInt8) (l r : CV) : CV := (parentNode key flags l r).chain

/-- 1024-byte pieces of the message, the last one possibly short; the empty message is one empty
chunk -/
def chunks (m : List UInt8) : List (List UInt8) :=
  if h : (m.drop 1024).isEmpty then [m] else m.take 1024 :: chunks (m.drop 1024)
termination_by m.length
decreasing_by
  simp [List.length_drop] at h ⊢
  omega

/-- chaining values of chunks `t, t+1, …` -/
def leafCVs (key : CV) (flags : UInt8) : Nat → List (List UInt8) → List CV
  | _, [] => []
  | t, c :: cs => (chunkNode key flags t c).chain :: leafCVs key flags (t + 1) cs

/-- chaining value of the subtree over a non-empty list of chunk CVs (paper 2.1: left subtree =
largest power of two strictly less than the number of leaves) -/
def treeCV (key : CV) (flags : UInt8) (cvs : List CV) : CV := Tr.topDown (parentCV key flags) key cvs

/-- root node of the tree over message `m` (mode given by `key`, `flags`) -/
def rootNode (key : CV) (flags : UInt8) (m : List UInt8) : Node :=
  let cs := chunks m
  if cs.length ≤ 1 then chunkNode key flags 0 m
  else
    let cvs := leafCVs key flags 0 cs
    let k := Tr.lp2lt cvs.length
    parentNode key flags (treeCV key flags (cvs.take k)) (treeCV key flags (cvs.drop k))

/-- non-root chaining value of the subtree over the non-empty byte string `m` whose first chunk
has counter `t` (hazmat `finalize_non_root`) -/
def subtreeCV (key : CV) (flags : UInt8) (t : Nat) (m : List UInt8) : CV :=
  treeCV key flags (leafCVs key flags t (chunks m))

/-- 64 output bytes of root block `k` -/
def Node.xofBlock (n : Node) (k : Nat) : List UInt8 := bytesOfWords (n.rootBlock k)

/-- byte `i` of the output stream -/
def Node.streamByte (n : Node) (i : Nat) : UInt8 := (n.xofBlock (i / 64)).getD (i % 64) 0

/-- `len` bytes of the output stream from position `pos` -/
def Node.stream (n : Node) (pos len : Nat) : List UInt8 := (List.range len).map fun i => n.streamByte (pos + i)

inductive Mode where
  | hash
  | keyed (key : List UInt8)      -- 32 bytes
  | derive (ctx : List UInt8)     -- context string bytes
deriving DecidableEq

def contextKey (ctx : List UInt8) : List UInt8 := ((rootNode IV DERIVE_KEY_CONTEXT ctx).xofBlock 0).take 32

def Mode.key : Mode → CV
  | .hash => IV
  | .keyed k => wordsOfBytes 8 k
  | .derive ctx => wordsOfBytes 8 (contextKey ctx)

def Mode.flags : Mode → UInt8
  | .hash => 0
  | .keyed _ => KEYED_HASH
  | .derive _ => DERIVE_KEY_MATERIAL

def root (mode : Mode) (m : List UInt8) : Node := rootNode mode.key mode.flags m

/-- extended output -/
def xof (mode : Mode) (m : List UInt8) (pos len : Nat) : List UInt8 := (root mode m).stream pos len

/-- the 32-byte hash -/
def hash (mode : Mode) (m : List UInt8) : List UInt8 := ((root mode m).xofBlock 0).take 32

end B3.Spec
