/-
Validation driver for the model of reference_impl.rs (ops `R new|upd|fin` of harness/PROTOCOL.md).
Prints the model's output only (`ok`, hex, `PANIC`, `bad-op`), one line per op, so that its output
can be compared byte for byte with harness/rs.  With `--spec` as first argument, `R fin` prints
`<model>;<spec>` where the second field is `Spec.xof` of the bytes absorbed so far.
-/
import B3.Spec
import B3.Model.Ref
open B3

def hexDigit (n : Nat) : Char := if n < 10 then Char.ofNat (48 + n) else Char.ofNat (87 + n)

def hexOfBytes (bs : List UInt8) : String :=
  String.ofList (bs.flatMap fun b => [hexDigit (b.toNat / 16), hexDigit (b.toNat % 16)])

def hexVal (c : Char) : Option Nat :=
  if '0' ≤ c ∧ c ≤ '9' then some (c.toNat - 48)
  else if 'a' ≤ c ∧ c ≤ 'f' then some (c.toNat - 87)
  else if 'A' ≤ c ∧ c ≤ 'F' then some (c.toNat - 55)
  else none

def bytesOfHexAux : List Char → Array UInt8 → Option (Array UInt8)
  | [], acc => some acc
  | [_], _ => none
  | a :: b :: r, acc => match hexVal a, hexVal b with
    | some x, some y => bytesOfHexAux r (acc.push (UInt8.ofNat (16 * x + y)))
    | _, _ => none

def bytesOfHex (s : String) : Option (List UInt8) :=
  if s = "-" then some [] else (bytesOfHexAux s.toList #[]).map Array.toList

def parseData : List String → Option (List UInt8 × List String)
  | "pat" :: n :: seed :: rest => do
    let n ← n.toNat?; let seed ← seed.toNat?
    some (patBytes n (UInt64.ofNat seed), rest)
  | "pats" :: n :: seed :: skip :: rest => do
    let n ← n.toNat?; let seed ← seed.toNat?; let skip ← skip.toNat?
    some ((patBytes (skip + n) (UInt64.ofNat seed)).drop skip, rest)
  | "hex" :: h :: rest => do some (← bytesOfHex h, rest)
  | _ => none

def isUtf8 (bs : List UInt8) : Bool := (String.fromUTF8? ⟨bs.toArray⟩).isSome

def parseMode : List String → Option (Spec.Mode × List String)
  | "hash" :: rest => some (.hash, rest)
  | "keyed" :: k :: rest => do
    let kb ← bytesOfHex k
    if kb.length = 32 then some (.keyed kb, rest) else none
  | "derive" :: c :: rest => do
    let cb ← bytesOfHex c
    if isUtf8 cb then some (.derive cb, rest) else none     -- `new_derive_key(context: &str)`
  | _ => none

structure RReg where
  h : Ref.Hasher
  mode : Spec.Mode
  absorbed : List UInt8

/-- spec stream computed block-wise (same value as `Spec.Node.stream`) -/
def streamFast (n : Spec.Node) (pos len : Nat) : List UInt8 :=
  if len = 0 then [] else
  let b0 := pos / 64
  let b1 := (pos + len - 1) / 64
  let bytes := (List.range (b1 - b0 + 1)).flatMap fun i => n.xofBlock (b0 + i)
  (bytes.drop (pos % 64)).take len

abbrev DState := List (String × RReg)

def getR (s : DState) (r : String) : Option RReg := (s.find? (·.1 = r)).map (·.2)
def setR (s : DState) (r : String) (v : RReg) : DState := (r, v) :: s.filter (·.1 ≠ r)

def step (withSpec : Bool) (s : DState) (line : String) : DState × String :=
  let bad := (s, "bad-op")
  match line.trimAscii.toString.splitOn " " with
  | "R" :: "new" :: r :: rest => match parseMode rest with
    | some (mode, _) => match Ref.newMode Ref.specCmp mode with
      | some h => (setR s r { h := h, mode := mode, absorbed := [] }, "ok")
      | none => (s, "PANIC")
    | none => bad
  | "R" :: "upd" :: r :: rest => match getR s r, parseData rest with
    | some reg, some (d, _) => match reg.h.update Ref.specCmp d with
      | some h => (setR s r { reg with h := h, absorbed := reg.absorbed ++ d }, "ok")
      | none => (s, "PANIC")
    | _, _ => bad
  | ["R", "fin", r, n] => match getR s r, n.toNat? with
    | some reg, some n => match reg.h.finalize Ref.specCmp n with
      | some out =>
        (s, hexOfBytes out ++ (if withSpec then ";" ++ hexOfBytes (streamFast (Spec.root reg.mode reg.absorbed) 0 n) else ""))
      | none => (s, "PANIC")
    | _, _ => bad
  | _ => bad

partial def loop (withSpec : Bool) (h : IO.FS.Stream) (out : IO.FS.Stream) (s : DState) : IO Unit := do
  let line ← h.getLine
  if line.isEmpty then return ()
  let (s', o) := step withSpec s line
  out.putStrLn o
  loop withSpec h out s'

def main (args : List String) : IO Unit := do
  let stdout ← IO.getStdout
  loop (args.contains "--spec") (← IO.getStdin) stdout []
  stdout.flush
