import B3.Io.Model
import B3.Io.Proofs
import B3.Io.Props
import B3.Io.Drv
