import B3.Io.Drv

partial def loop (hin hout : IO.FS.Stream) : IO Unit := do
  let line ← hin.getLine
  if line.isEmpty then return
  let l := String.ofList (line.toList.reverse.dropWhile (· == '\n')).reverse
  hout.putStrLn (B3.Io.Drv.stepLine (l.splitOn " "))
  loop hin hout

def main : IO Unit := do
  let hin ← IO.getStdin
  let hout ← IO.getStdout
  loop hin hout
  hout.flush
