namespace St

def popcount (n : Nat) : Nat := if h : n = 0 then 0 else n % 2 + popcount (n / 2)
termination_by n
decreasing_by omega

/-- powers of two of T, descending (lowest set bit last) -/
def bd (n : Nat) : List Nat :=
  if h : n = 0 then [] else (bd (n / 2)).map (· * 2) ++ (if n % 2 = 1 then [1] else [])
termination_by n
decreasing_by omega

theorem bd_zero : bd 0 = [] := by rw [bd]; simp
theorem popcount_zero : popcount 0 = 0 := by rw [popcount]; simp

theorem bd_length (n : Nat) : (bd n).length = popcount n := by
  induction n using Nat.strongRecOn with
  | _ n ih =>
    rw [bd, popcount]
    split
    · simp
    · rename_i h
      simp [ih (n / 2) (by omega)]
      rcases Nat.mod_two_eq_zero_or_one n with h2 | h2 <;> simp [h2] <;> omega

theorem bd_double (n : Nat) : bd (2 * n) = (bd n).map (· * 2) := by
  by_cases h : n = 0
  · subst h; simp [bd_zero]
  · rw [bd]
    have : 2 * n ≠ 0 := by omega
    simp [this]

theorem bd_double_succ (n : Nat) : bd (2 * n + 1) = (bd n).map (· * 2) ++ [1] := by
  rw [bd]
  have h2 : (2 * n + 1) / 2 = n := by omega
  simp [h2]

inductive Lazy (T : Nat) : List Nat → Prop
  | canon : Lazy T (bd T)
  | merge (xs : List Nat) (s : Nat) : Lazy T (xs ++ [2 * s]) → Lazy T (xs ++ [s, s])

theorem Lazy.scale {T : Nat} {xs : List Nat} (h : Lazy T xs) : Lazy (2 * T) (xs.map (· * 2)) := by
  induction h with
  | canon => rw [← bd_double]; exact Lazy.canon
  | merge xs s _ ih =>
    simp only [List.map_append, List.map_cons, List.map_nil] at ih ⊢
    apply Lazy.merge
    have : 2 * s * 2 = 2 * (s * 2) := by omega
    rw [this] at ih
    exact ih

/-- pushing one unit chunk -/
theorem push_one (T : Nat) : Lazy (T + 1) (bd T ++ [1]) := by
  induction T using Nat.strongRecOn with
  | _ T ih =>
    rcases Nat.mod_two_eq_zero_or_one T with h | h
    · -- even
      have e : T = 2 * (T / 2) := by omega
      have : bd T ++ [1] = bd (T + 1) := by
        conv => rhs; rw [e, bd_double_succ]
        conv => lhs; rw [e, bd_double]
      rw [this]; exact Lazy.canon
    · have e : T = 2 * (T / 2) + 1 := by omega
      have hb : bd T = (bd (T / 2)).map (· * 2) ++ [1] := by
        conv => lhs; rw [e, bd_double_succ]
      rw [hb, List.append_assoc]
      show Lazy (T + 1) ((bd (T / 2)).map (· * 2) ++ [1, 1])
      apply Lazy.merge
      have ih' := (ih (T / 2) (by omega)).scale
      simp only [List.map_append, List.map_cons, List.map_nil] at ih'
      have e2 : T + 1 = 2 * (T / 2 + 1) := by omega
      rw [e2]
      exact ih'

/-- general carry: push a block of size 2^k when 2^k divides T -/
theorem push_carry (k T : Nat) : Lazy (2 ^ k * T + 2 ^ k) ((bd (2 ^ k * T)) ++ [2 ^ k]) := by
  induction k with
  | zero => simpa using push_one T
  | succ k ih =>
    have h := ih.scale
    simp only [List.map_append, List.map_cons, List.map_nil] at h
    rw [← bd_double] at h
    have e1 : 2 * (2 ^ k * T) = 2 ^ (k + 1) * T := by rw [Nat.pow_succ]; ac_rfl
    have e2 : 2 * (2 ^ k * T + 2 ^ k) = 2 ^ (k + 1) * T + 2 ^ (k + 1) := by
      rw [Nat.pow_succ, Nat.mul_add, Nat.mul_right_comm, Nat.mul_comm 2 (2 ^ k * T), Nat.mul_comm 2 (2 ^ k)]
    have e3 : 2 ^ k * 2 = 2 ^ (k + 1) := by rw [Nat.pow_succ]
    rw [e1, e2, e3] at h
    exact h

theorem lazy_len_ge {T : Nat} {xs : List Nat} (h : Lazy T xs) : popcount T ≤ xs.length := by
  induction h with
  | canon => rw [bd_length]; exact Nat.le_refl _
  | merge xs s _ ih => simp at ih ⊢; omega

/-- the merge loop on sizes -/
def mergeTo (target : Nat) (xs : List Nat) : List Nat :=
  if h : xs.length > target ∧ 2 ≤ xs.length then
    mergeTo target (xs.dropLast.dropLast ++ [xs.dropLast.getLast! + xs.getLast!])
  else xs
termination_by xs.length
decreasing_by simp; omega

theorem mergeTo_lazy {T : Nat} {xs : List Nat} (h : Lazy T xs) : mergeTo (popcount T) xs = bd T := by
  induction h with
  | canon => rw [mergeTo]; simp [bd_length]
  | merge xs s hl ih =>
    rw [mergeTo]
    have := lazy_len_ge hl
    simp at this
    have c : (xs ++ [s, s]).length > popcount T ∧ 2 ≤ (xs ++ [s, s]).length := by simp; omega
    rw [dif_pos c]
    have e : (xs ++ [s, s]).dropLast.dropLast ++ [(xs ++ [s, s]).dropLast.getLast! + (xs ++ [s, s]).getLast!] = xs ++ [2 * s] := by
      have h1 : xs ++ [s, s] = (xs ++ [s]) ++ [s] := by simp
      rw [h1, List.dropLast_concat, List.dropLast_concat]
      simp
      omega
    rw [e]; exact ih

end St
