def le32 (b0 b1 b2 b3 : UInt8) : UInt32 :=
  UInt32.ofNat (b0.toNat + 256 * b1.toNat + 65536 * b2.toNat + 16777216 * b3.toNat)
def byteOf (w : UInt32) (i : Nat) : UInt8 := UInt8.ofNat (w.toNat / 256 ^ i % 256)

theorem le32_bytes (w : UInt32) : le32 (byteOf w 0) (byteOf w 1) (byteOf w 2) (byteOf w 3) = w := by
  apply UInt32.toNat_inj.mp
  have hw := w.toNat_lt
  simp only [le32, byteOf, UInt32.toNat_ofNat', UInt8.toNat_ofNat']
  simp
  omega

theorem bytes_le32 (b0 b1 b2 b3 : UInt8) :
    byteOf (le32 b0 b1 b2 b3) 0 = b0 ∧ byteOf (le32 b0 b1 b2 b3) 1 = b1 ∧
    byteOf (le32 b0 b1 b2 b3) 2 = b2 ∧ byteOf (le32 b0 b1 b2 b3) 3 = b3 := by
  have h0 := b0.toNat_lt; have h1 := b1.toNat_lt; have h2 := b2.toNat_lt; have h3 := b3.toNat_lt
  refine ⟨?_, ?_, ?_, ?_⟩ <;>
  · apply UInt8.toNat_inj.mp
    simp only [le32, byteOf, UInt32.toNat_ofNat', UInt8.toNat_ofNat']
    simp
    omega

-- the or/shift form used by C load32 agrees
def load32 (b0 b1 b2 b3 : UInt8) : UInt32 :=
  b0.toUInt32 ||| (b1.toUInt32 <<< 8) ||| (b2.toUInt32 <<< 16) ||| (b3.toUInt32 <<< 24)
