namespace Sp
abbrev St := Vector UInt32 16
@[inline] def rotr (x : UInt32) (n : UInt32) : UInt32 := (x >>> n) ||| (x <<< (32 - n))

def g (s : St) (a b c d : Fin 16) (x y : UInt32) : St :=
  let s := s.set a (s[a] + s[b] + x)
  let s := s.set d (rotr (s[d] ^^^ s[a]) 16)
  let s := s.set c (s[c] + s[d])
  let s := s.set b (rotr (s[b] ^^^ s[c]) 12)
  let s := s.set a (s[a] + s[b] + y)
  let s := s.set d (rotr (s[d] ^^^ s[a]) 8)
  let s := s.set c (s[c] + s[d])
  let s := s.set b (rotr (s[b] ^^^ s[c]) 7)
  s

def round (s m : St) : St :=
  let s := g s 0 4 8 12 m[0] m[1]
  let s := g s 1 5 9 13 m[2] m[3]
  let s := g s 2 6 10 14 m[4] m[5]
  let s := g s 3 7 11 15 m[6] m[7]
  let s := g s 0 5 10 15 m[8] m[9]
  let s := g s 1 6 11 12 m[10] m[11]
  let s := g s 2 7 8 13 m[12] m[13]
  let s := g s 3 4 9 14 m[14] m[15]
  s

def roundWith (s : St) (f : Fin 16 → UInt32) : St :=
  let s := g s 0 4 8 12 (f 0) (f 1)
  let s := g s 1 5 9 13 (f 2) (f 3)
  let s := g s 2 6 10 14 (f 4) (f 5)
  let s := g s 3 7 11 15 (f 6) (f 7)
  let s := g s 0 5 10 15 (f 8) (f 9)
  let s := g s 1 6 11 12 (f 10) (f 11)
  let s := g s 2 7 8 13 (f 12) (f 13)
  let s := g s 3 4 9 14 (f 14) (f 15)
  s
theorem round_eq_with (s m : St) : round s m = roundWith s (fun i => m[i]) := rfl

def sigma : Vector (Fin 16) 16 := #v[2, 6, 3, 10, 7, 0, 4, 13, 1, 11, 12, 5, 9, 14, 15, 8]
def permute (m : St) : St := Vector.ofFn (fun i => m[sigma[i]])

def rounds7 (s m : St) : St :=
  let s := round s m; let m := permute m
  let s := round s m; let m := permute m
  let s := round s m; let m := permute m
  let s := round s m; let m := permute m
  let s := round s m; let m := permute m
  let s := round s m; let m := permute m
  round s m
end Sp

namespace Gn
open Sp
-- what the translator would emit for portable.rs
def MSG_SCHEDULE : Vector (Vector (Fin 16) 16) 7 := #v[
  #v[0, 1, 2, 3, 4, 5, 6, 7, 8, 9, 10, 11, 12, 13, 14, 15],
  #v[2, 6, 3, 10, 7, 0, 4, 13, 1, 11, 12, 5, 9, 14, 15, 8],
  #v[3, 4, 10, 12, 13, 2, 7, 14, 6, 5, 9, 0, 11, 15, 8, 1],
  #v[10, 7, 12, 9, 14, 3, 13, 15, 4, 0, 11, 2, 5, 8, 1, 6],
  #v[12, 13, 9, 11, 15, 10, 14, 8, 7, 2, 5, 3, 0, 1, 6, 4],
  #v[9, 14, 11, 5, 8, 12, 15, 1, 13, 3, 0, 10, 2, 6, 4, 7],
  #v[11, 15, 5, 0, 1, 9, 8, 6, 14, 10, 2, 12, 3, 4, 7, 13]]

def round (state msg : St) (r : Fin 7) : St :=
  let schedule := MSG_SCHEDULE[r]
  let state := g state 0 4 8 12 msg[schedule[0]] msg[schedule[1]]
  let state := g state 1 5 9 13 msg[schedule[2]] msg[schedule[3]]
  let state := g state 2 6 10 14 msg[schedule[4]] msg[schedule[5]]
  let state := g state 3 7 11 15 msg[schedule[6]] msg[schedule[7]]
  let state := g state 0 5 10 15 msg[schedule[8]] msg[schedule[9]]
  let state := g state 1 6 11 12 msg[schedule[10]] msg[schedule[11]]
  let state := g state 2 7 8 13 msg[schedule[12]] msg[schedule[13]]
  let state := g state 3 4 9 14 msg[schedule[14]] msg[schedule[15]]
  state

def rounds7 (s m : St) : St :=
  let s := round s m 0
  let s := round s m 1
  let s := round s m 2
  let s := round s m 3
  let s := round s m 4
  let s := round s m 5
  round s m 6

/-- σ iterated r times, as an index map -/
def sigmaPow : Nat → Fin 16 → Fin 16
  | 0, i => i
  | r+1, i => sigmaPow r (sigma[i])

def permN : Nat → St → St
  | 0, m => m
  | r+1, m => permute (permN r m)

theorem permN_get (r : Nat) (m : St) (i : Fin 16) : (permN r m)[i] = m[sigmaPow r i] := by
  induction r generalizing i with
  | zero => rfl
  | succ r ih => simp [permN, permute, sigmaPow, ih]

theorem sched_eq : ∀ r : Fin 7, ∀ i : Fin 16, MSG_SCHEDULE[r][i] = sigmaPow r i := by decide

theorem round_with (s m : St) (r : Fin 7) : round s m r = roundWith s (fun i => m[MSG_SCHEDULE[r][i]]) := rfl

theorem round_eq (s m : St) (r : Fin 7) : round s m r = Sp.round s (permN r m) := by
  rw [round_with, round_eq_with]
  congr 1; funext i
  simp only [permN_get, sched_eq]

theorem rounds7_eq (s m : St) : rounds7 s m = Sp.rounds7 s m := by
  unfold rounds7 Sp.rounds7
  simp only [round_eq]
  rfl
end Gn
