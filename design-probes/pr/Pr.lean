import Pr.Basic
import Pr.Stack
import Pr.Blocks
import Pr.Arith
import Pr.Hasher
import Pr.Final
import Pr.Comp
import Pr.Le
