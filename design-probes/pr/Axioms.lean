import Pr
#print axioms Tr.collapse_append
#print axioms Tr.topDown_eq_collapse
#print axioms Tr.foldR_blocks
#print axioms St.push_carry
#print axioms St.mergeTo_lazy
#print axioms Hs.mergeStack_blocks
#print axioms Hs.loop_inv
#print axioms Hs.root_children
#print axioms Gn.rounds7_eq
#print axioms le32_bytes
#print axioms Hs.wide_spec
