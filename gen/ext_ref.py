#!/usr/bin/env python3
"""
G7-ref: statement-level translation of reference_impl/reference_impl.rs (everything except g / round / permute /
compress, which are artefact G2-ref-compress) into lean/B3/Gen/RefImpl.lean, namespace B3.Gen.RefImpl.

The file is tokenised and parsed (a recursive-descent parser for the Rust subset it uses: items `const`, `struct`,
`fn`, `impl`; statements `let`, assignment and compound assignment, expression statements, `if`/`else`, `while`,
`for`; expressions with Rust's precedences, casts, ranges, struct literals, array repeat expressions, method calls).
Every function body is then translated statement by statement into the panic monad `R` (B3/Arith.lean) over the
primitives of B3/RustRt.lean.  Nothing is matched against an expected text: operators, constants, indices, the order
of statements and conditions come from the parsed source.  A construct outside the supported subset raises
TranslationBroken("G7-ref", "<function>: <what>").

Representation (see B3/RustRt.lean): u8/u64/usize -> Nat with overflow-checked arithmetic of the type's width;
u32 -> UInt32; [u8; N], &[u8], &mut [u8], &str -> List UInt8; [u32; N], [[u32; 8]; N] -> Vector; &mut [u32] ->
Vector UInt32 n; `&mut self` methods and functions with `&mut` parameters return the new values; `while` loops are
fuel loops (fuel expression per loop in FUEL below: running out of fuel is a panic, so the no-panic theorem shows the
fuel suffices); `for` loops over chunks / zips are structural recursions over the list of items.
`debug_assert*!` lines are dropped.
"""
import re
import extract as X

A = "G7-ref"
F = "reference_impl/reference_impl.rs"

# functions of the file that belong to artefact G2-ref-compress
G2_FUNCTIONS = ["g", "round", "permute", "compress"]

# fuel of each `while` loop, as a Lean term over the variables live at loop entry
FUEL = {
    ("ChunkState.update", 1): "input.length + 1",
    ("Hasher.add_chunk_chaining_value", 1): "self.cv_stack_len + 1",
    ("Hasher.update", 1): "input.length + 1",
    ("Hasher.finalize", 1): "parent_nodes_remaining + 1",
}

LEAN_KEYWORDS = {"at", "from", "end", "in", "do", "then", "else", "fun", "let", "have", "show", "open", "macro", "by",
                 "with", "match", "if", "where", "def", "theorem", "instance", "structure", "class", "namespace",
                 "section", "variable", "import", "return", "for", "mut", "try", "catch", "finally", "unless"}


def broken(who, what):
    raise X.TranslationBroken(A, f"{who}: {what}")


# ------------------------------------------------------------------------------------------------
# tokens

TOK = re.compile(r"""
    (?P<ws>\s+)
  | (?P<num>0[xX][0-9a-fA-F_]+|\d[\d_]*)(?P<suffix>u8|u16|u32|u64|usize)?
  | (?P<id>[A-Za-z_][A-Za-z0-9_]*)
  | (?P<op>\.\.=|\.\.|::|->|=>|<<=|>>=|&&|\|\||==|!=|<=|>=|\+=|-=|\*=|/=|%=|\^=|\|=|&=|<<|>>|[-+*/%^|&!<>=(){}\[\],;.:\#?])
""", re.X)


def tokenize(text, who):
    out = []
    i = 0
    while i < len(text):
        m = TOK.match(text, i)
        if not m:
            broken(who, f"cannot tokenise at {text[i:i + 30]!r}")
        i = m.end()
        if m.group("ws"):
            continue
        if m.group("num"):
            out.append(("num", int(m.group("num").replace("_", ""), 0), m.group("suffix"), m.start()))
        elif m.group("id"):
            out.append(("id", m.group("id"), None, m.start()))
        else:
            out.append(("op", m.group("op"), None, m.start()))
    return out


# ------------------------------------------------------------------------------------------------
# parser

BINPREC = {"*": 10, "/": 10, "%": 10, "+": 9, "-": 9, "<<": 8, ">>": 8, "&": 7, "^": 6, "|": 5,
           "==": 4, "!=": 4, "<": 4, ">": 4, "<=": 4, ">=": 4, "&&": 3, "||": 2}
ASSIGN_OPS = {"=", "+=", "-=", "*=", "/=", "%=", "^=", "|=", "&=", "<<=", ">>="}
INT_TYPES = ("u8", "u64", "usize")


class Parser:
    def __init__(self, toks, who, struct_names):
        self.t, self.i, self.who, self.structs = toks, 0, who, struct_names

    def peek(self, k=0):
        j = self.i + k
        return self.t[j][:2] if j < len(self.t) else ("eof", None)

    def next(self):
        x = self.peek()
        self.i += 1
        return x

    def at(self, op):
        return self.peek() == ("op", op)

    def at_id(self, name):
        return self.peek() == ("id", name)

    def expect(self, op):
        x = self.next()
        if x != ("op", op):
            broken(self.who, f"expected `{op}`, found {x[1]!r}")

    def ident(self):
        k, v = self.next()
        if k != "id":
            broken(self.who, f"identifier expected, found {v!r}")
        return v

    # ---- types
    def ty(self):
        if self.at("&"):
            self.next()
            mut = False
            if self.at_id("mut"):
                self.next()
                mut = True
            inner = self.ty()
            if inner[0] == "slice":
                return ("slice", inner[1], mut)
            if inner == ("str",):
                return inner
            if mut:
                return ("mutref", inner)    # only in the signatures of the G2 functions; rejected elsewhere
            return inner            # `&[u32; 8]`, `&Output`: read-only reference = the value
        if self.at("["):
            self.next()
            elem = self.ty()
            if self.at(";"):
                self.next()
                n = self.expr()
                self.expect("]")
                return ("arr", elem, n)     # the length is evaluated by the module (it may name a constant)
            self.expect("]")
            return ("slice", elem, False)
        name = self.ident()
        if name in ("u8", "u32", "u64", "usize", "bool", "str"):
            return (name,)
        if name == "Self":
            return ("self",)
        return ("struct", name)

    # ---- expressions
    def path(self, first):
        name = first
        while self.at("::"):
            self.next()
            name += "::" + self.ident()
        return name

    def args(self, close):
        a = []
        while not self.at(close):
            a.append(self.expr())
            if self.at(","):
                self.next()
            elif not self.at(close):
                broken(self.who, f"`,` or `{close}` expected, found {self.peek()[1]!r}")
        self.expect(close)
        return a

    def primary(self, nostruct):
        k, v = self.peek()
        if k == "num":
            tok = self.t[self.i]
            self.next()
            return ("num", v, tok[2])
        if k == "id":
            self.next()
            if v in ("if", "while", "for", "match", "loop", "return", "break", "continue", "unsafe", "move"):
                broken(self.who, f"`{v}` in expression position is not supported")
            name = self.path(v)
            if self.at("!"):
                self.next()
                self.expect("(")
                depth, j = 1, self.i
                while depth:
                    kk, vv = self.next()
                    if kk == "eof":
                        broken(self.who, "unbalanced macro call")
                    if (kk, vv) == ("op", "("):
                        depth += 1
                    elif (kk, vv) == ("op", ")"):
                        depth -= 1
                return ("macro", name)
            if self.at("("):
                self.next()
                return ("call", name, self.args(")"))
            if self.at("{") and not nostruct and (name == "Self" or name in self.structs):
                self.next()
                fields = []
                while not self.at("}"):
                    f = self.ident()
                    if self.at(":"):
                        self.next()
                        fields.append((f, self.expr()))
                    else:
                        fields.append((f, ("var", f)))
                    if self.at(","):
                        self.next()
                    elif not self.at("}"):
                        broken(self.who, "`,` or `}` expected in a struct literal")
                self.expect("}")
                return ("struct", name, fields)
            return ("var", name)
        if (k, v) == ("op", "("):
            self.next()
            e = self.expr()
            if self.at(","):
                items = [e]
                while self.at(","):
                    self.next()
                    if self.at(")"):
                        break
                    items.append(self.expr())
                self.expect(")")
                return ("tuple", items)
            self.expect(")")
            return ("paren", e)
        if (k, v) == ("op", "["):
            self.next()
            first = self.expr()
            if self.at(";"):
                self.next()
                n = self.expr()
                self.expect("]")
                return ("repeat", first, n)
            items = [first]
            while self.at(","):
                self.next()
                if self.at("]"):
                    break
                items.append(self.expr())
            self.expect("]")
            return ("array", items)
        broken(self.who, f"unexpected token {v!r}")

    def postfix(self, nostruct):
        e = self.primary(nostruct)
        while True:
            if self.at("["):
                self.next()
                idx = self.expr(allow_range=True)
                self.expect("]")
                e = ("index", e, idx)
            elif self.at(".") and self.peek(1)[0] == "id":
                self.next()
                name = self.ident()
                if self.at("("):
                    self.next()
                    e = ("method", e, name, self.args(")"))
                else:
                    e = ("field", e, name)
            elif self.at("?"):
                broken(self.who, "`?` is not supported")
            else:
                return e

    def unary(self, nostruct):
        if self.at("&"):
            self.next()
            mut = False
            if self.at_id("mut"):
                self.next()
                mut = True
            return ("ref", self.unary(nostruct), mut)
        if self.at("&&"):
            broken(self.who, "`&&` reference is not supported")
        if self.at("*"):
            self.next()
            return ("deref", self.unary(nostruct))
        if self.at("!"):
            self.next()
            return ("not", self.unary(nostruct))
        if self.at("-"):
            broken(self.who, "unary minus is not supported")
        return self.postfix(nostruct)

    def cast(self, nostruct):
        e = self.unary(nostruct)
        while self.at_id("as"):
            self.next()
            e = ("cast", e, self.ty())
        return e

    def binary(self, minp, nostruct):
        lhs = self.cast(nostruct)
        while True:
            k, v = self.peek()
            if k == "op" and v in BINPREC and BINPREC[v] >= minp:
                self.next()
                rhs = self.binary(BINPREC[v] + 1, nostruct)
                if BINPREC[v] == 4 and self.peek()[0] == "op" and BINPREC.get(self.peek()[1]) == 4:
                    broken(self.who, "chained comparison")
                lhs = ("bin", v, lhs, rhs)
            else:
                return lhs

    def expr(self, allow_range=False, nostruct=False):
        if allow_range and self.at(".."):
            self.next()
            hi = None if self.at("]") else self.binary(0, nostruct)
            return ("range", None, hi)
        e = self.binary(0, nostruct)
        if self.at(".."):
            if not allow_range:
                broken(self.who, "range expression outside an index")
            self.next()
            hi = None if self.at("]") else self.binary(0, nostruct)
            return ("range", e, hi)
        if self.at("..="):
            broken(self.who, "inclusive ranges are not supported")
        return e

    # ---- statements
    def block(self):
        """after `{`: statements up to the matching `}` (consumed).  Returns a list of statements; a trailing
        expression without `;` is ('tail', e)"""
        out = []
        while not self.at("}"):
            if self.peek()[0] == "eof":
                broken(self.who, "unbalanced block")
            if out and out[-1][0] == "tail":
                broken(self.who, "expression without `;` in the middle of a block")
            out.append(self.statement())
        self.expect("}")
        return out

    def statement(self):
        k, v = self.peek()
        if (k, v) == ("op", "#"):
            broken(self.who, "attributes inside a function body are not supported")
        if (k, v) == ("op", ";"):
            self.next()
            return ("empty",)
        if k == "id" and v == "let":
            self.next()
            mut = False
            if self.at_id("mut"):
                self.next()
                mut = True
            name = self.ident()
            ty = None
            if self.at(":"):
                self.next()
                ty = self.ty()
            init = None
            if self.at("="):
                self.next()
                init = self.expr()
            self.expect(";")
            return ("let", name, mut, ty, init)
        if k == "id" and v == "while":
            self.next()
            if self.at_id("let"):
                broken(self.who, "`while let` is not supported")
            c = self.expr(nostruct=True)
            self.expect("{")
            return ("while", c, self.block())
        if k == "id" and v == "if":
            self.next()
            if self.at_id("let"):
                broken(self.who, "`if let` is not supported")
            c = self.expr(nostruct=True)
            self.expect("{")
            then = self.block()
            els = None
            if self.at_id("else"):
                self.next()
                if self.at_id("if"):
                    broken(self.who, "else-if chains are not supported")
                self.expect("{")
                els = self.block()
            if self.at(";"):
                self.next()
            return ("if", c, then, els)
        if k == "id" and v == "for":
            self.next()
            if self.at("("):
                self.next()
                pat = []
                while not self.at(")"):
                    pat.append(self.ident())
                    if self.at(","):
                        self.next()
                self.expect(")")
            else:
                pat = [self.ident()]
            if not self.at_id("in"):
                broken(self.who, "`in` expected in a for loop")
            self.next()
            it = self.expr(nostruct=True)
            self.expect("{")
            return ("for", pat, it, self.block())
        if k == "id" and v in ("return", "break", "continue", "loop", "match", "unsafe"):
            broken(self.who, f"`{v}` is not supported")
        e = self.expr()
        kk, vv = self.peek()
        if kk == "op" and vv in ASSIGN_OPS:
            self.next()
            rhs = self.expr()
            self.expect(";")
            return ("assign", e, vv, rhs)
        if (kk, vv) == ("op", ";"):
            self.next()
            return ("expr", e)
        if (kk, vv) == ("op", "}"):
            return ("tail", e)
        broken(self.who, f"unexpected token {vv!r} after an expression")


# ------------------------------------------------------------------------------------------------
# items of the file


class Fn:
    def __init__(self, owner, name, selfkind, params, ret, body, span):
        self.owner, self.name, self.selfkind, self.params, self.ret, self.body, self.span = \
            owner, name, selfkind, params, ret, body, span
        self.qname = f"{owner}.{name}" if owner else name
        self.pure = False      # set by the translator
        self.generic = any(t == ("slice", ("u32",), True) for _, t in params)

    def outs(self):
        """what a call returns, in order: the value (if any), the new `self` (for `&mut self`), the new contents of
        every `&mut` parameter"""
        o = []
        if self.ret != ("unit",):
            o.append(("ret", None))
        if self.selfkind == "mut":
            o.append(("self", None))
        for n, t in self.params:
            if t[0] == "slice" and t[2]:
                o.append(("param", n))
        return o


def parse_module():
    """-> (consts [(name, type, expr)], structs {name: [(field, type)]} in order, fns [Fn])"""
    text = X.src(F)
    # drop `#[cfg(test)] mod … { … }`
    while True:
        m = re.search(r"#\[cfg\(test\)\]\s*(?:pub\s+)?mod\s+\w+\s*\{", text)
        if not m:
            break
        e = X.match_brace(text, m.end() - 1)
        text = text[:m.start()] + re.sub(r"[^\n]", " ", text[m.start():e]) + text[e:]
    clean = X.strip_comments_keep_layout(text) if hasattr(X, "strip_comments_keep_layout") else _strip_keep(text)
    toks = tokenize(clean, "file")
    struct_names = set(re.findall(r"\bstruct\s+(\w+)", clean))
    p = Parser(toks, "file", struct_names)
    consts, structs, fns = [], {}, []

    def pos():
        return p.t[p.i][3] if p.i < len(p.t) else len(clean)

    def skip_attrs_and_vis():
        while True:
            if p.at("#"):
                p.next()
                if p.at("!"):
                    p.next()
                p.expect("[")
                depth = 1
                while depth:
                    k, v = p.next()
                    if (k, v) == ("op", "["):
                        depth += 1
                    elif (k, v) == ("op", "]"):
                        depth -= 1
                    elif k == "eof":
                        broken("file", "unbalanced attribute")
            elif p.at_id("pub"):
                p.next()
                if p.at("("):
                    broken("file", "restricted visibility is not supported")
            else:
                return

    def parse_fn(owner):
        start = pos()
        p.next()  # fn
        name = p.ident()
        p.who = f"{owner}::{name}" if owner else name
        if p.at("<"):
            broken(p.who, "generic functions are not supported")
        p.expect("(")
        selfkind, params = None, []
        while not p.at(")"):
            if p.at("&") and (p.peek(1) == ("id", "self") or (p.peek(1) == ("id", "mut") and p.peek(2) == ("id", "self"))):
                p.next()
                if p.at_id("mut"):
                    p.next()
                    selfkind = "mut"
                else:
                    selfkind = "ref"
                p.next()
            elif p.at_id("self"):
                broken(p.who, "by-value `self` is not supported")
            else:
                mutbind = False
                if p.at_id("mut"):
                    p.next()
                    mutbind = True
                pn = p.ident()
                p.expect(":")
                params.append((pn, p.ty()))
            if p.at(","):
                p.next()
        p.expect(")")
        ret = ("unit",)
        if p.at("->"):
            p.next()
            ret = p.ty()
        p.expect("{")
        if owner is None and name in G2_FUNCTIONS:
            depth, body = 1, []          # translated by artefact G2-ref-compress
            while depth:
                k, v = p.next()
                if k == "eof":
                    broken(p.who, "unbalanced block")
                depth += (k, v) == ("op", "{")
                depth -= (k, v) == ("op", "}")
        else:
            body = p.block()
        end = p.t[p.i - 1][3] + 1
        fns.append(Fn(owner, name, selfkind, params, ret, body, (start, end)))
        p.who = "file"

    while p.peek()[0] != "eof":
        skip_attrs_and_vis()
        k, v = p.peek()
        if k == "id" and v == "use":
            while not p.at(";"):
                p.next()
            p.next()
        elif k == "id" and v == "const":
            start = pos()
            p.next()
            name = p.ident()
            p.expect(":")
            ty = p.ty()
            p.expect("=")
            e = p.expr()
            p.expect(";")
            consts.append((name, ty, e, (start, p.t[p.i - 1][3] + 1)))
        elif k == "id" and v == "struct":
            start = pos()
            p.next()
            name = p.ident()
            p.expect("{")
            fields = []
            while not p.at("}"):
                skip_attrs_and_vis()
                fn_ = p.ident()
                p.expect(":")
                fields.append((fn_, p.ty()))
                if p.at(","):
                    p.next()
            p.expect("}")
            structs[name] = (fields, (start, p.t[p.i - 1][3] + 1))
        elif k == "id" and v == "impl":
            p.next()
            owner = p.ident()
            if not p.at("{"):
                broken("file", f"`impl {owner}`: trait impls / generics are not supported")
            p.next()
            while not p.at("}"):
                skip_attrs_and_vis()
                if not p.at_id("fn"):
                    broken("file", f"`impl {owner}`: only functions are supported, found {p.peek()[1]!r}")
                parse_fn(owner)
            p.next()
        elif k == "id" and v == "fn":
            parse_fn(None)
        else:
            broken("file", f"unsupported item starting with {v!r}")
    return clean, consts, structs, fns


def _strip_keep(text):
    """comments replaced by spaces (offsets and line numbers are preserved)"""
    text = re.sub(r"/\*.*?\*/", lambda m: re.sub(r"[^\n]", " ", m.group(0)), text, flags=re.S)
    return re.sub(r"//[^\n]*", lambda m: " " * len(m.group(0)), text)


# ------------------------------------------------------------------------------------------------
# types

U8, U32, U64, USIZE, LIT, BOOL, UNIT, STR = ("u8",), ("u32",), ("u64",), ("usize",), ("lit",), ("bool",), ("unit",), ("str",)
VEC_GENERIC = ("slice", U32, True)


def is_int(t):
    return t in (U8, U64, USIZE, LIT)


def is_list(t):
    """represented by a Lean List"""
    return t == STR or (t[0] == "slice" and not (t[1] == U32 and t[2])) or (t[0] == "arr" and t[1] == U8)


def is_vec(t):
    return t == VEC_GENERIC or (t[0] == "arr" and t[1] is not None and t[1] != U8)


def elem_of(t):
    if t == STR:
        return U8
    if t[0] in ("arr", "slice"):
        return t[1]
    return None


def lean_type(t, who="?"):
    if is_int(t):
        return "Nat"
    if t == U32:
        return "UInt32"
    if t == BOOL:
        return "Bool"
    if t == UNIT:
        return "Unit"
    if t == STR:
        return "List UInt8"
    if t[0] == "struct":
        return t[1]
    if t[0] == "slice":
        if t == VEC_GENERIC:
            return "Vector UInt32 n"
        return f"List {pty(lean_elem(t[1], who))}"
    if t[0] == "arr":
        if t[1] is None:
            broken(who, "array element type could not be determined")
        if t[1] == U8:
            return "List UInt8"
        if t[1] == U32 and t[2] == 8:
            return "CV"
        if t[1] == U32 and t[2] == 16:
            return "St"
        return f"Vector {pty(lean_elem(t[1], who))} {t[2]}"
    if t[0] == "tuple":
        return "(" + " × ".join(lean_type(x, who) for x in t[1]) + ")"
    broken(who, f"type {t} has no Lean representation")


def lean_elem(t, who):
    """element of a list / vector: bytes are UInt8 there (scalars of type u8 are Nat)"""
    return "UInt8" if t == U8 else lean_type(t, who)


def pty(s):
    return s if " " not in s or s.startswith("(") else "(" + s + ")"


def atom(s):
    s = s.strip()
    if re.match(r"^[\w.']+$", s) or (s.startswith("(") and _closes(s)) or re.match(r"^#v\[[^\[\]]*\]$", s):
        return s
    return "(" + s + ")"


def _closes(s):
    depth = 0
    for i, ch in enumerate(s):
        if ch == "(":
            depth += 1
        elif ch == ")":
            depth -= 1
            if depth == 0:
                return i == len(s) - 1
    return False


def lname(n):
    return n + "_" if n in LEAN_KEYWORDS else n


class NeedMonad(Exception):
    pass


# ------------------------------------------------------------------------------------------------
# the module: constants, struct declarations, function table


class Module:
    def __init__(self):
        self.clean, consts, structs, fns = parse_module()
        self.const_val, self.const_type, self.const_lean = {}, {}, []
        self.structs, self.fns = {}, {}
        self.has_min = re.search(r"\buse\s+core::cmp::min\s*;", self.clean) is not None
        for name, ty, e, span in consts:
            X.record_span(A, F, *span)
            ty = self.rtype(ty, None, f"const {name}")
            self.const_type[name] = ty
            if is_int(ty) or ty == U32:
                v = self.ceval(e)
                if v is None:
                    broken(f"const {name}", "not a constant expression")
                if is_int(ty):
                    self.const_val[name] = v
                    self.const_lean.append(f"def {name} : Nat := {self.const_expr(e, False)}")
                else:
                    self.const_lean.append(f"def {name} : UInt32 := {self.const_expr(e, True)}")
            elif ty[0] == "arr" and e[0] == "array":
                vals = [self.ceval(x) for x in e[1]]
                if None in vals or len(vals) != ty[2]:
                    broken(f"const {name}", "array constant: wrong length or non-constant entry")
                et = "UInt32" if ty[1] == U32 else "Nat"
                self.const_lean.append(f"def {name} : Vector {et} {ty[2]} := #v[" + ", ".join(str(v) for v in vals) + "]")
            else:
                broken(f"const {name}", "unsupported constant")
        for name, (fields, span) in structs.items():
            X.record_span(A, F, *span)
            self.structs[name] = [(f, self.rtype(t, name, f"struct {name}")) for f, t in fields]
        for fn in fns:
            if fn.owner is None and fn.name in G2_FUNCTIONS:
                if fn.name == "compress":
                    sig = [(n, self.rtype(t, None, "compress")) for n, t in fn.params]
                    want = [("chaining_value", ("arr", U32, 8)), ("block_words", ("arr", U32, 16)), ("counter", U64),
                            ("block_len", U32), ("flags", U32)]
                    if sig != want or self.rtype(fn.ret, None, "compress") != ("arr", U32, 16):
                        broken("compress", f"unexpected signature {sig}")
                continue
            X.record_span(A, F, *fn.span)
            fn.params = [(n, self.rtype(t, fn.owner, fn.qname)) for n, t in fn.params]
            fn.ret = self.rtype(fn.ret, fn.owner, fn.qname)
            if fn.owner is not None and fn.owner not in self.structs:
                broken(fn.qname, f"impl of an unknown type {fn.owner}")
            if fn.qname in self.fns:
                broken(fn.qname, "defined twice")
            self.fns[fn.qname] = fn
        missing = [g for g in G2_FUNCTIONS if not any(f.owner is None and f.name == g for f in fns)]
        if missing:
            broken("file", f"functions {missing} not found")

    def ceval(self, e):
        k = e[0]
        if k == "num":
            return e[1]
        if k == "var":
            return self.const_val.get(e[1])
        if k == "paren":
            return self.ceval(e[1])
        if k == "cast":
            return self.ceval(e[1])
        if k == "bin" and e[1] in ("+", "-", "*", "/", "%", "<<", ">>", "|", "&", "^"):
            a, b = self.ceval(e[2]), self.ceval(e[3])
            if a is None or b is None:
                return None
            if e[1] in ("/", "%") and b == 0:
                return None
            if e[1] == "-" and b > a:
                return None
            return {"+": a + b, "-": a - b, "*": a * b, "<<": a << b, ">>": a >> b, "|": a | b, "&": a & b, "^": a ^ b,
                    "/": a // b if b else 0, "%": a % b if b else 0}[e[1]]
        return None

    def const_expr(self, e, u32):
        """the defining expression of an integer constant, operator by operator"""
        k = e[0]
        if k == "num":
            return f"({e[1]} : UInt32)" if u32 else str(e[1])
        if k == "var" and e[1] in self.const_type:
            return e[1]
        if k == "paren":
            return "(" + self.const_expr(e[1], u32) + ")"
        if k == "bin" and e[1] in X.LEAN_BIN:
            rhs = self.const_expr(e[3], u32 and e[1] not in ("<<", ">>"))
            if e[1] in ("<<", ">>"):
                rhs = str(self.ceval(e[3]))
            return f"{self.const_expr(e[2], u32)} {X.LEAN_BIN[e[1]]} {rhs}"
        broken("const", f"unsupported constant expression {e}")

    def rtype(self, t, owner, who):
        if t == ("self",):
            if owner is None:
                broken(who, "`Self` outside an impl")
            return ("struct", owner)
        if t[0] == "arr":
            n = self.ceval(t[2]) if isinstance(t[2], tuple) else t[2]
            if n is None:
                broken(who, "array length is not a constant")
            return ("arr", self.rtype(t[1], owner, who), n)
        if t[0] == "slice":
            return ("slice", self.rtype(t[1], owner, who), t[2])
        if t[0] == "mutref":
            broken(who, "`&mut` of a non-slice type")
        return t

    def field_type(self, sname, f, who):
        for n, t in self.structs.get(sname, []):
            if n == f:
                return t
        broken(who, f"struct {sname} has no field {f}")

    def methods_named(self, name):
        return [f for f in self.fns.values() if f.name == name and f.owner is not None]


# ------------------------------------------------------------------------------------------------
# AST walks


def walk_exprs(e, f):
    """call f on every sub-expression"""
    if not isinstance(e, tuple):
        return
    f(e)
    k = e[0]
    if k in ("paren", "deref", "not"):
        walk_exprs(e[1], f)
    elif k in ("ref", "cast", "field"):
        walk_exprs(e[1], f)
    elif k == "index":
        walk_exprs(e[1], f)
        walk_exprs(e[2], f)
    elif k == "range":
        walk_exprs(e[1], f)
        walk_exprs(e[2], f)
    elif k == "bin":
        walk_exprs(e[2], f)
        walk_exprs(e[3], f)
    elif k == "call":
        for a in e[2]:
            walk_exprs(a, f)
    elif k == "method":
        walk_exprs(e[1], f)
        for a in e[3]:
            walk_exprs(a, f)
    elif k == "struct":
        for _, a in e[2]:
            walk_exprs(a, f)
    elif k in ("array", "tuple"):
        for a in e[1]:
            walk_exprs(a, f)
    elif k == "repeat":
        walk_exprs(e[1], f)
        walk_exprs(e[2], f)


def walk_stmts(stmts, fe, fs=None):
    for st in stmts:
        if fs:
            fs(st)
        k = st[0]
        if k == "let":
            walk_exprs(st[4], fe)
        elif k == "assign":
            walk_exprs(st[1], fe)
            walk_exprs(st[3], fe)
        elif k in ("expr", "tail"):
            walk_exprs(st[1], fe)
        elif k == "while":
            walk_exprs(st[1], fe)
            walk_stmts(st[2], fe, fs)
        elif k == "if":
            walk_exprs(st[1], fe)
            walk_stmts(st[2], fe, fs)
            if st[3]:
                walk_stmts(st[3], fe, fs)
        elif k == "for":
            walk_exprs(st[2], fe)
            walk_stmts(st[3], fe, fs)


def strip_ref(e):
    while e[0] in ("ref", "paren"):
        e = e[1]
    return e


# ------------------------------------------------------------------------------------------------
# translation of one function


class FnTr:
    def __init__(self, mod, fn, monadic):
        self.mod, self.fn, self.monadic = mod, fn, monadic
        self.who = fn.qname.replace(".", "::")
        self.types = {}            # local variable -> Rust type (insertion order = declaration order)
        self.container = {}        # loop item that is a `&mut` element of a slice -> the slice variable
        self.pending = {}          # array variable whose element type is not known yet -> (length, element literal)
        self.tmp = 0
        self.defs = []
        self.nloops = 0
        self.notes = []

    # ---- small helpers
    def fresh(self):
        self.tmp += 1
        return f"t{self.tmp}"

    def bind(self, L, pad, rhs):
        if not self.monadic:
            raise NeedMonad()
        v = self.fresh()
        L.append(f"{pad}let {v} ← {rhs}")
        return v

    def bad(self, what):
        broken(self.who, what)

    def tup(self, vs):
        return vs[0] if len(vs) == 1 else "(" + ", ".join(vs) + ")"

    def tuptype(self, ts):
        ls = [lean_type(t, self.who) for t in ts]
        return pty(ls[0]) if len(ls) == 1 else "(" + " × ".join(ls) + ")"

    def resolve(self, name, elem):
        """the element type of a `[0; N]` local becomes known"""
        t = self.types[name]
        if t[0] == "arr" and t[1] is None:
            self.types[name] = ("arr", elem, t[2])

    def unify_var(self, e, ty, want):
        """a variable whose type is still open (integer literal, array of unknown element type) takes the type required
        by its use"""
        e = strip_ref(e)
        if e[0] == "var" and e[1] in self.types:
            cur = self.types[e[1]]
            if cur == LIT and is_int(want) and want != LIT:
                self.types[e[1]] = want
                return want
            if cur[0] == "arr" and cur[1] is None and elem_of(want) is not None:
                self.resolve(e[1], elem_of(want))
                return self.types[e[1]]
        return ty

    def coerce(self, term, ty, want, e=None):
        """`term : ty` used where `want` is required"""
        if e is not None:
            ty = self.unify_var(e, ty, want)
        if want is None or ty == want:
            return term
        if is_int(want) and is_int(ty):
            if ty == LIT or want == LIT or {ty, want} == {U64, USIZE}:
                return term
            self.bad(f"integer type mismatch: {ty[0]} where {want[0]} is expected")
        if want == U32 and ty == LIT:
            return term
        if is_list(want) and is_list(ty):
            if elem_of(want) == elem_of(ty):
                return term
        if is_list(want) and is_vec(ty) and elem_of(want) == elem_of(ty):
            return f"{atom(term)}.toList"
        if want == VEC_GENERIC and ty[0] == "arr" and ty[1] == U32:
            return term
        if want[0] == "arr" and ty[0] == "arr" and want[2] == ty[2] and want[1] == ty[1]:
            return term
        self.bad(f"type mismatch: {ty} where {want} is expected")

    def width_ops(self, t):
        if t == U8:
            return "Rt.cadd8", "Arith.csub", "Rt.cmul8"
        if t in (U64, USIZE):
            return "Arith.cadd", "Arith.csub", "Arith.cmul"
        self.bad("the integer type of an arithmetic operation could not be determined")

    # ---- expressions: returns (Lean term, Rust type); monadic lets are appended to L
    def ex(self, e, L, pad, expected=None):
        k = e[0]
        if k == "num":
            if e[2]:
                return str(e[1]), (e[2],)
            if expected is not None and (is_int(expected) or expected == U32):
                return str(e[1]), expected
            return str(e[1]), LIT
        if k == "paren":
            return self.ex(e[1], L, pad, expected)
        if k == "ref":
            return self.ex(e[1], L, pad, expected)
        if k == "var":
            n = e[1]
            if n in self.types:
                t = self.types[n]
                if expected is not None:
                    t = self.unify_var(e, t, expected)
                return lname(n), t
            if n in self.mod.const_val:
                return str(self.mod.const_val[n]), self.mod.const_type[n]
            if n in self.mod.const_type:
                return n, self.mod.const_type[n]
            self.bad(f"unknown name {n}")
        if k == "field":
            b, bt = self.ex(e[1], L, pad)
            if bt[0] != "struct":
                self.bad(f"field access .{e[2]} on a non-struct")
            return f"{atom(b)}.{e[2]}", self.mod.field_type(bt[1], e[2], self.who)
        if k == "cast":
            t, ty = self.ex(e[1], L, pad)
            want = self.mod.rtype(e[2], self.fn.owner, self.who)
            if is_int(ty) and is_int(want):
                if want == U8 and ty != U8:
                    c = self.mod.ceval(e[1])
                    if c is not None and c < 256:
                        return t, want
                    return f"(Rt.asU8 {atom(t)})", want
                return t, want
            if is_int(ty) and want == U32:
                return f"(UInt32.ofNat {atom(t)})", U32
            if ty == U32 and want in (U64, USIZE):
                return f"{atom(t)}.toNat", want
            if ty == U32 and want == U32:
                return t, U32
            self.bad(f"cast from {ty[0]} to {want[0]} is not supported")
        if k == "bin":
            return self.binop(e, L, pad, expected)
        if k == "not":
            self.bad("`!` outside a condition")
        if k == "index":
            return self.index(e, L, pad)
        if k == "call":
            return self.call_expr(e, L, pad, expected)
        if k == "method":
            return self.method_expr(e, L, pad, expected)
        if k == "struct":
            sname = self.fn.owner if e[1] == "Self" else e[1]
            decl = self.mod.structs.get(sname)
            if decl is None:
                self.bad(f"unknown struct {e[1]}")
            if sorted(f for f, _ in e[2]) != sorted(f for f, _ in decl):
                self.bad(f"struct literal {sname}: fields {[f for f, _ in e[2]]} do not match the declaration")
            parts = []
            for f, fe in e[2]:
                ft = self.mod.field_type(sname, f, self.who)
                t, ty = self.ex(fe, L, pad, ft)
                parts.append(f"{f} := {self.coerce(t, ty, ft, fe)}")
            return "({ " + ", ".join(parts) + f" }} : {sname})", ("struct", sname)
        if k == "repeat":
            n = self.mod.ceval(e[2])
            if n is None:
                self.bad("array repeat length is not a constant")
            if expected is None or expected[0] != "arr" or expected[1] is None:
                self.bad("array repeat expression whose type cannot be determined")
            if expected[2] != n:
                self.bad(f"array of length {n} where length {expected[2]} is expected")
            return self.repeat_term(e[1], expected), expected
        if k == "macro":
            self.bad(f"macro {e[1]}! in expression position")
        self.bad(f"unsupported expression {k}")

    def repeat_term(self, elem, ty):
        et, n = ty[1], ty[2]
        if et[0] == "arr":
            if elem[0] != "repeat" or self.mod.ceval(elem[2]) != et[2]:
                self.bad("nested array repeat expression does not match its type")
            return f"(Vector.replicate {n} {self.repeat_term(elem[1], et)})"
        v = self.mod.ceval(elem)
        if v is None:
            self.bad("array repeat element is not a constant")
        if et == U8:
            return f"(List.replicate {n} {v})"
        if et == U32:
            return f"(Vector.replicate {n} {v})"
        self.bad("unsupported array element type")

    def binop(self, e, L, pad, expected):
        op = e[1]
        if op in ("==", "!=", "<", ">", "<=", ">=", "&&", "||"):
            self.bad("comparison used as a value")
        c = self.mod.ceval(e)
        if c is not None:
            # a constant expression (evaluated by the compiler); its type is that of the constants in it
            tys = []
            walk_exprs(e, lambda x: tys.append(self.mod.const_type[x[1]]) if x[0] == "var" and x[1] in self.mod.const_type else None)
            ty = tys[0] if tys else (expected if expected is not None and (is_int(expected) or expected == U32) else LIT)
            return str(c), ty
        a, ta = self.ex(e[2], L, pad, expected if expected in (U8, U32, U64, USIZE) else None)
        if op in ("<<", ">>"):
            sh = self.mod.ceval(e[3])
            if sh is None:
                self.bad("shift by a non-constant amount")
            if ta == U32:
                if sh >= 32:
                    self.bad("shift amount out of range")
                return f"({a} {X.LEAN_BIN[op]} {sh})", U32
            if ta in (U64, USIZE):
                if sh >= 64:
                    self.bad("shift amount out of range")
                if op == ">>":
                    return f"({a} >>> {sh})", ta
                return self.bind(L, pad, f"Arith.cshl {atom(a)} {sh}"), ta
            self.bad(f"shift on {ta[0]}")
        b, tb = self.ex(e[3], L, pad, ta if ta != LIT else expected)
        if ta == LIT and tb != LIT:
            ta = self.unify_var(e[2], ta, tb) if is_int(tb) else tb
            if ta == LIT:
                ta = tb
        if tb == LIT and ta != LIT:
            tb = self.unify_var(e[3], tb, ta) if is_int(ta) else ta
            if tb == LIT:
                tb = ta
        if ta == U32 and tb == U32:
            if op in ("|", "&", "^"):
                return f"({a} {X.LEAN_BIN[op]} {b})", U32
            self.bad(f"u32 arithmetic (`{op}`) is not supported")
        if is_int(ta) and is_int(tb):
            if ta != tb and {ta, tb} != {U64, USIZE}:
                self.bad(f"operands of `{op}` have different integer types")
            if op in ("|", "&", "^"):
                return f"({a} {X.LEAN_BIN[op]} {b})", ta
            add, sub, mul = self.width_ops(ta)
            f = {"+": add, "-": sub, "*": mul, "/": "Arith.cdiv", "%": "Arith.cmod"}[op]
            return self.bind(L, pad, f"{f} {atom(a)} {atom(b)}"), ta
        self.bad(f"operator `{op}` on {ta[0]} and {tb[0]}")

    def int_term(self, e, L, pad):
        t, ty = self.ex(e, L, pad, USIZE)
        if not is_int(ty):
            self.bad("index is not an integer")
        self.unify_var(e, ty, USIZE)
        return t

    def index(self, e, L, pad):
        b, bt = self.ex(e[1], L, pad)
        idx = e[2]
        if idx[0] == "range":
            if not (is_list(bt) or is_vec(bt)):
                self.bad("slicing a non-slice")
            lst = b if is_list(bt) else f"{atom(b)}.toList"
            rt = ("slice", elem_of(bt), False)
            if idx[1] is None and idx[2] is None:
                return lst, rt
            if idx[1] is None:
                hi = self.int_term(idx[2], L, pad)
                return self.bind(L, pad, f"Rt.sliceTo {atom(lst)} {atom(hi)}"), rt
            lo = self.int_term(idx[1], L, pad)
            if idx[2] is None:
                return self.bind(L, pad, f"Rt.sliceFrom {atom(lst)} {atom(lo)}"), rt
            hi = self.int_term(idx[2], L, pad)
            return self.bind(L, pad, f"Rt.sliceRange {atom(lst)} {atom(lo)} {atom(hi)}"), rt
        i = self.int_term(idx, L, pad)
        if is_vec(bt):
            return self.bind(L, pad, f"Rt.vget {atom(b)} {atom(i)}"), elem_of(bt)
        if is_list(bt):
            return self.bind(L, pad, f"Arith.getIdx {atom(b)} {atom(i)}"), elem_of(bt)
        self.bad("indexing a non-array")

    # ---- conditions -> Lean propositions
    def cond(self, e, L, pad):
        k = e[0]
        if k == "paren":
            return self.cond(e[1], L, pad)
        if k == "not":
            return f"¬ ({self.cond(e[1], L, pad)})"
        if k == "bin" and e[1] in ("&&", "||"):
            a = self.cond(e[2], L, pad)
            n0 = len(L)
            b = self.cond(e[3], L, pad)
            if len(L) != n0:
                self.bad(f"the right operand of `{e[1]}` can panic; short-circuit evaluation is not supported")
            return f"({a}) {'∧' if e[1] == '&&' else '∨'} ({b})"
        if k == "bin" and e[1] in ("==", "!=", "<", ">", "<=", ">="):
            a, ta = self.ex(e[2], L, pad)
            b, tb = self.ex(e[3], L, pad, ta if ta != LIT else None)
            if ta == LIT and tb != LIT:
                self.unify_var(e[2], ta, tb)
            elif tb == LIT and ta != LIT:
                self.unify_var(e[3], tb, ta)
            ok = (is_int(ta) and is_int(tb)) or (ta == U32 and tb in (U32, LIT)) or (tb == U32 and ta == LIT)
            if not ok:
                self.bad(f"comparison of {ta[0]} with {tb[0]}")
            lean = {"==": "=", "!=": "≠", "<": "<", ">": ">", "<=": "≤", ">=": "≥"}[e[1]]
            return f"{a} {lean} {b}"
        if k == "method" and e[2] == "is_empty" and not e[3]:
            r, rt = self.ex(e[1], L, pad)
            if not is_list(rt):
                self.bad("is_empty() on a non-slice")
            return f"{r} = []"
        self.bad("unsupported condition")

    # ---- places
    def root(self, p):
        p = strip_ref(p)
        if p[0] == "var":
            return self.container.get(p[1], p[1])
        if p[0] in ("field", "index"):
            return self.root(p[1])
        if p[0] == "deref":
            return self.root(p[1])
        return None

    def place_term(self, p):
        p = strip_ref(p)
        if p[0] == "var" and p[1] in self.types:
            return lname(p[1])
        if p[0] == "field":
            return f"{self.place_term(p[1])}.{p[2]}"
        self.bad("unsupported place expression")

    def place_type(self, p):
        p = strip_ref(p)
        if p[0] == "var" and p[1] in self.types:
            return self.types[p[1]]
        if p[0] == "field":
            bt = self.place_type(p[1])
            if bt[0] != "struct":
                self.bad("field of a non-struct")
            return self.mod.field_type(bt[1], p[2], self.who)
        self.bad("unsupported place expression")

    def assign(self, p, term, L, pad):
        """place := term"""
        p = strip_ref(p)
        if p[0] == "var":
            n = p[1]
            if n not in self.types:
                self.bad(f"assignment to an unknown variable {n}")
            if n in self.container:
                self.bad(f"assignment to the loop reference {n} itself")
            m = re.match(r"^(\s*)let (t\d+) ← (.*)$", L[-1], re.S) if L else None
            if m and m.group(2) == term:
                L[-1] = f"{m.group(1)}let {lname(n)} ← {m.group(3)}"
            elif term != lname(n):
                L.append(f"{pad}let {lname(n)} := {term}")
            return
        if p[0] == "deref" and p[1][0] == "var" and p[1][1] in self.container:
            c = lname(self.container[p[1][1]])
            L.append(f"{pad}let {c} := {c}.setIfInBounds {lname(p[1][1])} {atom(term)}")
            return
        if p[0] == "field":
            bt = self.place_term(p[1])
            self.assign(p[1], f"{{ {bt} with {p[2]} := {term} }}", L, pad)
            return
        if p[0] == "index" and p[2][0] != "range":
            c = self.place_term(p[1])
            ct = self.place_type(p[1])
            if not is_vec(ct):
                self.bad("element assignment on a non-array")
            i = self.int_term(p[2], L, pad)
            t = self.bind(L, pad, f"Rt.vset {c} {atom(i)} {atom(term)}")
            self.assign(p[1], t, L, pad)
            return
        self.bad("unsupported assignment target")

    # ---- calls
    def lookup_fn(self, name):
        parts = name.split("::")
        if len(parts) == 1:
            return self.mod.fns.get(name)
        if len(parts) == 2:
            owner = self.fn.owner if parts[0] == "Self" else parts[0]
            return self.mod.fns.get(f"{owner}.{parts[1]}")
        return None

    def call_expr(self, e, L, pad, expected):
        name, args = e[1], e[2]
        if name == "min" and self.mod.has_min and len(args) == 2:
            a, ta = self.ex(args[0], L, pad, expected)
            b, tb = self.ex(args[1], L, pad, ta if ta != LIT else expected)
            if not (is_int(ta) and is_int(tb)):
                self.bad("min on non-integers")
            if ta == LIT:
                ta = self.unify_var(args[0], ta, tb)
            if tb == LIT:
                self.unify_var(args[1], tb, ta)
            return f"(min {atom(a)} {atom(b)})", (ta if ta != LIT else tb)
        if name == "u32::from_le_bytes" and len(args) == 1:
            a, ta = self.ex(args[0], L, pad, ("arr", U8, 4))
            if ta != ("arr", U8, 4):
                self.bad("u32::from_le_bytes on something that is not a [u8; 4]")
            return f"(Rt.u32FromLeBytes {atom(a)})", U32
        if name == "compress":
            sig = [("arr", U32, 8), ("arr", U32, 16), U64, U32, U32]
            if len(args) != 5:
                self.bad("compress called with a wrong number of arguments")
            ts = []
            for a, want in zip(args, sig):
                t, ty = self.ex(a, L, pad, want)
                t = self.coerce(t, ty, want, a)
                ts.append(f"(UInt64.ofNat {atom(t)})" if want == U64 else atom(t))
            return "(B3.Gen.Ref.compress " + " ".join(ts) + ")", ("arr", U32, 16)
        fn = self.lookup_fn(name)
        if fn is None:
            self.bad(f"call of an unknown function {name}")
        if fn.selfkind:
            self.bad(f"{name} called without a receiver")
        return self.call(fn, None, args, L, pad)

    def call(self, fn, recv, args, L, pad):
        if len(args) != len(fn.params):
            self.bad(f"{fn.qname} called with a wrong number of arguments")
        terms, places = [], {}
        if fn.selfkind:
            r, rt = self.ex(recv, L, pad)
            if rt != ("struct", fn.owner):
                self.bad(f"{fn.qname} called on a receiver of another type")
            terms.append(atom(r))
        for (pn, pt), a in zip(fn.params, args):
            if pt[0] == "slice" and pt[2]:
                inner = strip_ref(a)
                direct = a[0] == "ref" and a[2]
                reborrow = a[0] == "var" and a[1] in self.types and self.types[a[1]][0] == "slice" and self.types[a[1]][2]
                if not (direct or reborrow):
                    self.bad(f"argument for the `&mut` parameter {pn} of {fn.qname} is not `&mut <place>`")
                places[pn] = inner
            t, ty = self.ex(a, L, pad, pt)
            terms.append(atom(self.coerce(t, ty, pt, a)))
        rhs = f"{fn.qname} " + " ".join(terms) if terms else fn.qname
        outs = fn.outs()
        if fn.pure:
            if outs and outs != [("ret", None)]:
                self.bad("internal: a pure function with outputs")
            return f"({rhs})" if terms else rhs, fn.ret
        if not outs:
            self.bad(f"{fn.qname} has no effect")
        if not self.monadic:
            raise NeedMonad()
        pats, later, ret = [], [], None
        for kind, pn in outs:
            if kind == "ret":
                ret = self.fresh()
                pats.append(ret)
                continue
            place = strip_ref(recv) if kind == "self" else places[pn]
            if place[0] == "var" and place[1] in self.types and place[1] not in self.container:
                pats.append(lname(place[1]))
            else:
                v = self.fresh()
                pats.append(v)
                later.append((place, v))
        L.append(f"{pad}let {self.tup(pats)} ← {rhs}")
        for place, v in later:
            self.assign(place, v, L, pad)
        return ret, fn.ret

    def method_expr(self, e, L, pad, expected):
        recv, name, args = e[1], e[2], e[3]
        if name == "unwrap" and not args and recv[0] == "method" and recv[2] == "try_into" and not recv[3]:
            if expected is None or expected[0] != "arr":
                self.bad("try_into().unwrap(): the array type of the result cannot be determined")
            s, st = self.ex(recv[1], L, pad)
            if is_vec(st):
                s = f"{atom(s)}.toList"
            elif not is_list(st):
                self.bad("try_into() on a non-slice")
            if expected[1] is not None and expected[1] != elem_of(st):
                self.bad("try_into(): element types differ")
            if elem_of(st) == U8:
                return self.bind(L, pad, f"Rt.tryIntoBytes {expected[2]} {atom(s)}"), ("arr", U8, expected[2])
            return self.bind(L, pad, f"Rt.tryInto {expected[2]} {atom(s)}"), ("arr", elem_of(st), expected[2])
        if name in ("unwrap", "try_into"):
            self.bad(f"`{name}` in an unsupported position")
        if name in ("chunks", "chunks_mut", "chunks_exact", "iter", "iter_mut", "zip", "enumerate", "copy_from_slice"):
            self.bad(f"`{name}` in an unsupported position")
        # the receiver type decides: look at it without emitting anything twice
        probe = []
        save = self.tmp
        _, rt = self.ex(recv, probe, pad)
        self.tmp = save
        if rt[0] == "struct":
            fn = self.mod.fns.get(f"{rt[1]}.{name}")
            if fn is None or not fn.selfkind:
                self.bad(f"unknown method {name} on {rt[1]}")
            return self.call(fn, recv, args, L, pad)
        r, rt = self.ex(recv, L, pad)
        if name == "len" and not args:
            if is_list(rt):
                return f"{atom(r)}.length", USIZE
            if rt == VEC_GENERIC:
                return "n", USIZE
            if rt[0] == "arr":
                return str(rt[2]), USIZE
        if name == "to_le_bytes" and not args and rt == U32:
            return f"(Rt.u32ToLeBytes {atom(r)})", ("arr", U8, 4)
        if name == "as_bytes" and not args and rt == STR:
            return r, ("slice", U8, False)
        self.bad(f"unsupported method {name} on {rt[0]}")

    # ---- which variables does a statement list modify / mention
    def assigned(self, stmts, declared):
        out = []

        def add(n):
            if n is not None and n in declared and n not in out:
                out.append(n)

        def fe(e):
            k = e[0]
            if k == "method":
                if e[2] == "copy_from_slice":
                    add(self.root(e[1]))
                cands = self.mod.methods_named(e[2])
                if any(c.selfkind == "mut" for c in cands):
                    add(self.root(e[1]))
                for c in cands:
                    for (pn, pt), a in zip(c.params, e[3]):
                        if pt[0] == "slice" and pt[2]:
                            add(self.root(a))
                if e[2] in ("chunks_mut", "iter_mut"):
                    add(self.root(e[1]))
            if k == "call":
                fn = self.lookup_fn(e[1])
                if fn is not None:
                    for (pn, pt), a in zip(fn.params, e[2]):
                        if pt[0] == "slice" and pt[2]:
                            add(self.root(a))
            if k == "ref" and e[2]:
                add(self.root(e[1]))

        def fs(st):
            if st[0] == "assign":
                add(self.root(st[1]))
            if st[0] == "for":
                # a bare `&mut [T]` variable iterated by reference
                for c in self.iter_components(st[2], probe=True):
                    if c[0] == "elems_mut":
                        add(c[1])
        walk_stmts(stmts, fe, fs)
        return out

    def mentioned(self, stmts, exprs, declared):
        names = []

        def fe(e):
            if e[0] == "var" and e[1] in declared and e[1] not in names:
                names.append(e[1])
        for x in exprs:
            walk_exprs(x, fe)
        walk_stmts(stmts, fe)
        return [n for n in declared if n in names]

    # ---- statements
    def block(self, stmts, pad, finish, tail_value=False):
        L = []
        n = len(stmts)
        for idx, st in enumerate(stmts):
            k = st[0]
            if k == "empty":
                continue
            if k == "tail":
                finish(L, pad, st[1])
                return L
            if k == "let":
                self.let(st, L, pad)
            elif k == "assign":
                self.assign_stmt(st, L, pad)
            elif k == "expr":
                self.expr_stmt(st[1], L, pad)
            elif k == "while":
                self.while_loop(st, L, pad)
            elif k == "for":
                self.for_loop(st, L, pad)
            elif k == "if":
                if tail_value and idx == n - 1 and st[3] is not None:
                    c = self.cond(st[1], L, pad)
                    do = " do" if self.monadic else ""
                    L.append(f"{pad}if {c} then{do}")
                    L += self.scoped(lambda: self.block(st[2], pad + "  ", finish, True))
                    L.append(f"{pad}else{do}")
                    L += self.scoped(lambda: self.block(st[3], pad + "  ", finish, True))
                    return L
                self.if_stmt(st, L, pad)
            else:
                self.bad(f"unsupported statement {k}")
        finish(L, pad, None)
        return L

    def scoped(self, f):
        """run f; variables it declares do not outlive it"""
        before = set(self.types)
        try:
            return f()
        finally:
            for n in list(self.types):
                if n not in before:
                    del self.types[n]
                    self.container.pop(n, None)

    def let(self, st, L, pad):
        _, name, mut, ty, init = st
        if init is None:
            self.bad(f"`let {name}` without an initialiser")
        want = self.mod.rtype(ty, self.fn.owner, self.who) if ty is not None else None
        if init[0] == "repeat" and want is None:
            n = self.mod.ceval(init[2])
            if n is None:
                self.bad("array repeat length is not a constant")
            self.types.pop(name, None)
            self.types[name] = ("arr", None, n)
            self.pending[name] = init[1]
            L.append(f"{pad}let {lname(name)} : «T:{name}» := «I:{name}»")
            return
        t, tty = self.ex(init, L, pad, want)
        if want is not None:
            t = self.coerce(t, tty, want, init)
            tty = want
        m = re.match(r"^(\s*)let (t\d+) ← (.*)$", L[-1], re.S) if L else None
        if m and m.group(2) == t:
            L[-1] = f"{m.group(1)}let {lname(name)} ← {m.group(3)}"
        else:
            L.append(f"{pad}let {lname(name)} := {t}")
        self.types.pop(name, None)
        self.types[name] = tty

    def assign_stmt(self, st, L, pad):
        _, place, op, rhs = st
        if strip_ref(place)[0] == "deref":
            ptype = elem_of(self.types[self.root(place)])
        elif strip_ref(place)[0] == "index":
            ptype = elem_of(self.place_type(strip_ref(place)[1]))
        else:
            ptype = self.place_type(place)
        if op == "=":
            t, ty = self.ex(rhs, L, pad, ptype)
            self.assign(place, self.coerce(t, ty, ptype, rhs), L, pad)
            return
        t, ty = self.ex(("bin", op[:-1], place, rhs), L, pad, ptype)
        self.assign(place, t, L, pad)

    def expr_stmt(self, e, L, pad):
        if e[0] == "macro":
            if e[1] in ("debug_assert", "debug_assert_eq", "debug_assert_ne"):
                self.notes.append(f"`{e[1]}!` dropped")
                return
            self.bad(f"macro {e[1]}! is not supported (an `assert!` would have to be represented)")
        if e[0] == "method" and e[2] == "copy_from_slice" and len(e[3]) == 1:
            self.copy_from_slice(e[1], e[3][0], L, pad)
            return
        if e[0] in ("call", "method"):
            self.ex(e, L, pad)
            return
        self.bad("expression statement without effect")

    def copy_from_slice(self, recv, arg, L, pad):
        chain, base = [], strip_ref(recv)
        while base[0] == "index" and base[2][0] == "range":
            chain.insert(0, base[2])
            base = strip_ref(base[1])
        Ls = []
        s, st = self.ex(arg, Ls, pad)
        if is_vec(st):
            s = f"{atom(s)}.toList"
        elif not is_list(st):
            self.bad("copy_from_slice from a non-slice")
        bty = self.place_type(base)
        if bty[0] == "arr" and bty[1] is None:
            self.resolve(base[1], elem_of(st))
            bty = self.place_type(base)
        if elem_of(bty) != elem_of(st):
            self.bad("copy_from_slice between different element types")
        b = self.place_term(base)
        if not chain:
            if not is_list(bty):
                self.bad("copy_from_slice on a whole array")
            L += Ls
            t = self.bind(L, pad, f"Rt.copyFromSlice {b} {atom(s)}")
            self.assign(base, t, L, pad)
            return
        length = f"{b}.length" if is_list(bty) else ("n" if bty == VEC_GENERIC else str(bty[2]))
        w = f"(Rt.Win.mk 0 {length})"
        for r in chain:
            if r[1] is None and r[2] is None:
                continue
            if r[1] is None:
                w = self.bind(L, pad, f"Rt.Win.to {w} {atom(self.int_term(r[2], L, pad))}")
            elif r[2] is None:
                w = self.bind(L, pad, f"Rt.Win.from {w} {atom(self.int_term(r[1], L, pad))}")
            else:
                lo = self.int_term(r[1], L, pad)
                hi = self.int_term(r[2], L, pad)
                w = self.bind(L, pad, f"Rt.Win.range {w} {atom(lo)} {atom(hi)}")
        L += Ls
        f = "Rt.copyInto" if is_list(bty) else "Rt.copyIntoVec"
        t = self.bind(L, pad, f"{f} {b} {w} {atom(s)}")
        self.assign(base, t, L, pad)

    def if_stmt(self, st, L, pad):
        _, c, then, els = st
        declared = list(self.types)
        avars = self.assigned(then + (els or []), declared)
        if not avars:
            self.bad("`if` without effect")
        ct = self.cond(c, L, pad)
        tp = self.tup([lname(v) for v in avars])
        do = " do" if self.monadic else ""
        ret = "pure " if self.monadic else ""
        arrow = "←" if self.monadic else ":="

        def fin(L2, pad2, tail):
            if tail is not None:
                self.expr_stmt(tail, L2, pad2)
            L2.append(f"{pad2}{ret}{tp}")
        L.append(f"{pad}let {tp} {arrow} (if {ct} then{do}")
        L += self.scoped(lambda: self.block(then, pad + "    ", fin))
        L.append(f"{pad}  else{do}")
        L += self.scoped(lambda: self.block(els or [], pad + "    ", fin))
        L.append(f"{pad}  )")

    def sub_def(self, f):
        """translate a loop body into its own definition: temporaries restart"""
        save = self.tmp
        self.tmp = 0
        try:
            return self.scoped(f)
        finally:
            self.tmp = save

    def gen_binder(self):
        return " {n : Nat}" if self.fn.generic else ""

    def while_loop(self, st, L, pad):
        if not self.monadic:
            raise NeedMonad()
        _, c, body = st
        declared = list(self.types)
        svars = self.assigned(body, declared)
        if not svars:
            self.bad("`while` loop that modifies nothing")
        self.nloops += 1
        k = self.nloops
        fuel = FUEL.get((self.fn.qname, k))
        if fuel is None:
            self.bad(f"no fuel expression is configured for `while` loop number {k}")
        name = f"{self.fn.qname}_loop" + ("" if k == 1 else str(k))
        ro = [v for v in self.mentioned(body, [c], declared) if v not in svars]
        args = [lname(v) for v in svars + ro]

        def gen():
            cl = []
            ct = self.cond(c, cl, "      ")

            def fin(L2, pad2, tail):
                if tail is not None:
                    self.expr_stmt(tail, L2, pad2)
                L2.append(f"{pad2}{name} fuel " + " ".join(args))
            bl = self.block(body, "        ", fin)
            return cl, ct, bl
        sig = " → ".join(lean_type(self.types[v], self.who) for v in svars + ro)
        cl, ct, bl = self.sub_def(gen)
        sig = " → ".join(lean_type(self.types[v], self.who) for v in svars + ro)
        d = [f"def {name}{self.gen_binder()} : Nat → {sig} → R {self.tuptype([self.types[v] for v in svars])}",
             "  | 0, " + ", ".join("_" for _ in args) + " => .panic   -- out of fuel",
             "  | fuel + 1, " + ", ".join(args) + " => do"]
        d += cl + [f"      if {ct} then do"] + bl + [f"      else pure {self.tup([lname(v) for v in svars])}"]
        d += [f"theorem {name}.equations : True := by   -- realise the unfolding equations here (note above)",
              f"  have := @{name}.eq_1; have := @{name}.eq_2; trivial", ""]
        self.defs.append("\n".join(d))
        L.append(f"{pad}let {self.tup([lname(v) for v in svars])} ← {name} ({fuel}) " + " ".join(args))

    def iter_components(self, it, probe=False):
        it = strip_ref(it)
        if it[0] == "method" and it[2] == "zip" and len(it[3]) == 1:
            return self.iter_components(it[1], probe) + self.iter_components(it[3][0], probe)
        if it[0] == "method" and it[2] in ("chunks_mut", "chunks_exact") and len(it[3]) == 1:
            ksz = self.mod.ceval(it[3][0])
            if ksz is None or ksz == 0:
                self.bad(f"{it[2]}: the chunk size must be a non-zero constant")
            return [(it[2], it[1], ksz)]
        if it[0] == "method" and it[2] == "iter" and not it[3]:
            return [("iter", it[1])]
        if it[0] == "var" and it[1] in self.types and self.types[it[1]][0] == "slice" and self.types[it[1]][2]:
            return [("elems_mut", it[1])]
        if probe:
            return []
        self.bad("unsupported iterator in a `for` loop")

    def for_loop(self, st, L, pad):
        if not self.monadic:
            raise NeedMonad()
        _, pat, it, body = st
        comps = self.iter_components(it)
        if len(comps) != len(pat) or len(comps) > 2:
            self.bad("`for` pattern does not match the iterator (one variable, or a pair over `zip`)")
        items, itypes, chunk_base, chunk_var = [], [], None, None
        newvars = {}
        for var, c in zip(pat, comps):
            if c[0] == "chunks_mut":
                if chunk_base is not None:
                    self.bad("two `chunks_mut` iterators in one loop")
                b, bt = self.ex(c[1], L, pad)
                if not (is_list(bt) and (bt[0] == "arr" or (bt[0] == "slice" and bt[2]))):
                    self.bad("chunks_mut on something that is not a mutable byte slice")
                chunk_base, chunk_var = c[1], var
                items.append(f"(Rt.chunks {c[2]} {atom(b)})")
                newvars[var] = ("slice", elem_of(bt), True)
            elif c[0] == "chunks_exact":
                b, bt = self.ex(c[1], L, pad)
                if is_vec(bt):
                    b = f"{atom(b)}.toList"
                elif not is_list(bt):
                    self.bad("chunks_exact on a non-slice")
                items.append(f"(Rt.chunksExact {c[2]} {atom(b)})")
                newvars[var] = ("slice", elem_of(bt), False)
            elif c[0] == "iter":
                b, bt = self.ex(c[1], L, pad)
                if is_vec(bt):
                    b = f"{atom(b)}.toList"
                elif not is_list(bt):
                    self.bad("iter() on a non-slice")
                items.append(b)
                newvars[var] = elem_of(bt)
            else:
                bt = self.types[c[1]]
                ln = "n" if bt == VEC_GENERIC else f"{lname(c[1])}.length"
                items.append(f"(List.range {ln})")
                newvars[var] = ("elemref", c[1])
        declared = list(self.types)
        for var, c in zip(pat, comps):
            if c[0] == "elems_mut":
                self.container[var] = c[1]
        svars = [v for v in self.assigned(body, declared) if v not in pat]
        for var in pat:
            self.container.pop(var, None)
        if chunk_base is not None and self.root(chunk_base) in svars:
            self.bad("the loop body modifies the slice it iterates over")
        self.nloops += 1
        k = self.nloops
        name = f"{self.fn.qname}_loop" + ("" if k == 1 else str(k))
        ro = [v for v in self.mentioned(body, [], declared) if v not in svars and v not in pat]
        args = [lname(v) for v in svars + ro]

        def ity(t):
            return "Nat" if t[0] == "elemref" else lean_type(t, self.who)
        item_ty = pty(ity(newvars[pat[0]])) if len(pat) == 1 else "(" + " × ".join(ity(newvars[v]) for v in pat) + ")"
        item_pat = lname(pat[0]) if len(pat) == 1 else "(" + ", ".join(lname(v) for v in pat) + ")"
        stup = self.tup([lname(v) for v in svars]) if svars else None

        def gen():
            for var in pat:
                t = newvars[var]
                if t[0] == "elemref":
                    self.container[var] = t[1]
                    self.types[var] = USIZE
                else:
                    self.types[var] = t

            def fin(L2, pad2, tail):
                if tail is not None:
                    self.expr_stmt(tail, L2, pad2)
                rec = f"{name} rest" + "".join(" " + a for a in args)
                if chunk_var is None:
                    L2.append(f"{pad2}{rec}")
                elif svars:
                    L2.append(f"{pad2}let (done, {stup}) ← {rec}")
                    L2.append(f"{pad2}pure ({lname(chunk_var)} :: done, {stup})")
                else:
                    L2.append(f"{pad2}let done ← {rec}")
                    L2.append(f"{pad2}pure ({lname(chunk_var)} :: done)")
            return self.block(body, "      ", fin)
        bl = self.sub_def(gen)
        stypes = [self.types[v] for v in svars]
        if chunk_var is not None:
            cty = f"List ({lean_type(newvars[chunk_var], self.who)})"
            res = pty(cty) if not svars else "(" + " × ".join([cty] + [lean_type(t, self.who) for t in stypes]) + ")"
            nil = "[]" if not svars else f"([], {stup})"
        elif svars:
            res = self.tuptype(stypes)
            nil = stup
        else:
            self.bad("`for` loop without effect")
        sig = " → ".join([f"List {item_ty}"] + [lean_type(self.types[v], self.who) for v in svars + ro])
        nilpat = ", ".join(["[]"] + [lname(v) for v in svars] + ["_" for _ in ro])
        d = [f"def {name}{self.gen_binder()} : {sig} → R {res}",
             f"  | {nilpat} => pure {nil}",
             "  | " + ", ".join([f"{item_pat} :: rest"] + args) + " => do"]
        d += bl
        d += [f"theorem {name}.equations : True := by   -- realise the unfolding equations here (note above)",
              f"  have := @{name}.eq_1; have := @{name}.eq_2; trivial", ""]
        self.defs.append("\n".join(d))
        its = items[0] if len(items) == 1 else f"(List.zip {items[0]} {items[1]})"
        callrhs = f"{name} {its}" + "".join(" " + a for a in args)
        if chunk_var is None:
            L.append(f"{pad}let {stup} ← {callrhs}")
            return
        v = self.fresh()
        L.append(f"{pad}let {v if not svars else '(' + v + ', ' + stup + ')'} ← {callrhs}")
        b = self.place_term(chunk_base)
        self.assign(chunk_base, f"Rt.writeBack {b} {v}", L, pad)

    # ---- the function itself
    def translate(self):
        fn = self.fn
        if fn.selfkind:
            self.types["self"] = ("struct", fn.owner)
        for n, t in fn.params:
            self.types[n] = t
        outs = fn.outs()

        def fin(L, pad, tail):
            vals = []
            if tail is not None and fn.ret == UNIT:
                self.expr_stmt(tail, L, pad)
                tail = None
            if fn.ret != UNIT:
                if tail is None:
                    self.bad("the function does not end with its value")
                t, ty = self.ex(tail, L, pad, fn.ret)
                vals.append(self.coerce(t, ty, fn.ret, tail))
            for kind, pn in outs:
                if kind == "self":
                    vals.append("self")
                elif kind == "param":
                    vals.append(lname(pn))
            if not vals:
                self.bad("the function has no result and no effect")
            L.append(f"{pad}{'pure ' if self.monadic else ''}{self.tup(vals)}")
        lines = self.block(fn.body, "  ", fin, tail_value=(fn.ret != UNIT))
        text = "\n".join(lines)
        defs = list(self.defs)
        for name, elem in self.pending.items():
            # the type a `[0; N]` local turned out to have
            ty = None
            for cand in self._pending_types.get(name, []):
                ty = cand
            if ty is None or ty[1] is None:
                self.bad(f"the element type of the array `{name}` could not be determined")
            tt, it = lean_type(ty, self.who), self.repeat_term(elem, ty)
            text = text.replace(f"«T:{name}»", tt).replace(f"«I:{name}»", it)
            defs = [d.replace(f"«T:{name}»", tt).replace(f"«I:{name}»", it) for d in defs]
        params = []
        if fn.selfkind:
            params.append(f"(self : {fn.owner})")
        for n, t in fn.params:
            params.append(f"({lname(n)} : {lean_type(t, self.who)})")
        rts = []
        for kind, pn in outs:
            if kind == "ret":
                rts.append(fn.ret)
            elif kind == "self":
                rts.append(("struct", fn.owner))
            else:
                rts.append(dict(fn.params)[pn])
        rt = self.tuptype(rts)
        if self.monadic:
            head = f"def {fn.qname}{self.gen_binder()} {' '.join(params)} : R {rt} := do".replace("  :", " :")
        else:
            head = f"def {fn.qname}{self.gen_binder()} {' '.join(params)} : {rt} :=".replace("  :", " :")
        return defs, head, text

    _pending_types = None


def translate_fn(mod, fn):
    """pure if the body needs no monadic operation, else in the monad R"""
    for monadic in (False, True):
        tr = FnTr(mod, fn, monadic)
        tr._pending_types = {}
        orig_resolve = tr.resolve

        def resolve(name, elem, tr=tr, orig=orig_resolve):
            orig(name, elem)
            tr._pending_types.setdefault(name, []).append(tr.types[name])
        tr.resolve = resolve
        try:
            defs, head, text = tr.translate()
        except NeedMonad:
            continue
        fn.pure = not monadic
        return tr, defs, head, text
    broken(fn.qname, "internal: no translation mode applies")


def call_graph(mod):
    deps = {}
    for q, fn in mod.fns.items():
        ds = []

        def fe(e, fn=fn, ds=ds):
            if e[0] == "call":
                parts = e[1].split("::")
                if len(parts) == 1 and e[1] in mod.fns:
                    ds.append(e[1])
                elif len(parts) == 2:
                    owner = fn.owner if parts[0] == "Self" else parts[0]
                    if f"{owner}.{parts[1]}" in mod.fns:
                        ds.append(f"{owner}.{parts[1]}")
            if e[0] == "method":
                for c in mod.methods_named(e[2]):
                    ds.append(c.qname)
        walk_stmts(fn.body, fe)
        deps[q] = [d for d in dict.fromkeys(ds) if d != q or True]
    return deps


def topo_order(mod):
    deps = call_graph(mod)
    order, state = [], {}

    def visit(q, stack):
        if state.get(q) == 2:
            return
        if state.get(q) == 1:
            # a method name shared by several types (`update`, `len`, `new`) makes the graph coarser than the program;
            # a genuine recursion is reported, a name coincidence is not followed
            if q == stack[-1] and not genuinely_recursive(mod, q):
                return
            broken(q.replace(".", "::"), "recursive functions are not supported")
        state[q] = 1
        for d in deps[q]:
            if d == q and not genuinely_recursive(mod, q):
                continue
            visit(d, stack + [q])
        state[q] = 2
        order.append(q)
    for q in mod.fns:        # source order
        visit(q, [q])
    return order


def genuinely_recursive(mod, q):
    """does q call itself on a receiver of its own type?  (`self.chunk_state.update(..)` inside `Hasher::update` is not)"""
    fn = mod.fns[q]
    hit = []

    def fe(e):
        if e[0] == "call":
            parts = e[1].split("::")
            if (len(parts) == 1 and e[1] == q) or (len(parts) == 2 and f"{fn.owner if parts[0] == 'Self' else parts[0]}.{parts[1]}" == q):
                hit.append(1)
        if e[0] == "method" and e[2] == fn.name and strip_ref(e[1]) == ("var", "self"):
            hit.append(1)
    walk_stmts(fn.body, fe)
    return bool(hit)


def line_of(mod, pos):
    return mod.clean.count("\n", 0, pos) + 1


def gen_ref_impl():
    mod = Module()
    o = ["/- GENERATED by gen/ext_ref.py from /repo/reference_impl/reference_impl.rs -- do not edit",
         "",
         "Statement-level translation of everything in the file except `g`, `round`, `permute`, `compress` (those are",
         "B3/Gen/RefCompress.lean).  Primitive vocabulary: B3/RustRt.lean, B3/Arith.lean.  `debug_assert*!` lines are dropped.",
         "Functions whose body needs no operation that can panic are plain definitions, the others live in the monad `R`;",
         "a `&mut self` method returns the new `self`, a function with a `&mut` slice parameter returns its new contents;",
         "`usize` constants are inlined as numerals (they are also emitted as definitions below). -/",
         "import B3.Prim", "import B3.Arith", "import B3.RustRt", "import B3.Gen.RefCompress",
         "set_option linter.unusedVariables false", "namespace B3.Gen.RefImpl", "open B3", "",
         "-- a reducibility hint only (local to this file): without it Lean's generation of the unfolding equations of the",
         "-- loops below evaluates `compress` symbolically and exceeds the recursion limit",
         "attribute [local irreducible] B3.Gen.Ref.compress", ""]
    o.append("/-! ### constants -/")
    o += mod.const_lean
    o.append("")
    o.append("/-! ### structs -/")
    for name, fields in mod.structs.items():
        o.append(f"/-- `struct {name}` -/")
        o.append(f"structure {name} where")
        for f, t in fields:
            o.append(f"  {f} : {lean_type(t, 'struct ' + name)}")
        o.append("")
    o.append("/-! ### functions -/")
    for q in topo_order(mod):
        fn = mod.fns[q]
        tr, defs, head, text = translate_fn(mod, fn)
        for d in defs:
            o.append(d)
        note = ("; " + ", ".join(dict.fromkeys(tr.notes))) if tr.notes else ""
        o.append(f"/-- `{q.replace('.', '::')}`{note} -/")
        o.append(head)
        o.append(text)
        o.append("")
    o.append("end B3.Gen.RefImpl")
    return "\n".join(o) + "\n"


ARTEFACTS = [("RefImpl.lean", A, gen_ref_impl)]
