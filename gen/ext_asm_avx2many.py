"""G46-asm-avx2-hash-many: the hand-written assembly routine `blake3_hash_many_avx2` (c/blake3_avx2_x86-64_unix.S, the
only routine of that file) -> lean/B3/Gen/AsmAvx2Many.lean: the WHOLE routine (prologue with six pushes and a 64-byte
aligned frame, the 8-way ymm loop with its seven written-out rounds and the 8x8 transposes, the 4-input group (two ymm
register sets, two inputs each), the 2-input and 1-input tails, epilogue) as ONE instruction list over the instruction
type of lean/B3/Asm/Avx2Sem.lean (which gives it a machine semantics), and the file's `.rodata` section as a byte list.

Everything is read from the source text (GNU assembler, `.intel_syntax noprefix`, run through cpp); the file parser
(`.rodata`, comment stripping, syntax checks) is the one of gen/ext_asm_sem.py, the operand parser extends the one of
gen/ext_asm_many.py (G34) by `ymmN` and `ymmword ptr`:
  * the routine = the statements from its label to the start of the next function or, the routine being the last one of
    the file, to the (shape-checked) `#ifdef __APPLE__ / .static_data / #else / .section .rodata / #endif` conditional
    that opens the data section -- NOT to the first `ret` (the tails follow the `ret`); one `Instr` per instruction
    statement, in source order; the last instruction must be a `jmp` or a `ret`;
  * GNU-as local labels `N:` / `Nb` / `Nf` (here `2: 3: 4: 9:`, several definitions of each) are resolved to instruction
    indices: `Nb` = the nearest definition of `N` at or before the jump, `Nf` = the nearest one after it;
  * `.p2align N` lines inside the routine are padding (multi-byte NOPs or nothing); they produce no instruction, while a
    written `nop` IS an instruction (the count is compared with `objdump -d`, see below).  Every other directive inside
    the routine is refused;
  * `_CET_ENDBR` (a macro that is either `endbr64` or empty) -> `endbr64`, architecturally a NOP;
  * operands: `xmmN`, `ymmN` (N <= 15); general purpose registers of width 8 (low byte) / 32 / 64; memory operands
    `<size> ptr [base]`, `[base+disp]`, `[base-disp]`, `[base+index+disp]`, `[base+index-disp]` (scale 1 only) with size
    `byte`/`dword`/`qword`/`xmmword`/`ymmword`, or no size at all (`prefetcht0 [..]`); `<size> ptr [LABEL+rip]`
    -> `.rip <size> <offset of LABEL in the .rodata section>`; immediates (decimal / 0x hex); jump targets;
  * each mnemonic has a table of admissible operand shapes (`SIGS`); a VEX instruction is either all-xmm (VEX.128) or
    all-ymm (VEX.256) except where the instruction itself mixes the widths (`vpbroadcastd ymm, xmm/m32`,
    `vbroadcasti128 ymm, m128`, `vinsertf128/vinserti128 ymm, ymm, xmm/m128, imm8`, `vextracti128 xmm/m128, ymm, imm8`);
    immediates must be encodable for the operand width.
Anything else (unknown mnemonic, operand shape not in the table, scaled index, directive or preprocessor line inside the
routine, label not found, jump that does not resolve inside the routine, ...) raises TranslationBroken.  Nothing but the
padding directives is dropped.

Instruction count: the routine has 1733 statements = instructions.  `gcc -c` + `objdump -d` of the file shows 1741 lines:
the same 1732 instructions other than `_CET_ENDBR` (which is empty unless the file is assembled with -fcf-protection, then
`endbr64`: 1742), per mnemonic exactly the numbers of `histogram` in the generated file (compared by assembling the file: every
mnemonic other than nop agrees), plus 9 padding NOPs (`nop` with operands /
`data16 cs nopw`) that the assembler inserts for the seven `.p2align` lines; the two written `nop`s are counted.
"""
import re

import extract as X
import ext_asm_sem as S
import ext_asm_many as M

ART = "G46-asm-avx2-hash-many"

# operand kinds:
#   x / y = xmm / ymm register
#   my / mx / mq / md / mb = memory operand of 32 / 16 / 8 / 4 / 1 bytes (register-based or [LABEL+rip]); mu = memory operand without size
#   r8 / r32 / r64 = gpr of that width, r = gpr of any width, rr = gpr of the same width as the first operand,
#   mr = memory operand of the size of the register operand of the instruction
#   i8 = immediate 0..255, i = immediate encodable for the width of the first operand, t = jump target
def vex3(extra=()):
    e = tuple(extra)
    return [("x", "x", "x") + e, ("x", "x", "mx") + e, ("y", "y", "y") + e, ("y", "y", "my") + e]


V3 = vex3()
V3I = vex3(("i8",))
V2I = [("x", "x", "i8"), ("x", "mx", "i8"), ("y", "y", "i8"), ("y", "my", "i8")]
VSH = [("x", "x", "i8"), ("y", "y", "i8")]
VMOV = [("x", "x"), ("x", "mx"), ("mx", "x"), ("y", "y"), ("y", "my"), ("my", "y")]
ALU = [("r", "rr"), ("r", "i"), ("r", "mr")]
JCC = [("t",)]
SIGS = {
    "endbr64": [()], "nop": [()], "vzeroupper": [()],
    "vmovups": VMOV, "vmovdqu": VMOV, "vmovaps": VMOV, "vmovdqa": VMOV,
    "vmovd": [("x", "r32"), ("x", "md")],
    "vpinsrd": [("x", "x", "r32", "i8"), ("x", "x", "md", "i8")],
    "vpbroadcastd": [("y", "x"), ("y", "md")],
    "vbroadcasti128": [("y", "mx")],
    "vinsertf128": [("y", "y", "x", "i8"), ("y", "y", "mx", "i8")],
    "vinserti128": [("y", "y", "x", "i8"), ("y", "y", "mx", "i8")],
    "vextracti128": [("x", "y", "i8"), ("mx", "y", "i8")],
    "vperm2f128": [("y", "y", "y", "i8"), ("y", "y", "my", "i8")],
    "vpermq": [("y", "y", "i8"), ("y", "my", "i8")],
    "vpaddd": V3, "vpsubd": V3, "vpxor": V3, "vpor": V3, "vpand": V3, "vpshufb": V3, "vpcmpgtd": V3,
    "vpunpckldq": V3, "vpunpckhdq": V3, "vpunpcklqdq": V3, "vpunpckhqdq": V3,
    "vunpcklps": V3, "vunpckhps": V3, "vunpcklpd": V3, "vunpckhpd": V3,
    "vpslld": VSH, "vpsrld": VSH,
    "vpshufd": V2I,
    "vshufps": V3I, "vpblendd": V3I, "vblendps": V3I,
    "vblendvps": [("x", "x", "x", "x"), ("x", "x", "mx", "x"), ("y", "y", "y", "y"), ("y", "y", "my", "y")],
    "prefetcht0": [("mu",)],
    "push": [("r64",)], "pop": [("r64",)],
    "mov": [("r", "rr"), ("r", "i"), ("r", "mr"), ("mq", "r64"), ("md", "r32")],
    "movzx": [("r32", "r8"), ("r32", "mb")],
    "add": ALU, "sub": ALU, "and": ALU, "or": ALU, "xor": ALU, "cmp": ALU, "test": [("r", "rr"), ("r", "i")],
    "neg": [("r",)], "dec": [("r",)],
    "shl": [("r", "i8")], "shr": [("r", "i8")],
    "cmovne": [("r32", "r32"), ("r64", "r64")], "cmove": [("r32", "r32"), ("r64", "r64")],
    "jz": JCC, "je": JCC, "jnz": JCC, "jne": JCC, "jc": JCC, "jb": JCC, "jnc": JCC, "jae": JCC, "jmp": JCC,
    "ret": [()],
}
# several spellings of one instruction
MN_ALIAS = {"je": "jz", "jne": "jnz", "jb": "jc", "jae": "jnc", "cmovnz": "cmovne", "cmovz": "cmove"}
SIZES = {"byte": "b", "dword": "d", "qword": "q", "xmmword": "x", "ymmword": "y", "": "u"}
SIZE_LEAN = {"b": ".byte", "d": ".dword", "q": ".qword", "x": ".xmmword", "y": ".ymmword", "u": ".unsized"}
SIZE_BYTES = {"b": 1, "d": 4, "q": 8, "x": 16, "y": 32, "u": 0}
WIDTH_SIZE = {"b8": "b", "d32": "d", "q64": "q"}


class Avx2File(S.AsmFile):
    def routine_last(self, name):
        """-> list of (mnemonic, [operand Lean text], source text, line no), labels resolved"""
        starts = [k for k, ln in enumerate(self.lines) if re.fullmatch(rf"\s*{re.escape(name)}\s*:\s*", ln)]
        if len(starts) != 1:
            self.broken(f"{name}: label not found in {self.rel}" if not starts else f"{name}: label defined {len(starts)} times")
        k0 = starts[0]
        # the data section is opened by the conditional whose shape `_parse_rodata` has checked:
        #   #ifdef __APPLE__ / .static_data / #else / .section .rodata / #endif
        stop = self.rodata_line - 3
        if not (self.syntax_line < k0 < stop):
            self.broken(f"{name}: not between `.intel_syntax noprefix` and the .rodata section")
        stmts = []      # (mnemonic, operand strings, line index)
        local = {}      # numeric label -> [instruction indices]
        k = k0 + 1
        while k < stop:
            s = self.lines[k].strip()
            ln = k
            k += 1
            if not s:
                continue
            if ";" in s:
                self.broken(f"{name}: line {ln+1}: `;` statement separator")
            m = S.LABEL_RE.match(s) if not s.startswith(".") and not s.startswith("#") else None
            named = False
            while m:
                lab, s = m.group(1), m.group(2).strip()
                if lab.isdigit():
                    local.setdefault(lab, []).append(len(stmts))
                else:
                    named = True
                    break
                m = S.LABEL_RE.match(s) if s else None
            if named:
                break           # start of another function
            if not s:
                continue
            if s.startswith("#"):
                self.broken(f"{name}: line {ln+1}: preprocessor line inside the routine: `{s}`")
            if s.startswith("."):
                parts = s.split()
                if parts[0] == ".p2align" and len(parts) == 2 and re.fullmatch(r"[0-9]+", parts[1]):
                    continue        # padding: NOPs, no architectural effect
                self.broken(f"{name}: line {ln+1}: directive inside the routine: `{s}`")
            parts = s.split(None, 1)
            mn = parts[0]
            ops = self._split_operands(parts[1], name, ln) if len(parts) > 1 else []
            if mn == "_CET_ENDBR":
                if ops:
                    self.broken(f"{name}: line {ln+1}: `_CET_ENDBR` with operands")
                mn = "endbr64"
            stmts.append((mn, ops, ln))
        if not stmts:
            self.broken(f"{name}: empty routine")
        if stmts[-1][0] not in ("jmp", "ret"):
            self.broken(f"{name}: the last instruction `{stmts[-1][0]}` is neither `jmp` nor `ret` (control would fall out of the routine)")
        self.span(k0, stmts[-1][2])
        out = []
        n = len(stmts)
        for idx, (mn, ops, ln) in enumerate(stmts):
            where = f"{name}: line {ln+1} `{self.lines[ln].strip()}`"
            if mn not in SIGS:
                self.broken(f"{where}: unknown mnemonic `{mn}`")
            parsed = [self._operand3(o, where, idx, local, n) for o in ops]
            ok = False
            for sig in SIGS[mn]:
                if len(sig) == len(parsed) and all(self._fits3(p, sg, parsed) for p, sg in zip(parsed, sig)):
                    ok = True
                    break
            if not ok:
                self.broken(f"{where}: operand shapes {tuple(p[0] + ':' + str(p[2]) for p in parsed)} are not among the modelled forms of `{mn}`")
            if mn in ("shl", "shr") and parsed[0][2] == "b8":
                self.broken(f"{where}: 8-bit shift is not modelled")
            if mn == "mov" and len(parsed) == 2 and parsed[1][0] == "i" and parsed[0][2] == "q64" and parsed[1][2] >= 2 ** 31:
                self.broken(f"{where}: immediate does not fit `mov r64, imm32` without sign extension")
            if mn in ("vinsertf128", "vinserti128", "vextracti128") and parsed[-1][2] > 1:
                self.broken(f"{where}: imm8 > 1 (bits 7:1 are ignored by the instruction; not written that way in the source)")
            out.append((MN_ALIAS.get(mn, mn), [p[1] for p in parsed], self.lines[ln].strip(), ln + 1))
        return out

    @staticmethod
    def _fits3(p, sig, parsed):
        kind, _, extra = p
        if sig in ("x", "y"):
            return kind == sig
        if sig in ("my", "mx", "mq", "md", "mb", "mu"):
            return kind == "m" and extra == sig[1]
        if sig == "mr":
            return kind == "m" and parsed[0][0] == "r" and extra == WIDTH_SIZE[parsed[0][2]]
        if sig == "r":
            return kind == "r"
        if sig == "rr":
            return kind == "r" and parsed[0][0] == "r" and extra == parsed[0][2]
        if sig in ("r8", "r32", "r64"):
            return kind == "r" and extra == {"r8": "b8", "r32": "d32", "r64": "q64"}[sig]
        if sig == "i8":
            return kind == "i" and extra < 256
        if sig == "i":
            if kind != "i" or parsed[0][0] != "r":
                return False
            w = parsed[0][2]
            if w == "b8":
                return extra < 2 ** 8
            if w == "d32":
                return extra < 2 ** 32
            return extra < 2 ** 31 or 2 ** 64 - 2 ** 31 <= extra < 2 ** 64      # sign-extended imm32
        if sig == "t":
            return kind == "t"
        return False

    def _operand3(self, o, where, idx, local, n):
        """-> (kind, Lean text, extra)"""
        m = re.fullmatch(r"([xy])mm(\d+)", o)
        if m:
            r = int(m.group(2))
            if r > 15:
                self.broken(f"{where}: no register {o} in the model (VEX encodings reach 0..15)")
            return (m.group(1), f".{m.group(1)}mm {r}", r)
        m = re.fullmatch(r"(?:(\w+)\s+ptr\s*)?\[([^\[\]]*)\]", o, flags=re.I)
        if not m:
            # registers, immediates, jump targets: as in G34
            return M.ManyFile._operand2(self, o, where, idx, local, n)
        size = (m.group(1) or "").lower()
        if size not in SIZES:
            self.broken(f"{where}: memory operand `{o}`: size `{size}` is not modelled")
        sz = SIZES[size]
        inner = m.group(2).replace(" ", "").replace("\t", "")
        if "*" in inner:
            self.broken(f"{where}: memory operand `{o}`: scaled index is not modelled")
        if not inner:
            self.broken(f"{where}: memory operand `{o}`")
        terms = re.findall(r"([+-]?)([^+-]+)", inner)
        if "".join(sg + t for sg, t in terms) != inner:
            self.broken(f"{where}: memory operand `{o}`")
        regs, disp, labels = [], 0, []
        for sg, t in terms:
            if t in S.REGS or t == "rip":
                if sg == "-":
                    self.broken(f"{where}: memory operand `{o}`: subtracted register")
                regs.append(t)
            elif re.fullmatch(r"0[xX][0-9a-fA-F]+|[0-9]+", t):
                v = S.parse_int(t, self.art, where)
                disp += -v if sg == "-" else v
            elif re.fullmatch(r"[A-Za-z_.$][\w.$]*", t):
                if sg == "-":
                    self.broken(f"{where}: memory operand `{o}`: subtracted label")
                labels.append(t)
            else:
                self.broken(f"{where}: memory operand `{o}`: term `{t}`")
        if not (-2 ** 31 <= disp < 2 ** 31):
            self.broken(f"{where}: displacement out of range")
        if "rip" in regs or labels:
            if regs != ["rip"] or len(labels) != 1 or disp != 0:
                self.broken(f"{where}: memory operand `{o}`: expected [LABEL+rip]")
            lab = labels[0]
            if lab not in self.ro_labels:
                self.broken(f"{where}: label {lab} is not defined in the .rodata section")
            off = self.ro_labels[lab]
            need = SIZE_BYTES[sz]
            if off + need > len(self.rodata):
                self.broken(f"{where}: fewer than {need} bytes of .rodata after {lab}")
            self.used_labels.setdefault(lab, set()).add(sz)
            return ("m", f".rip {SIZE_LEAN[sz]} {off}", sz)
        if not 1 <= len(regs) <= 2 or any(S.REGS[r][1] != "q64" for r in regs):
            self.broken(f"{where}: memory operand `{o}`: expected [reg64], [reg64+disp] or [reg64+reg64+disp]")
        if len(regs) == 2 and regs[1] == "rsp":
            self.broken(f"{where}: memory operand `{o}`: rsp cannot be an index register")
        idxr = f"(some {regs[1]})" if len(regs) == 2 else "none"
        d = f"({disp})" if disp < 0 else f"{disp}"
        return ("m", f".mem {SIZE_LEAN[sz]} {regs[0]} {idxr} {d}", sz)


def words(f, off, n):
    return [int.from_bytes(bytes(f.rodata[off + 4 * i: off + 4 * i + 4]), "little") for i in range(n)]


def gen_avx2many():
    rel = "c/blake3_avx2_x86-64_unix.S"
    f = Avx2File(ART, rel)
    f.used_labels = {}
    sym = "blake3_hash_many_avx2"
    ins = f.routine_last(sym)
    hist = {}
    for mn, _, _, _ in ins:
        hist[mn] = hist.get(mn, 0) + 1
    out = []
    out.append(f"""/- GENERATED by gen/ext_asm_avx2many.py from {rel} -- do not edit.

The AVX2 assembly routine `{sym}` as DATA: one `Instr` per instruction of the source, in source
order, from the routine's label to the conditional that opens the data section (the comment on each
line is the source statement and its index; jump operands are instruction indices, the GNU-as local
labels `2: 3: 4: 9:` resolved by the translator; `_CET_ENDBR` -> `endbr64`; je/jne/jb/jae are
spelled jz/jnz/jc/jnc), and the `.rodata` section of the file as a byte list with the offsets of its
labels.  `.p2align` padding lines inside the routine produce no instruction (NOP padding); the two
written `nop`s are instructions; nothing else is dropped.  The meaning of the instructions is given
by `B3/Asm/Avx2Sem.lean` (`exec`, `step`, `run`); nothing here is executable by itself. -/
import B3.Asm.Avx2Sem
namespace B3.Gen.AsmAvx2Many
open B3 B3.Simd B3.AsmSem.Avx2
open B3.AsmSem (rax rcx rdx rbx rsp rbp rsi rdi r8 r9 r10 r11 r12 r13 r14 r15)

/-- alignment of the start of the `.rodata` section (its first directive) -/
def rodataAlign : Nat := {f.ro_align}

/-- the `.rodata` section, from its alignment directive to the end of the file ({len(f.rodata)} bytes) -/
def rodata : List UInt8 := {S.lean_bytes(f.rodata, f.ro_marks, f.ro_labels)}
""")
    out.append("/-! offsets of the labels of the section -/")
    for name in f.ro_label_order:
        out.append(f"def off_{name} : Nat := {f.ro_labels[name]}")
    out.append("")
    out.append("/-- the 16 bytes at offset `o` of the section as four little-endian doublewords -/")
    out.append("def tableAt (o : Nat) : V4 :=")
    out.append("  #v[le32 (rodata.getD o 0) (rodata.getD (o + 1) 0) (rodata.getD (o + 2) 0) (rodata.getD (o + 3) 0),")
    out.append("     le32 (rodata.getD (o + 4) 0) (rodata.getD (o + 5) 0) (rodata.getD (o + 6) 0) (rodata.getD (o + 7) 0),")
    out.append("     le32 (rodata.getD (o + 8) 0) (rodata.getD (o + 9) 0) (rodata.getD (o + 10) 0) (rodata.getD (o + 11) 0),")
    out.append("     le32 (rodata.getD (o + 12) 0) (rodata.getD (o + 13) 0) (rodata.getD (o + 14) 0) (rodata.getD (o + 15) 0)]")
    out.append("")
    out.append("/-- the 32 bytes at offset `o` of the section as a 256-bit value (low half, high half) -/")
    out.append("def tableAt256 (o : Nat) : Y := ⟨tableAt o, tableAt (o + 16)⟩")
    out.append("")
    out.append("/-! the tables the routine reads (`[LABEL+rip]`), as lanes: 32-byte operands as `Y`, 16-byte ones as `V4`,")
    out.append("4-byte ones as `UInt32` (a label read with several sizes gets one constant per size) -/")
    for name in f.ro_label_order:
        if name not in f.used_labels:
            continue
        off = f.ro_labels[name]
        for sz in sorted(f.used_labels[name]):
            if sz == "y":
                w = words(f, off, 8)
                out.append(f"def {name} : Y := ⟨#v[" + ", ".join(f"0x{x:08X}" for x in w[:4]) + "], #v[" + ", ".join(f"0x{x:08X}" for x in w[4:]) + "]⟩")
                out.append(f"example : tableAt256 off_{name} = {name} := by decide")
            elif sz == "x":
                w = words(f, off, 4)
                nm = name if "y" not in f.used_labels[name] else name + "_x"
                out.append(f"def {nm} : V4 := #v[" + ", ".join(f"0x{x:08X}" for x in w) + "]")
                out.append(f"example : tableAt off_{name} = {nm} := by decide")
            elif sz == "d":
                w = words(f, off, 1)
                out.append(f"def {name}_d : UInt32 := 0x{w[0]:08X}")
                out.append(f"example : (tableAt off_{name})[0] = {name}_d := by decide")
            else:
                f.broken(f"{sym}: label {name} is read with a {SIZE_BYTES[sz]}-byte operand: no constant form for that size")
    out.append("")
    out.append("/-- number of instructions per mnemonic (the translator's own count; compared with `objdump -d` by the check) -/")
    out.append("def histogram : List (String × Nat) := [" + ", ".join(f'("{k}", {v})' for k, v in sorted(hist.items())) + "]")
    out.append("")
    out.append(f"/-- `{sym}` ({len(ins)} instructions, {rel} lines {ins[0][3]}-{ins[-1][3]}) -/")
    out.append("def hash_many : List Instr := [")
    rows = []
    for idx, (mn, ops, text, ln) in enumerate(ins):
        rows.append((f"  I .{mn} [{', '.join(ops)}]", f"-- {idx:4d}: {text}"))
    width = min(max(len(r[0]) for r in rows) + 1, 72)
    for idx, (a, b) in enumerate(rows):
        sep = "," if idx + 1 < len(rows) else ""
        out.append((a + sep).ljust(width + 1) + b)
    out.append("]")
    out.append("")
    out.append(f"#guard hash_many.length == {len(ins)}")
    out.append("")
    out.append("end B3.Gen.AsmAvx2Many")
    return "\n".join(out) + "\n"


ARTEFACTS = [("AsmAvx2Many.lean", ART, gen_avx2many)]
