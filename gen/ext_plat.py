"""
G22-dispatch: the dispatch layers  ->  lean/B3/Gen/Dispatch.lean  (namespace B3.Gen.Dispatch).

  src/platform.rs        enum Platform (variants + #[cfg]s), MAX_SIMD_DEGREE(_OR_2) (the cfg_if! chains), Platform::detect,
                         the *_detected functions, the explicit constructors, simd_degree, the `match self` of
                         compress_in_place / compress_xof / hash_many / xof_many (arms in source order: patterns, cfgs,
                         callee path, arguments), the body of xof_many incl. its portable loop (code in the monad R),
                         words_from_le_bytes_32/64, le_bytes_from_words_32/64 (code in the monad R)
  src/lib.rs             which file each kernel module is (`#[cfg(..)] #[path = ".."] mod ..;`)
  c/blake3_dispatch.c    enum cpu_feature, get_cpu_features (state threading, cpuid / xgetbv as oracles),
                         blake3_compress_in_place / compress_xof / xof_many / hash_many / simd_degree (what each path through
                         the #if / if chain does), the portable loop of blake3_xof_many (code in the monad R)
  c/blake3_impl.h        MAX_SIMD_DEGREE (#if chain)
  src/ffi_*.rs           every wrapper: parameters, assertions, locals, callee, arguments, result; the extern "C" declarations;
                         the assert! of hash_many as code in the monad R

Everything is derived from the source text (comments stripped, whitespace irrelevant).  Vocabulary: lean/B3/DispatchPrim.lean.
A shape that is not understood raises TranslationBroken("G22-dispatch", "<function>: <what>").
"""
import hashlib
import json
import re

import extract as X

A = "G22-dispatch"
PLAT = "src/platform.rs"
LIB = "src/lib.rs"
DISP = "c/blake3_dispatch.c"
IMPL_H = "c/blake3_impl.h"
FFI_FILES = ["src/ffi_sse2.rs", "src/ffi_sse41.rs", "src/ffi_avx2.rs", "src/ffi_avx512.rs", "src/ffi_neon.rs"]


def broken(fn, what):
    raise X.TranslationBroken(A, f"{fn}: {what}")


def q(s):
    return json.dumps(s)


def nows(s):
    return re.sub(r"\s+", "", s)


def lstr(xs):
    return "[" + ", ".join(q(x) for x in xs) + "]"


_stripped = {}


def stripped(rel):
    """source with comments removed; line structure is preserved"""
    if rel not in _stripped:
        try:
            _stripped[rel] = X.strip_comments(X.src(rel))
        except OSError as ex:
            raise X.TranslationBroken(A, f"cannot read {rel}: {ex}")
    return _stripped[rel]


def record(rel, S, start, end):
    """record the span (offsets in the stripped text; lines are the same as in the original)"""
    l0 = S.count("\n", 0, start) + 1
    l1 = S.count("\n", 0, end) + 1
    lines = X.src(rel).split("\n")[l0 - 1:l1]
    X.SPANS.append((A, rel, l0, l1, hashlib.sha256("\n".join(lines).encode()).hexdigest()[:16]))


def skip_ws(t, i):
    while i < len(t) and t[i].isspace():
        i += 1
    return i


# ------------------------------------------------------------------------------------------------
# cfg predicates and attributes


def parse_cfg(text, fn):
    toks = re.findall(r'"[^"]*"|\w+|[(),=]', text)
    if "".join(toks) != nows(text):
        broken(fn, f"cfg predicate {text!r} not understood")
    pos = [0]

    def peek():
        return toks[pos[0]] if pos[0] < len(toks) else None

    def nxt():
        t = peek()
        pos[0] += 1
        return t

    def pred():
        name = nxt()
        if name is None or not re.match(r"^\w+$", name):
            broken(fn, f"cfg predicate {text!r} not understood")
        if name in ("any", "all", "not") and peek() == "(":
            nxt()
            items = []
            while peek() != ")":
                if peek() is None:
                    broken(fn, f"cfg predicate {text!r}: unbalanced")
                items.append(pred())
                if peek() == ",":
                    nxt()
            nxt()
            if name == "not":
                if len(items) != 1:
                    broken(fn, f"cfg predicate {text!r}: not() takes one argument")
                return f"(.not {items[0]})"
            op, unit = (".or", ".ff") if name == "any" else (".and", ".tt")
            if not items:
                return unit
            acc = items[-1]
            for it in reversed(items[:-1]):
                acc = f"({op} {it} {acc})"
            return acc
        if peek() == "=":
            nxt()
            v = nxt()
            if v is None or not v.startswith('"'):
                broken(fn, f"cfg predicate {text!r}: string expected after =")
            return f"(.kv {q(name)} {v})"
        return f"(.flag {q(name)})"

    r = pred()
    if peek() is not None:
        broken(fn, f"cfg predicate {text!r}: trailing tokens")
    return r


def take_attrs(t, i):
    attrs = []
    while True:
        i = skip_ws(t, i)
        if t.startswith("#[", i):
            j = X.match_brace(t, i + 1, "[", "]")
            attrs.append(t[i + 2:j - 1].strip())
            i = j
        else:
            return attrs, i


def attrs_before(S, pos):
    attrs = []
    i = pos
    while True:
        j = i
        while j > 0 and S[j - 1].isspace():
            j -= 1
        if j > 0 and S[j - 1] == "]":
            depth, k = 0, j - 1
            while k >= 0:
                if S[k] == "]":
                    depth += 1
                elif S[k] == "[":
                    depth -= 1
                    if depth == 0:
                        break
                k -= 1
            if k >= 1 and S[k - 1] == "#":
                attrs.insert(0, S[k + 1:j - 1].strip())
                i = k - 1
                continue
        return attrs, i


IGNORED_ATTR = re.compile(r"^(allow|inline|derive|doc|unsafe|must_use)\b")


def cfgs_of(attrs, fn):
    out = []
    for a in attrs:
        m = re.match(r"^cfg\s*\((.*)\)$", a, re.S)
        if m:
            out.append(parse_cfg(m.group(1), fn))
        elif IGNORED_ATTR.match(a):
            continue
        else:
            broken(fn, f"attribute #[{a}] not understood")
    return out


def lcfgs(cs):
    return "[" + ", ".join(cs) + "]"


def find_fn_ex(rel, header_re, fn):
    """(attrs, params text, return type text, body text) of the function whose header matches; comments are stripped"""
    S = stripped(rel)
    ms = list(re.finditer(header_re, S))
    if not ms:
        broken(fn, f"function header /{header_re}/ not found in {rel}")
    if len(ms) > 1:
        broken(fn, f"function header /{header_re}/ is ambiguous in {rel}")
    m = ms[0]
    attrs, a0 = attrs_before(S, m.start())
    p0 = S.index("(", m.start())
    p1 = X.match_brace(S, p0, "(", ")")
    b0 = S.index("{", p1)
    ret = S[p1:b0].strip()
    if ret.startswith("->"):
        ret = ret[2:].strip()
    elif ret:
        broken(fn, f"unexpected text {ret!r} between parameters and body")
    b1 = X.match_brace(S, b0)
    record(rel, S, a0, b1)
    return attrs, S[p0 + 1:p1 - 1], ret, S[b0 + 1:b1 - 1]


def rs_params(params, fn):
    """[(name, type, is_mut)] without the receiver; has_self"""
    out, has_self = [], False
    for p in X.split_args(params):
        p = p.strip()
        if not p:
            continue
        if re.match(r"^&?\s*(mut\s+)?self$", p):
            has_self = True
            continue
        m = re.match(r"^(mut\s+)?(\w+)\s*:\s*(.+)$", p, re.S)
        if not m:
            broken(fn, f"parameter {p!r} not understood")
        out.append((m.group(2), re.sub(r"\s+", " ", m.group(3).strip()), bool(m.group(1))))
    return out, has_self


# ------------------------------------------------------------------------------------------------
# Rust statements (the subset used by the dispatch layer)


def block_after(t, i, fn):
    """t[i:] = `<header> { block }`: (header, block text, index after)"""
    depth, k = 0, i
    while k < len(t):
        c = t[k]
        if c in "([":
            depth += 1
        elif c in ")]":
            depth -= 1
        elif c == "{" and depth == 0:
            e = X.match_brace(t, k)
            return t[i:k].strip(), t[k + 1:e - 1], e
        elif c == ";" and depth == 0:
            break
        k += 1
    broken(fn, f"block expected after {t[i:i + 40]!r}")


def rs_nodes(t, fn):
    """statements of a Rust block:
    ('cfgblock', cfgs, nodes) ('if', cond, nodes, else nodes | None) ('iflet', pat, expr, nodes) ('for', pat, expr, nodes)
    ('match', scrutinee, arms text, let name | None) ('return', expr | None) ('macro', name, args) ('let', text)
    ('stmt', text) ('tail', text) ('unsafe', nodes)"""
    out = []
    i, n = 0, len(t)
    while True:
        i = skip_ws(t, i)
        if i >= n:
            break
        attrs, j = take_attrs(t, i)
        if attrs:
            j = skip_ws(t, j)
            if j < n and t[j] == "{":
                e = X.match_brace(t, j)
                out.append(("cfgblock", cfgs_of(attrs, fn), rs_nodes(t[j + 1:e - 1], fn)))
                i = e
                continue
            broken(fn, f"attribute on something that is not a block: {t[i:i + 60]!r}")
        m = re.match(r"if\s+let\s+", t[i:])
        if m:
            hdr, blk, e = block_after(t, i + m.end(), fn)
            if "=" not in hdr:
                broken(fn, f"if let without `=`: {hdr!r}")
            pat, ex = hdr.split("=", 1)
            if re.match(r"\s*else\b", t[e:]):
                broken(fn, "if let .. else is not supported")
            out.append(("iflet", pat.strip(), ex.strip(), rs_nodes(blk, fn)))
            i = e
            continue
        m = re.match(r"if\b", t[i:])
        if m:
            cond, blk, e = block_after(t, i + m.end(), fn)
            els = None
            m2 = re.match(r"\s*else\s*\{", t[e:])
            if m2:
                k = e + m2.end() - 1
                e2 = X.match_brace(t, k)
                els = rs_nodes(t[k + 1:e2 - 1], fn)
                e = e2
            elif re.match(r"\s*else\b", t[e:]):
                broken(fn, "else-if chains are not supported")
            out.append(("if", cond, rs_nodes(blk, fn), els))
            i = e
            continue
        m = re.match(r"for\s+(\w+)\s+in\s+", t[i:])
        if m:
            ex, blk, e = block_after(t, i + m.end(), fn)
            out.append(("for", m.group(1), ex, rs_nodes(blk, fn)))
            i = e
            continue
        m = re.match(r"(?:let\s+(\w+)\s*=\s*)?match\s+", t[i:])
        if m:
            scrut, blk, e = block_after(t, i + m.end(), fn)
            if m.group(1):
                e = skip_ws(t, e)
                if t[e:e + 1] != ";":
                    broken(fn, "`let x = match .. { }` must end with `;`")
                e += 1
            out.append(("match", scrut, blk, m.group(1)))
            i = e
            continue
        m = re.match(r"unsafe\s*\{", t[i:])
        if m:
            k = i + m.end() - 1
            e = X.match_brace(t, k)
            out.append(("unsafe", rs_nodes(t[k + 1:e - 1], fn)))
            i = e
            continue
        # simple statement up to `;` at depth 0, or the tail expression
        depth, k = 0, i
        while k < n:
            c = t[k]
            if c in "([{":
                depth += 1
            elif c in ")]}":
                depth -= 1
            elif c == ";" and depth == 0:
                break
            k += 1
        s = t[i:k].strip()
        if k >= n:
            out.append(("tail", s))
            break
        i = k + 1
        m = re.match(r"^return\b\s*(.*)$", s, re.S)
        if m:
            out.append(("return", m.group(1).strip() or None))
            continue
        m = re.match(r"^([\w:]+)!\s*\((.*)\)$", s, re.S)
        if m:
            out.append(("macro", m.group(1), m.group(2)))
            continue
        if s.startswith("let "):
            out.append(("let", s))
            continue
        out.append(("stmt", s))
    return out


def parse_call(s, fn):
    m = re.match(r"^([\w:]+)\s*\((.*)\)$", s.strip(), re.S)
    if not m:
        broken(fn, f"call expression expected, found {s.strip()[:80]!r}")
    return m.group(1), [nows(a) for a in X.split_args(m.group(2))]


def parse_arms(t, fn, variants):
    """arms of `match self { .. }`: [(pats, cfgs, kind, body text)] with kind in expr | unsafe | block"""
    arms = []
    i, n = 0, len(t)
    while True:
        i = skip_ws(t, i)
        if i >= n:
            break
        attrs, i = take_attrs(t, i)
        i = skip_ws(t, i)
        j = t.find("=>", i)
        if j < 0:
            broken(fn, f"match arm without `=>`: {t[i:i + 60]!r}")
        pat = t[i:j].strip()
        if pat == "_":
            pats = []
        else:
            pats = []
            for p in pat.split("|"):
                m = re.match(r"^\s*Platform::(\w+)\s*$", p)
                if not m or m.group(1) not in variants:
                    broken(fn, f"match pattern {pat!r} not understood")
                pats.append(m.group(1))
        i = skip_ws(t, j + 2)
        m = re.match(r"unsafe\s*\{", t[i:])
        if m:
            k = i + m.end() - 1
            e = X.match_brace(t, k)
            kind, body, i = "unsafe", t[k + 1:e - 1], e
        elif t[i:i + 1] == "{":
            e = X.match_brace(t, i)
            kind, body, i = "block", t[i + 1:e - 1], e
        else:
            depth, k = 0, i
            while k < n:
                c = t[k]
                if c in "([{":
                    depth += 1
                elif c in ")]}":
                    depth -= 1
                elif c == "," and depth == 0:
                    break
                k += 1
            kind, body, i = "expr", t[i:k], k
        i = skip_ws(t, i)
        if t[i:i + 1] == ",":
            i += 1
        arms.append((pats, cfgs_of(attrs, fn), kind, body.strip()))
    if not arms:
        broken(fn, "match without arms")
    return arms


def lean_pats(pats):
    return "[" + ", ".join("." + p for p in pats) + "]"


# ------------------------------------------------------------------------------------------------
# src/platform.rs: enum Platform, MAX_SIMD_DEGREE


def gen_enum(o):
    S = stripped(PLAT)
    ms = list(re.finditer(r"pub\s+enum\s+Platform\s*\{", S))
    if len(ms) != 1:
        broken("enum Platform", "declaration not found (or ambiguous) in src/platform.rs")
    m = ms[0]
    b0 = m.end() - 1
    b1 = X.match_brace(S, b0)
    _, a0 = attrs_before(S, m.start())
    record(PLAT, S, a0, b1)
    body = S[b0 + 1:b1 - 1]
    variants = []
    i = 0
    while True:
        attrs, i = take_attrs(body, i)
        i = skip_ws(body, i)
        if i >= len(body):
            if attrs:
                broken("enum Platform", "attributes without a variant")
            break
        m2 = re.match(r"(\w+)\s*(,|$)", body[i:])
        if not m2:
            broken("enum Platform", f"variant {body[i:i + 40]!r} is not a unit variant")
        if m2.group(1) in [v for v, _ in variants]:
            broken("enum Platform", f"variant {m2.group(1)} declared twice")
        variants.append((m2.group(1), cfgs_of(attrs, "enum Platform")))
        i += m2.end()
    if not variants:
        broken("enum Platform", "no variants")
    o.append("/-- `enum Platform` (src/platform.rs): every variant, whether or not the build has it (see `Platform.cfgs`) -/")
    o.append("inductive Platform where")
    for v, _ in variants:
        o.append(f"  | {v}")
    o.append("deriving DecidableEq, Repr")
    o.append("")
    o.append("def Platform.all : List Platform := [" + ", ".join("." + v for v, _ in variants) + "]")
    o.append("")
    o.append("/-- the `#[cfg]` attributes on each variant -/")
    o.append("def Platform.cfgs : Platform → List Cfg")
    for v, cs in variants:
        o.append(f"  | .{v} => {lcfgs(cs)}")
    o.append("")
    o.append("/-- the variant exists in build `b` -/")
    o.append("def Platform.available (b : Build) (p : Platform) : Bool := b.on p.cfgs")
    o.append("")
    return [v for v, _ in variants]


def cfg_if_chain(t, fn):
    i = skip_ws(t, 0)
    out = []
    while True:
        m = re.match(r"if\s*", t[i:])
        if not m or not t.startswith("#[", i + m.end()):
            broken(fn, f"cfg_if!: `if #[cfg(..)]` expected at {t[i:i + 40]!r}")
        i += m.end()
        j = X.match_brace(t, i + 1, "[", "]")
        cs = cfgs_of([t[i + 2:j - 1].strip()], fn)
        if len(cs) != 1:
            broken(fn, "cfg_if!: the condition is not a cfg attribute")
        i = skip_ws(t, j)
        if t[i:i + 1] != "{":
            broken(fn, "cfg_if!: block expected")
        e = X.match_brace(t, i)
        out.append((cs[0], t[i + 1:e - 1]))
        i = skip_ws(t, e)
        if i >= len(t):
            return out
        m = re.match(r"else\s*", t[i:])
        if not m:
            broken(fn, f"cfg_if!: `else` expected at {t[i:i + 40]!r}")
        i += m.end()
        if t[i:i + 1] == "{":
            e = X.match_brace(t, i)
            out.append((None, t[i + 1:e - 1]))
            if skip_ws(t, e) < len(t):
                broken(fn, "cfg_if!: text after the final else block")
            return out


def cfg_if_value(inner, name, fn):
    inner = inner.strip()
    m = re.match(r"^cfg_if::cfg_if!\s*\{", inner)
    if m:
        e = X.match_brace(inner, m.end() - 1)
        if inner[e:].strip():
            broken(fn, "cfg_if!: more than the nested cfg_if! in a branch")
        chain = cfg_if_chain(inner[m.end():e - 1], fn)
        if chain[-1][0] is not None:
            broken(fn, "cfg_if!: no final else branch (the constant would be undefined in some builds)")
        return ("chain", [(c, cfg_if_value(txt, name, fn)) for c, txt in chain])
    m = re.match(r"^pub\s+const\s+(\w+)\s*:\s*usize\s*=\s*(\d+)\s*;$", inner)
    if m and m.group(1) == name:
        return ("val", int(m.group(2)))
    broken(fn, f"cfg_if! branch {inner[:60]!r} not understood")


def emit_cfgval(v, ind):
    if v[0] == "val":
        return [ind + str(v[1])]
    lines = []
    for idx, (c, sub) in enumerate(v[1]):
        if c is not None:
            lines.append(ind + ("if" if idx == 0 else "else if") + f" Cfg.eval b {c} then")
        else:
            lines.append(ind + "else")
        lines += emit_cfgval(sub, ind + "  ")
    return lines


def gen_max_degree(o):
    S = stripped(PLAT)
    for name in ["MAX_SIMD_DEGREE", "MAX_SIMD_DEGREE_OR_2"]:
        found = []
        for m in re.finditer(r"(?m)^cfg_if::cfg_if!\s*\{", S):
            e = X.match_brace(S, m.end() - 1)
            if re.search(r"\bconst\s+%s\s*:" % name, S[m.start():e]):
                found.append((m.start(), e))
        if len(found) != 1:
            broken(name, "exactly one top-level cfg_if! defining it expected in src/platform.rs")
        s0, e0 = found[0]
        record(PLAT, S, s0, e0)
        v = cfg_if_value(S[s0:e0], name, name)
        o.append(f"/-- `{name}` (the `cfg_if!` chain of src/platform.rs) -/")
        o.append(f"def {name} (b : Build) : Nat :=")
        o.extend(emit_cfgval(v, "  "))
        o.append("")


def gen_modules(o):
    S = stripped(LIB)
    rows = []
    for m in re.finditer(r"(?m)^(?:pub\s+)?mod\s+(\w+)\s*;", S):
        attrs, a0 = attrs_before(S, m.start())
        path = None
        rest = []
        for a in attrs:
            mp = re.match(r'^path\s*=\s*"([^"]*)"$', a)
            if mp:
                path = mp.group(1)
            else:
                rest.append(a)
        if path is None and m.group(1) != "portable":
            continue
        record(LIB, S, a0, m.end())
        rows.append((m.group(1), cfgs_of(rest, f"mod {m.group(1)}"), path or (m.group(1) + ".rs")))
    if not rows:
        broken("kernel modules", "no `#[path = ..] mod ..;` declarations found in src/lib.rs")
    o.append("/-- src/lib.rs: which file each kernel module is, per cfg: (module, cfgs, file) -/")
    o.append("def kernelModules : List (String × List Cfg × String) := [")
    o.append(",\n".join(f"  ({q(n)}, {lcfgs(cs)}, {q(p)})" for n, cs, p in rows) + "]")
    o.append("")


# ------------------------------------------------------------------------------------------------
# src/platform.rs: detect, *_detected, constructors  (functions whose control flow is `return`)


class RetFn:
    def __init__(self, fn, variants, detected, reads=None):
        self.fn, self.variants, self.detected = fn, variants, detected
        self.reads = reads or {}
        self.cpu_mods = {}
        self.bound = set()

    def expr(self, e):
        e = e.strip()
        m = re.match(r"^(?:Platform|Self)::(\w+)$", e)
        if m:
            if m.group(1) not in self.variants:
                broken(self.fn, f"{e} is not a variant of Platform")
            return f"Platform.{m.group(1)}"
        if e in ("true", "false"):
            return e
        if e == "None":
            return "none"
        m = re.match(r"^Some\s*\((.*)\)$", e, re.S)
        if m:
            return f"(some {self.expr(m.group(1))})"
        m = re.match(r"^cfg!\s*\((.*)\)$", e, re.S)
        if m:
            return f"(Cfg.eval b {parse_cfg(m.group(1), self.fn)})"
        m = re.match(r"^(\w+)\s*\(\s*\)$", e)
        if m and m.group(1) in self.detected:
            return f"({m.group(1)} b cpu)"
        m = re.match(r"^(\w+)::get\s*\(\s*\)$", e)
        if m and m.group(1) in self.cpu_mods:
            return f"({lstr(self.cpu_mods[m.group(1)])}.all cpu)"
        m = re.match(r"^!\s*(.+)$", e, re.S)
        if m:
            return f"(!{self.expr(m.group(1))})"
        if nows(e) in self.reads:
            return self.reads[nows(e)]
        if e in self.bound:
            return e
        broken(self.fn, f"expression {e!r} not understood")

    def noop(self, n):
        if n[0] == "macro" and n[1] == "cpufeatures::new":
            args = [a.strip() for a in X.split_args(n[2])]
            if len(args) < 2 or not re.match(r"^\w+$", args[0]) or not all(re.match(r'^"[^"]*"$', a) for a in args[1:]):
                broken(self.fn, f"cpufeatures::new!({n[2]}) not understood")
            self.cpu_mods[args[0]] = [a[1:-1] for a in args[1:]]
            return True
        if n[0] == "macro" and n[1] in ("debug_assert", "debug_assert_eq", "debug_assert_ne"):
            return True
        return False

    def stmt(self, n, ind):
        k = n[0]
        if k == "cfgblock":
            return [f"{ind}cfgBlock b {lcfgs(n[1])} ("] + self.chain(n[2], ind + "  ") + [f"{ind}  )"]
        if k == "if" and n[3] is None:
            return [f"{ind}ifThen {self.expr(n[1])} ("] + self.chain(n[2], ind + "  ") + [f"{ind}  )"]
        if k == "if":
            return [f"{ind}(if {self.expr(n[1])} then"] + self.chain(n[2], ind + "  ") + [f"{ind} else"] + self.chain(n[3], ind + "  ") + [f"{ind} )"]
        if k == "iflet":
            m = re.match(r"^Some\s*\(\s*(\w+)\s*\)$", n[1])
            if not m:
                broken(self.fn, f"if let pattern {n[1]!r} not understood")
            ex = self.expr(n[2])
            self.bound.add(m.group(1))
            body = self.chain(n[3], ind + "    ")
            self.bound.discard(m.group(1))
            return [f"{ind}(match {ex} with", f"{ind}  | some {m.group(1)} =>"] + body + [f"{ind}  | none => none)"]
        if k == "return":
            if n[1] is None:
                broken(self.fn, "`return;` in a function that returns a value")
            return [f"{ind}some {self.expr(n[1])}"]
        broken(self.fn, f"statement {n!r} not understood")

    def chain(self, nodes, ind):
        items = []
        for n in nodes:
            if self.noop(n):
                continue
            if n[0] == "tail":
                broken(self.fn, f"value {n[1]!r} in statement position")
            items.append(self.stmt(n, ind + "  "))
        if not items:
            return [ind + "none"]
        if len(items) == 1:
            return items[0]
        out = [ind + "first ["]
        for k, it in enumerate(items):
            if k < len(items) - 1:
                it = it[:-1] + [it[-1] + ","]
            out += it
        out[-1] += "]"
        return out

    def value(self, nodes, ind):
        if not nodes:
            broken(self.fn, "block without a value")
        pre, last = nodes[:-1], nodes[-1]
        pre_l = self.chain(pre, ind + "  ")
        if last[0] == "tail":
            t = [f"{ind}  {self.expr(last[1])}"]
        elif last[0] == "if" and last[3] is not None:
            t = [f"{ind}  (if {self.expr(last[1])} then"] + self.value(last[2], ind + "    ") + [f"{ind}   else"] + self.value(last[3], ind + "    ") + [f"{ind}  )"]
        else:
            broken(self.fn, f"the block does not end in a value: {last!r}")
        if pre_l == [ind + "  none"]:
            return t
        return [f"{ind}Option.getD ("] + pre_l + [f"{ind}  ) ("] + t + [f"{ind}  )"]


DETECTED = ["avx512_detected", "avx2_detected", "sse41_detected", "sse2_detected"]
CTORS = ["portable", "sse2", "sse41", "avx2", "avx512", "neon", "wasm32_simd"]


def gen_detect(o, variants):
    for name in DETECTED:
        attrs, params, ret, body = find_fn_ex(PLAT, rf"pub\s+fn\s+{name}\s*\(", name)
        if params.strip() or ret != "bool":
            broken(name, "signature is not `fn() -> bool`")
        tr = RetFn(name, variants, [])
        lines = tr.value(rs_nodes(body, name), "")
        o.append(f"/-- the `#[cfg]`s on `{name}` -/")
        o.append(f"def {name}_cfgs : List Cfg := {lcfgs(cfgs_of(attrs, name))}")
        o.append(f"/-- `platform::{name}()`; `cpu f` = the `cpufeatures` crate reports target feature `f` at run time -/")
        o.append(f"def {name} (b : Build) (cpu : String → Bool) : Bool :=")
        o.extend(lines)
        o.append("")
    attrs, params, ret, body = find_fn_ex(PLAT, r"pub\s+fn\s+detect\s*\(", "detect")
    if params.strip() or ret != "Self":
        broken("detect", "signature is not `fn() -> Self`")
    tr = RetFn("detect", variants, DETECTED, reads={"verif_hooks::platform_override()": "platform_override"})
    lines = tr.value(rs_nodes(body, "detect"), "")
    o.append("/-- `Platform::detect()`; `platform_override` = what `verif_hooks::platform_override()` returns (the thread-local "
             "override of the verification hook; only read under `cfg(blake3_team_blake3_verif)`) -/")
    o.append("def detect (b : Build) (cpu : String → Bool) (platform_override : Option Platform) : Platform :=")
    o.extend(lines)
    o.append("")
    for name in CTORS:
        attrs, params, ret, body = find_fn_ex(PLAT, rf"pub\s+fn\s+{name}\s*\(\s*\)", f"Platform::{name}")
        if ret not in ("Self", "Option<Self>"):
            broken(f"Platform::{name}", f"return type {ret!r} not understood")
        tr = RetFn(f"Platform::{name}", variants, DETECTED)
        lines = tr.value(rs_nodes(body, f"Platform::{name}"), "")
        o.append(f"def ctor_{name}_cfgs : List Cfg := {lcfgs(cfgs_of(attrs, name))}")
        o.append(f"/-- `Platform::{name}()` -/")
        o.append(f"def ctor_{name} (b : Build) (cpu : String → Bool) : " + ("Platform" if ret == "Self" else "Option Platform") + " :=")
        o.extend(lines)
        o.append("")


# ------------------------------------------------------------------------------------------------
# src/platform.rs: simd_degree and the four dispatching methods


def arm_body(kind, body, fn):
    """RBody term of a dispatch arm"""
    if kind == "block" and re.match(r"^for\b", body):
        return ".loop", None
    path, args = parse_call(body, fn)
    segs = path.split("::")
    return f".call ⟨{lstr(segs)}, {lstr(args)}, {'true' if kind == 'unsafe' else 'false'}⟩", (segs, args)


def gen_methods(o, variants):
    # simd_degree
    attrs, params, ret, body = find_fn_ex(PLAT, r"pub\s+fn\s+simd_degree\s*\(", "simd_degree")
    nodes = rs_nodes(body, "simd_degree")
    if not (len(nodes) == 3 and nodes[0][0] == "match" and nodes[0][1] == "self" and nodes[0][3] and nodes[1][0] == "macro"
            and nodes[1][1].startswith("debug_assert") and nodes[2] == ("tail", nodes[0][3])):
        broken("simd_degree", "body is not `let d = match self { .. }; debug_assert!(..); d`")
    arms = parse_arms(nodes[0][2], "simd_degree", variants)
    rows = []
    for pats, cs, kind, b in arms:
        if kind != "expr" or not re.match(r"^\d+$", b):
            broken("simd_degree", f"arm body {b!r} is not an integer literal")
        rows.append(f"  ⟨{lean_pats(pats)}, {lcfgs(cs)}, {int(b)}⟩")
    o.append(f"/-- `Platform::simd_degree`: the arms of its `match self`, in source order.  Dropped: `debug_assert!({nows(nodes[1][2])})` "
             "(proved instead: `simd_degree_le_max`) -/")
    o.append("def simd_degree_arms : List (Arm Platform Nat) := [")
    o.append(",\n".join(rows) + "]")
    o.append("def simd_degree (b : Build) (self : Platform) : Option Nat := select b simd_degree_arms self")
    o.append("")
    sigs = {}
    for name in ["compress_in_place", "compress_xof", "hash_many", "xof_many"]:
        attrs, params, ret, body = find_fn_ex(PLAT, rf"pub\s+fn\s+{name}\s*[<(]", name)
        ps, has_self = rs_params(params, name)
        if not has_self:
            broken(name, "no self receiver")
        nodes = rs_nodes(body, name)
        pre, last = nodes[:-1], nodes[-1]
        if not (last[0] == "match" and last[1] == "self" and last[3] is None):
            broken(name, "body does not end in `match self { .. }`")
        if name != "xof_many" and pre:
            broken(name, f"statements before the match: {pre!r}")
        arms = parse_arms(last[2], name, variants)
        rows = []
        for pats, cs, kind, b in arms:
            term, call = arm_body(kind, b, name)
            if term == ".loop" and name != "xof_many":
                broken(name, "a loop in a dispatch arm")
            rows.append(f"  ⟨{lean_pats(pats)}, {lcfgs(cs)}, {term}⟩")
        o.append(f"/-- `Platform::{name}`: parameters (without `self`), return type, the arms of its `match self` in source order -/")
        o.append(f"def {name}_params : List String := {lstr([p for p, _, _ in ps])}")
        o.append(f"def {name}_param_types : List String := {lstr([nows(t) for _, t, _ in ps])}")
        o.append(f"def {name}_ret : String := {q(nows(ret))}")
        o.append(f"def {name}_arms : List (Arm Platform RBody) := [")
        o.append(",\n".join(rows) + "]")
        o.append(f"def {name}_dispatch (b : Build) (self : Platform) : Option RBody := select b {name}_arms self")
        o.append("")
        sigs[name] = (ps, ret, pre, arms)
    return sigs


LEAN_TY = {"&CVWords": "Cv", "&[u8;BLOCK_LEN]": "Blk", "u8": "UInt8", "u64": "Nat", "&mut[u8]": "List UInt8"}


def gen_xof_many(o, sigs, consts):
    fn = "xof_many"
    ps, ret, pre, arms = sigs[fn]
    if ret:
        broken(fn, "unexpected return type")
    tys = {}
    for p, t, mut in ps:
        if nows(t) not in LEAN_TY:
            broken(fn, f"parameter type {t!r} not understood")
        tys[p] = LEAN_TY[nows(t)]
    names = [p for p, _, _ in ps]
    if names[-1:] != ["out"] or tys["out"] != "List UInt8":
        broken(fn, "the last parameter is not `out: &mut [u8]`")
    cx = sigs["compress_xof"][0]
    cx_tys = [LEAN_TY.get(nows(t)) for _, t, _ in cx]
    if None in cx_tys or nows(sigs["compress_xof"][1]) != "[u8;64]":
        broken(fn, "signature of compress_xof not understood")
    # ---- the portable loop (the `_` arm)
    loops = [(pats, cs, b) for pats, cs, kind, b in arms if kind == "block" and re.match(r"^for\b", b)]
    if len(loops) != 1 or loops[0][0] != [] or loops[0][1] != []:
        broken(fn, "exactly one loop arm, on the wildcard pattern without cfg, expected")
    lnodes = rs_nodes(loops[0][2], fn)
    if len(lnodes) != 1 or lnodes[0][0] != "for":
        broken(fn, "the `_` arm is not a single `for` loop")
    _, var, it, body = lnodes[0]
    m = re.match(r"^(\w+)\.chunks_exact_mut\((.+)\)$", it.strip(), re.S)
    if not m or m.group(1) != "out":
        broken(fn, f"loop iterator {it!r} is not out.chunks_exact_mut(..)")
    step = X.const_eval(subst_consts(X.parse_expr(m.group(2)), consts))
    if step is None or step <= 0:
        broken(fn, f"chunk size {m.group(2)!r} is not a positive constant")
    muts = [p for p, _, mut in ps if mut]
    lines = []
    alias = {}
    state = []
    scope = {var: "List UInt8"}
    for n in body:
        if n[0] == "let":
            mm = re.match(r"^let\s+(\w+)\s*:\s*&mut\s*\[u8;\s*([\w ]+?)\s*\]\s*=\s*(\w+)\.try_into\(\)\.unwrap\(\)$", n[1], re.S)
            if not mm or mm.group(3) not in scope:
                broken(fn, f"loop statement {n[1]!r} not understood")
            ln = X.const_eval(subst_consts(X.parse_expr(mm.group(2)), consts))
            if ln is None:
                broken(fn, f"array length {mm.group(2)!r} is not a constant")
            lines.append(f"    let {mm.group(1)} ← Rt.tryIntoBytes {ln} {mm.group(3)}")
            alias[mm.group(1)] = mm.group(3)
            scope[mm.group(1)] = "List UInt8"
            continue
        if n[0] == "stmt":
            mm = re.match(r"^\*\s*(\w+)\s*=\s*self\.compress_xof\((.*)\)$", n[1], re.S)
            if mm and mm.group(1) in alias:
                args = [a.strip() for a in X.split_args(mm.group(2))]
                for a in args:
                    if a not in tys:
                        broken(fn, f"argument {a!r} of self.compress_xof is not a parameter")
                if [tys[a] for a in args] != cx_tys:
                    broken(fn, f"self.compress_xof({', '.join(args)}): argument types do not fit its signature")
                lines.append(f"    let {mm.group(1)} := compress_xof {' '.join(args)}")
                lines.append(f"    let {alias[mm.group(1)]} := {mm.group(1)}   -- `{mm.group(1)}` is a reborrow of the whole of `{alias[mm.group(1)]}`")
                continue
            mm = re.match(r"^(\w+)\s*\+=\s*(\d+)$", n[1])
            if mm and mm.group(1) in muts and tys[mm.group(1)] == "Nat":
                lines.append(f"    let {mm.group(1)} ← Arith.cadd {mm.group(1)} {int(mm.group(2))}")
                if mm.group(1) not in state:
                    state.append(mm.group(1))
                continue
        broken(fn, f"loop statement {n!r} not understood")
    if state != ["counter"]:
        broken(fn, f"the loop's mutable state is {state}, expected [counter]")
    ro = [p for p in names if p not in state and p != "out"]
    ro_sig = " ".join(f"({p} : {tys[p]})" for p in ro)
    cx_ty = " → ".join(cx_tys) + " → List UInt8"
    o.append("/-- the loop of `Platform::xof_many`'s `_` arm: `for out_block in out.chunks_exact_mut(..)`, as recursion over the pieces; "
             "returns the new pieces and the final `counter`.  `counter += 1` is checked u64 arithmetic. -/")
    o.append(f"def xof_many_loop {{Cv Blk : Type}} (compress_xof : {cx_ty}) {ro_sig} :")
    o.append("    List (List UInt8) → Nat → R (List (List UInt8) × Nat)")
    o.append("  | [], counter => pure ([], counter)")
    o.append(f"  | {var} :: rest, counter => do")
    o.extend(lines)
    o.append(f"    let (pieces, counter) ← xof_many_loop compress_xof {' '.join(ro)} rest counter")
    o.append(f"    pure ({var} :: pieces, counter)")
    o.append("")
    all_sig = " ".join(f"({p} : {tys[p]})" for p in names)
    o.append("/-- the `_` arm of `Platform::xof_many`: the contents of `out` afterwards -/")
    o.append(f"def xof_many_fallback {{Cv Blk : Type}} (compress_xof : {cx_ty}) {all_sig} : R (List UInt8) := do")
    o.append(f"  let (pieces, _) ← xof_many_loop compress_xof {' '.join(ro)} (Rt.chunksExact {step} out) counter")
    o.append("  pure (Rt.writeBack out pieces)")
    o.append("")
    # ---- the whole function
    ext_ty = "List String → " + " → ".join(tys[p] for p in names) + " → R (List UInt8)"
    dropped = []
    body_l = []
    for n in pre:
        if n[0] == "macro" and n[1].startswith("debug_assert"):
            dropped.append(f"{n[1]}!({re.sub(chr(92) + 's+', ' ', n[2].strip())})")
            continue
        if n[0] == "if" and n[3] is None and n[2] == [("return", None)]:
            mm = re.match(r"^(\w+)\.is_empty\(\)$", n[1].strip())
            if not mm or tys.get(mm.group(1)) != "List UInt8":
                broken(fn, f"condition {n[1]!r} not understood")
            body_l.append(f"  if {mm.group(1)}.isEmpty then pure out else")
            continue
        broken(fn, f"statement {n!r} before the match not understood")
    for pats, cs, kind, b in arms:
        test = f"Arm.applies b self (⟨{lean_pats(pats)}, {lcfgs(cs)}, ()⟩ : Arm Platform Unit)"
        if kind == "block" and re.match(r"^for\b", b):
            body_l.append(f"  if {test} then xof_many_fallback compress_xof {' '.join(names)} else")
        else:
            path, args = parse_call(b, fn)
            for a in args:
                if a not in tys:
                    broken(fn, f"argument {a!r} of {path} is not a parameter")
            if [tys[a] for a in args] != [tys[p] for p in names]:
                broken(fn, f"{path}({', '.join(args)}): argument types do not fit the signature of xof_many")
            body_l.append(f"  if {test} then extern_call {lstr(path.split('::'))} {' '.join(args)} else")
    body_l.append("  .panic   -- no arm matches (rustc rejects a non-exhaustive match)")
    o.append("/-- `Platform::xof_many`: the contents of `out` afterwards.  `extern_call path` is the kernel at `path` (it gets `out` and returns its "
             "new contents), `compress_xof` is `self.compress_xof`.  Dropped: " + "; ".join(f"`{d}`" for d in dropped) + " -/")
    o.append(f"def xof_many {{Cv Blk : Type}} (b : Build) (self : Platform) (extern_call : {ext_ty})")
    o.append(f"    (compress_xof : {cx_ty}) {all_sig} : R (List UInt8) :=")
    o.extend(body_l)
    o.append("")


def subst_consts(e, consts):
    if e[0] == "var" and e[1] in consts:
        return ("num", consts[e[1]])
    if e[0] == "paren":
        return ("paren", subst_consts(e[1], consts))
    if e[0] == "bin":
        return ("bin", e[1], subst_consts(e[2], consts), subst_consts(e[3], consts))
    return e


def const_of(text, consts, fn):
    try:
        v = X.const_eval(subst_consts(X.parse_expr(text), consts))
    except Exception as ex:
        broken(fn, f"expression {text!r}: {ex}")
    if v is None:
        broken(fn, f"expression {text!r} is not a constant")
    return v


def gen_conversions(o, consts):
    for name, kind in [("words_from_le_bytes_32", "w"), ("words_from_le_bytes_64", "w"),
                       ("le_bytes_from_words_32", "b"), ("le_bytes_from_words_64", "b")]:
        attrs, params, ret, body = find_fn_ex(PLAT, rf"pub\s+fn\s+{name}\s*\(", name)
        ps, _ = rs_params(params, name)
        if len(ps) != 1:
            broken(name, "one parameter expected")
        arg, aty = ps[0][0], nows(ps[0][1])
        ma = re.match(r"^&\[(u8|u32);(\d+)\]$", aty)
        mr = re.match(r"^\[(u8|u32);(\d+)\]$", nows(ret))
        if not ma or not mr or (ma.group(1), mr.group(1)) != (("u8", "u32") if kind == "w" else ("u32", "u8")):
            broken(name, f"signature ({aty}) -> {ret} not understood")
        an, rn = int(ma.group(2)), int(mr.group(2))
        nodes = rs_nodes(body, name)
        if len(nodes) < 2 or nodes[0][0] != "let" or nodes[-1][0] != "tail":
            broken(name, "body is not `let mut out = [0; N]; ...; out`")
        m0 = re.match(r"^let\s+mut\s+(\w+)\s*=\s*\[\s*0\s*;\s*(\d+)\s*\]$", nodes[0][1])
        if not m0 or int(m0.group(2)) != rn or nodes[-1][1] != m0.group(1):
            broken(name, "body is not `let mut out = [0; N]; ...; out` with N the length of the result")
        out = m0.group(1)
        lines = []
        t = 0
        if kind == "w":
            lines.append(f"  let {out} : Vector UInt32 {rn} := Vector.replicate {rn} 0")
        else:
            lines.append(f"  let {out} : List UInt8 := List.replicate {rn} 0")
        for n in nodes[1:-1]:
            if n[0] != "stmt":
                broken(name, f"statement {n!r} not understood")
            if kind == "w":
                mm = re.match(r"^(\w+)\s*\[(.+?)\]\s*=\s*u32::from_le_bytes\(\s*\*\s*array_ref!\((.*)\)\s*\)$", n[1], re.S)
                if not mm or mm.group(1) != out:
                    broken(name, f"statement {n[1]!r} not understood")
                ar = [a.strip() for a in X.split_args(mm.group(3))]
                if len(ar) != 3 or ar[0] != arg:
                    broken(name, f"array_ref!({mm.group(3)}) not understood")
                t += 1
                lines.append(f"  let t{t} ← arrayRef {arg} {const_of(ar[1], consts, name)} {const_of(ar[2], consts, name)}")
                lines.append(f"  let {out} ← Rt.vset {out} {const_of(mm.group(2), consts, name)} (Rt.u32FromLeBytes t{t})")
            else:
                mm = re.match(r"^\*\s*array_mut_ref!\((.*?)\)\s*=\s*(\w+)\s*\[(.+?)\]\.to_le_bytes\(\)$", n[1], re.S)
                if not mm or mm.group(2) != arg:
                    broken(name, f"statement {n[1]!r} not understood")
                ar = [a.strip() for a in X.split_args(mm.group(1))]
                if len(ar) != 3 or ar[0] != out:
                    broken(name, f"array_mut_ref!({mm.group(1)}) not understood")
                t += 1
                lines.append(f"  let t{t} ← Rt.vget {arg} {const_of(mm.group(3), consts, name)}")
                lines.append(f"  let {out} ← arrayMutRefSet {out} {const_of(ar[1], consts, name)} {const_of(ar[2], consts, name)} (Rt.u32ToLeBytes t{t})")
        lines.append(f"  pure {out}")
        if kind == "w":
            o.append(f"/-- `platform::{name}` (`&[u8; {an}]` is a byte list; that it has {an} bytes is a hypothesis of the theorems) -/")
            o.append(f"def {name} ({arg} : List UInt8) : R (Vector UInt32 {rn}) := do")
        else:
            o.append(f"/-- `platform::{name}` -/")
            o.append(f"def {name} ({arg} : Vector UInt32 {an}) : R (List UInt8) := do")
        o.extend(lines)
        o.append("")


# ------------------------------------------------------------------------------------------------
# C front end for c/blake3_dispatch.c: preprocessor conditions, statements, expressions


def parse_pp_cond(text, fn):
    toks = re.findall(r"\|\||&&|==|!=|[()!]|\w+", text)
    if "".join(toks) != nows(text):
        broken(fn, f"#if condition {text!r} not understood")
    pos = [0]

    def peek():
        return toks[pos[0]] if pos[0] < len(toks) else None

    def nxt():
        t = peek()
        pos[0] += 1
        return t

    def unary():
        t = nxt()
        if t == "!":
            return f"(.not {unary()})"
        if t == "(":
            e = or_()
            if nxt() != ")":
                broken(fn, f"#if condition {text!r}: `)` expected")
            return e
        if t == "defined":
            if peek() == "(":
                nxt()
                name = nxt()
                if nxt() != ")":
                    broken(fn, f"#if condition {text!r}: `)` expected")
            else:
                name = nxt()
            if name is None or not re.match(r"^[A-Za-z_]\w*$", name):
                broken(fn, f"#if condition {text!r}: macro name expected")
            return f"(.flag {q(name)})"
        if t is not None and re.match(r"^[A-Za-z_]\w*$", t) and peek() == "==":
            nxt()
            v = nxt()
            if v is None or not re.match(r"^\d+$", v):
                broken(fn, f"#if condition {text!r}: integer expected after ==")
            return f"(.kv {q(t)} {q(v)})"
        broken(fn, f"#if condition {text!r} not understood")

    def and_():
        e = unary()
        while peek() == "&&":
            nxt()
            e = f"(.and {e} {unary()})"
        return e

    def or_():
        e = and_()
        while peek() == "||":
            nxt()
            e = f"(.or {e} {and_()})"
        return e

    r = or_()
    if peek() is not None:
        broken(fn, f"#if condition {text!r}: trailing tokens")
    return r


def c_nodes(t, fn):
    """statements of a C function body (comments stripped, preprocessor lines kept):
    ('pp', [(cfg | None, nodes)]) ('if', cond, nodes, nodes | None) ('for', init, cond, step, nodes) ('return', e | None) ('simple', text)"""
    n = len(t)

    def directive(i):
        e = t.find("\n", i)
        if e < 0:
            e = n
        line = t[i:e].strip()
        if line.endswith("\\"):
            broken(fn, "preprocessor line continuation")
        m = re.match(r"^#\s*(\w+)\s*(.*)$", line, re.S)
        if not m:
            broken(fn, f"preprocessor line {line!r} not understood")
        return m.group(1), m.group(2).strip(), e

    def seq(i, in_block):
        """statements until `}` (in_block), a #elif/#else/#endif line, or the end: (nodes, index, terminator)"""
        out = []
        while True:
            i = skip_ws(t, i)
            if i >= n:
                if in_block:
                    broken(fn, "unbalanced braces")
                return out, i, ("eof",)
            if t[i] == "}":
                if not in_block:
                    broken(fn, "unexpected `}`")
                return out, i + 1, ("}",)
            if t[i] == "#":
                d, arg, e = directive(i)
                if d in ("elif", "else", "endif"):
                    return out, e, (d, arg)
                node, i = pp(d, arg, e, in_block)
                out.append(node)
                continue
            node, i = stmt(i)
            if node[0] == "block":
                out.extend(node[1])
            else:
                out.append(node)

    def pp(d, arg, i, in_block):
        if d == "if":
            c = parse_pp_cond(arg, fn)
        elif d == "ifdef":
            c = parse_pp_cond(f"defined({arg})", fn)
        elif d == "ifndef":
            c = parse_pp_cond(f"!defined({arg})", fn)
        else:
            broken(fn, f"preprocessor directive #{d} inside a function")
        branches = []
        while True:
            nodes, i, term = seq(i, False) if not in_block else seq_pp_in_block(i)
            branches.append((c, nodes))
            if term[0] == "endif":
                return ("pp", branches), i
            if term[0] == "elif":
                c = parse_pp_cond(term[1], fn)
            elif term[0] == "else":
                c = None
            else:
                broken(fn, "unterminated #if")

    def seq_pp_in_block(i):
        # inside a braced block a conditional group must itself be brace-balanced
        out = []
        while True:
            i = skip_ws(t, i)
            if i >= n:
                broken(fn, "unterminated #if")
            if t[i] == "}":
                broken(fn, "`}` inside a preprocessor conditional closes a block opened outside it")
            if t[i] == "#":
                d, arg, e = directive(i)
                if d in ("elif", "else", "endif"):
                    return out, e, (d, arg)
                node, i = pp(d, arg, e, True)
                out.append(node)
                continue
            node, i = stmt(i)
            if node[0] == "block":
                out.extend(node[1])
            else:
                out.append(node)

    def paren(i):
        i = skip_ws(t, i)
        if t[i:i + 1] != "(":
            broken(fn, f"`(` expected at {t[i:i + 30]!r}")
        e = X.match_brace(t, i, "(", ")")
        return t[i + 1:e - 1], e

    def stmt(i):
        i = skip_ws(t, i)
        if t[i] == "{":
            nodes, e, term = seq(i + 1, True)
            return ("block", nodes), e
        m = re.match(r"if\b", t[i:])
        if m:
            cond, e = paren(i + m.end())
            then, e = stmt_nodes(e)
            els = None
            m2 = re.match(r"\s*else\b", t[e:])
            if m2:
                els, e = stmt_nodes(e + m2.end())
            return ("if", cond.strip(), then, els), e
        m = re.match(r"for\b", t[i:])
        if m:
            hdr, e = paren(i + m.end())
            parts = hdr.split(";")
            if len(parts) != 3:
                broken(fn, f"for header {hdr!r} not understood")
            body, e = stmt_nodes(e)
            return ("for", parts[0].strip(), parts[1].strip(), parts[2].strip(), body), e
        if re.match(r"(while|do|switch|goto)\b", t[i:]):
            broken(fn, f"statement {t[i:i + 30]!r} not supported")
        depth, k = 0, i
        while k < n:
            c = t[k]
            if c in "([{":
                depth += 1
            elif c in ")]}":
                depth -= 1
            elif c == ";" and depth == 0:
                break
            elif c == "#" and t[:k].rstrip(" \t").endswith("\n"):
                broken(fn, "preprocessor line inside a statement")
            k += 1
        if k >= n:
            broken(fn, f"`;` expected after {t[i:i + 40]!r}")
        s = re.sub(r"\s+", " ", t[i:k].strip())
        m = re.match(r"^return\b\s*(.*)$", s)
        if m:
            return ("return", m.group(1).strip() or None), k + 1
        return ("simple", s), k + 1

    def stmt_nodes(i):
        i = skip_ws(t, i)
        if t[i:i + 1] == "#":
            broken(fn, "preprocessor line where a statement is expected")
        node, e = stmt(i)
        return (node[1] if node[0] == "block" else [node]), e

    nodes, i, term = seq(0, False)
    if term[0] != "eof":
        broken(fn, f"unbalanced #{term[0]}")
    return nodes


C_TOKEN = re.compile(r"\s*(?:(0[xX][0-9a-fA-F]+|\d+)(?:[uU]?[lL]{0,2}|[lL]{1,2}[uU]?)\b|([A-Za-z_]\w*)|(\|\||&&|==|!=|<=|>=|<<|>>|\+\+|--|[-+*/%&|^~!<>()\[\],]))")
C_PREC = {"||": 1, "&&": 2, "|": 3, "^": 4, "&": 5, "==": 6, "!=": 6, "<": 7, ">": 7, "<=": 7, ">=": 7, "<<": 8, ">>": 8,
          "+": 9, "-": 9, "*": 10, "/": 10, "%": 10}
C_TYPES = ("uint8_t", "uint32_t", "uint64_t", "size_t", "int", "void")


def c_parse(text, fn):
    toks = []
    i = 0
    text = text.strip()
    while i < len(text):
        m = C_TOKEN.match(text, i)
        if not m or m.end() == i:
            broken(fn, f"expression {text!r}: cannot tokenize at {text[i:i + 20]!r}")
        i = m.end()
        if m.group(1) is not None:
            toks.append(("num", int(m.group(1), 0)))
        elif m.group(2) is not None:
            toks.append(("id", m.group(2)))
        else:
            toks.append(("op", m.group(3)))
    pos = [0]

    def peek(k=0):
        return toks[pos[0] + k] if pos[0] + k < len(toks) else ("eof", None)

    def nxt():
        x = peek()
        pos[0] += 1
        return x

    def expect(op):
        if nxt() != ("op", op):
            broken(fn, f"expression {text!r}: `{op}` expected")

    def primary():
        k, v = nxt()
        if k == "num":
            return ("num", v)
        if k == "id":
            if peek() == ("op", "("):
                nxt()
                args = []
                while peek() != ("op", ")"):
                    args.append(expr(0))
                    if peek() == ("op", ","):
                        nxt()
                    elif peek() != ("op", ")"):
                        broken(fn, f"expression {text!r}: `,` or `)` expected")
                nxt()
                return ("call", v, args)
            return ("var", v)
        if (k, v) == ("op", "("):
            if peek()[0] == "id" and peek()[1] in C_TYPES and peek(1) == ("op", ")"):
                ty = nxt()[1]
                nxt()
                return ("cast", ty, unary())
            e = expr(0)
            expect(")")
            return ("paren", e)
        broken(fn, f"expression {text!r}: unexpected token {v!r}")

    def postfix():
        e = primary()
        while peek() == ("op", "["):
            nxt()
            ix = expr(0)
            expect("]")
            e = ("index", e, ix)
        return e

    def unary():
        if peek()[0] == "op" and peek()[1] in ("*", "&", "!", "~", "-", "++", "--"):
            op = nxt()[1]
            return ("un", op, unary())
        return postfix()

    def expr(minp):
        lhs = unary()
        while True:
            k, v = peek()
            if k == "op" and v in C_PREC and C_PREC[v] >= minp:
                nxt()
                rhs = expr(C_PREC[v] + 1)
                lhs = ("bin", v, lhs, rhs)
            else:
                return lhs

    e = expr(0)
    if peek()[0] != "eof":
        broken(fn, f"expression {text!r}: trailing tokens")
    return e


def c_fold(e):
    """value of a purely numeric expression, else None"""
    k = e[0]
    if k == "num":
        return e[1]
    if k == "paren":
        return c_fold(e[1])
    if k == "bin":
        a, b = c_fold(e[2]), c_fold(e[3])
        if a is None or b is None:
            return None
        f = {"|": lambda: a | b, "&": lambda: a & b, "^": lambda: a ^ b, "<<": lambda: a << b if b < 64 else None,
             ">>": lambda: a >> b, "+": lambda: a + b, "*": lambda: a * b}.get(e[1])
        r = f() if f else None
        return r if r is not None and 0 <= r < 2 ** 64 else None
    return None


class CEnv:
    """types of C names: 'nat' (unsigned value), 'int', 'regs', ('alias', regs var, index), 'const' (enum constant)"""

    def __init__(self, fn, names):
        self.fn = fn
        self.names = dict(names)
        self.oracles = {}      # nullary calls that are parameters of the generated function: name -> (lean, type)

    def val(self, e):
        """(lean term, type) with type in nat | int | bool"""
        c = c_fold(e)
        if c is not None:
            return str(c), "nat"
        k = e[0]
        if k == "paren":
            return self.val(e[1])
        if k == "var":
            ty = self.names.get(e[1])
            if ty in ("nat", "const"):
                return e[1], "nat"
            if ty == "int":
                return e[1], "int"
            broken(self.fn, f"name {e[1]!r} is not a value in scope")
        if k == "un" and e[1] == "*" and e[2][0] == "var" and isinstance(self.names.get(e[2][1]), tuple):
            _, regs, ix = self.names[e[2][1]]
            return f"{regs}[{ix}].toNat", "nat"
        if k == "un" and e[1] == "!":
            return f"(!{self.cond(e[2])})", "bool"
        if k == "call" and not e[2] and e[1] in self.oracles:
            return self.oracles[e[1]]
        if k == "bin":
            op = e[1]
            if op in ("&&", "||"):
                return f"({self.cond(e[2])} {op} {self.cond(e[3])})", "bool"
            (a, ta), (b, tb) = self.val(e[2]), self.val(e[3])
            if ta == "bool" or tb == "bool":
                broken(self.fn, f"arithmetic on a truth value in {e!r}")
            if op in ("==", "!=", "<", ">", "<=", ">="):
                if ta != tb:
                    if ta == "int" and c_fold(e[3]) is not None:
                        pass
                    elif tb == "int" and c_fold(e[2]) is not None:
                        pass
                    else:
                        broken(self.fn, f"comparison between signed and unsigned in {e!r}")
                if op in ("==", "!="):
                    return f"({a} {op} {b})", "bool"
                return f"(decide ({a} {op} {b}))", "bool"
            if ta != "nat" or tb != "nat":
                broken(self.fn, f"arithmetic on signed values in {e!r}")
            if op in ("&", "|", "^"):
                return f"({a} {X.LEAN_BIN[op]} {b})", "nat"
            if op == "+":
                return f"(Arith.w64add {a} {b})", "nat"
            if op == "*":
                return f"(Arith.w64mul {a} {b})", "nat"
        broken(self.fn, f"expression {e!r} not understood")

    def cond(self, e):
        while e[0] == "paren":
            e = e[1]
        if e[0] == "bin" and e[1] == "&":
            (a, ta), (b, tb) = self.val(e[2]), self.val(e[3])
            if ta == "nat" and tb == "nat":
                return f"(hasBits {a} {b})"
        t, ty = self.val(e)
        if ty == "bool":
            return t
        if ty == "nat":
            return f"({t} != 0)"
        broken(self.fn, f"condition {e!r} not understood")


def c_find_fn(header_re, fn):
    """(params text, body text with preprocessor lines, comments stripped)"""
    S = stripped(DISP)
    ms = list(re.finditer(header_re, S))
    if len(ms) != 1:
        broken(fn, f"function header /{header_re}/ not found (or ambiguous) in {DISP}")
    m = ms[0]
    p0 = S.index("(", m.start())
    p1 = X.match_brace(S, p0, "(", ")")
    b0 = skip_ws(S, p1)
    if S[b0:b0 + 1] != "{":
        broken(fn, "this is a declaration, not a definition")
    b1 = X.match_brace(S, b0)
    record(DISP, S, m.start(), b1)
    return S[p0 + 1:p1 - 1], S[b0 + 1:b1 - 1]


def c_params(params, fn):
    """[(name, type text)]"""
    out = []
    if params.strip() in ("", "void"):
        return out
    for p in X.split_args(params):
        p = re.sub(r"\s+", " ", p.strip())
        m = re.match(r"^(.*?)(\w+)\s*((?:\[\w*\])*)$", p)
        if not m or not m.group(1).strip():
            broken(fn, f"parameter {p!r} not understood")
        out.append((m.group(2), nows(m.group(1) + m.group(3))))
    return out


def c_macros(fn):
    """definitions of the function-like macros used by the dispatch functions: name -> set of bodies (all #if variants)"""
    S = stripped(DISP)
    out = {}
    for m in re.finditer(r"(?m)^\s*#\s*define\s+(\w+)\(([^)]*)\)[ \t]*(.*)$", S):
        out.setdefault(m.group(1), set()).add((nows(m.group(2)), nows(m.group(3))))
    return out


# ------------------------------------------------------------------------------------------------
# c/blake3_dispatch.c: enum cpu_feature, get_cpu_features


def gen_c_enum(o):
    S = stripped(DISP)
    ms = list(re.finditer(r"enum\s+cpu_feature\s*\{", S))
    if len(ms) != 1:
        broken("enum cpu_feature", "definition not found (or ambiguous)")
    b0 = ms[0].end() - 1
    b1 = X.match_brace(S, b0)
    record(DISP, S, ms[0].start(), b1)
    consts = {}
    o.append("/-! ### c/blake3_dispatch.c -/")
    o.append("")
    for item in X.split_args(S[b0 + 1:b1 - 1]):
        item = item.strip()
        if not item:
            continue
        m = re.match(r"^(\w+)\s*=\s*(.+)$", item, re.S)
        if not m:
            broken("enum cpu_feature", f"enumerator {item!r} has no explicit value")
        v = c_fold(c_parse(m.group(2), "enum cpu_feature"))
        if v is None:
            broken("enum cpu_feature", f"value of {m.group(1)} is not a constant")
        consts[m.group(1)] = v
        o.append(f"/-- `enum cpu_feature`: `{m.group(1)} = {re.sub(chr(92) + 's+', ' ', m.group(2).strip())}` -/")
        o.append(f"def {m.group(1)} : Nat := {v}")
    o.append("def cpuFeatureNames : List (String × Nat) := [" + ", ".join(f"({q(k)}, {v})" for k, v in consts.items()) + "]")
    o.append("")
    return consts


ATOMIC_OK = {"ATOMIC_LOAD": {("x", "x"), ("x", "InterlockedOr(&x,0)")},
             "ATOMIC_STORE": {("x,y", "x=y"), ("x,y", "InterlockedExchange(&x,y)")},
             "MAYBE_UNUSED": {("x", "(void)((x))"), ("x", "(void)(x)")}}


def check_macro(name, fn):
    defs = c_macros(fn).get(name)
    if not defs:
        broken(fn, f"macro {name} is not defined in {DISP}")
    bad = defs - ATOMIC_OK[name]
    if bad:
        broken(fn, f"macro {name} has a definition that is not understood: {sorted(bad)}")


def contains_return(nodes):
    for n in nodes:
        if n[0] == "return":
            return True
        if n[0] == "if" and (contains_return(n[2]) or (n[3] and contains_return(n[3]))):
            return True
        if n[0] == "pp" and any(contains_return(b) for _, b in n[1]):
            return True
        if n[0] == "for" and contains_return(n[4]):
            return True
    return False


class CStateTr:
    """get_cpu_features: imperative C with mutable locals -> a pure function; the function's value is
    (returned value, g_cpu_features afterwards)"""

    def __init__(self, fn, consts):
        self.fn = fn
        self.env = CEnv(fn, {k: "const" for k in consts})
        self.env.names["g_cpu_features"] = "nat"
        self.env.oracles["xgetbv"] = ("xgetbv", "nat")
        self.glob = "g_cpu_features"

    # -- which already-declared variables a statement list assigns
    def assigned(self, nodes, declared):
        out = []

        def add(v):
            if v in declared and v not in out:
                out.append(v)
        for n in nodes:
            if n[0] == "simple":
                s = n[1]
                m = re.match(r"^(\w+)\s*(?:[|&^+\-*]?=)(?!=)", s)
                if m:
                    add(m.group(1))
                m = re.match(r"^(cpuid|cpuidex)\s*\(\s*(\w+)\s*,", s)
                if m:
                    add(m.group(2))
                m = re.match(r"^ATOMIC_STORE\s*\(\s*(\w+)\s*,", s)
                if m:
                    add(m.group(1))
            elif n[0] == "if":
                for v in self.assigned(n[2], declared) + (self.assigned(n[3], declared) if n[3] else []):
                    add(v)
            elif n[0] == "pp":
                for _, b in n[1]:
                    for v in self.assigned(b, declared):
                        add(v)
            elif n[0] == "for":
                broken(self.fn, "loop in get_cpu_features")
        return out

    def tup(self, vs):
        return vs[0] if len(vs) == 1 else "(" + ", ".join(vs) + ")"

    def simple(self, s, ind):
        """lines for one simple statement (declaration, assignment, intrinsic call)"""
        env = self.env
        if re.match(r"^\(\s*void\s*\)", s):
            return []
        m = re.match(r"^(?:const\s+)?uint32_t\s+(\w+)\s*\[\s*(\d+)\s*\]\s*=\s*\{\s*0\s*\}$", s)
        if m:
            if int(m.group(2)) != 4:
                broken(self.fn, f"register array of {m.group(2)} words")
            env.names[m.group(1)] = "regs"
            return [f"{ind}let {m.group(1)} : Regs := Vector.replicate 4 0"]
        m = re.match(r"^(?:const\s+)?uint32_t\s*(\*.*)$", s)
        if m:
            for d in X.split_args(m.group(1)):
                md = re.match(r"^\s*\*\s*(\w+)\s*=\s*&\s*(\w+)\s*\[\s*(\d+)\s*\]\s*$", d)
                if not md or env.names.get(md.group(2)) != "regs" or int(md.group(3)) >= 4:
                    broken(self.fn, f"pointer declaration {d.strip()!r} not understood")
                env.names[md.group(1)] = ("alias", md.group(2), int(md.group(3)))
            return []
        m = re.match(r"^(?:const\s+)?(enum\s+\w+|uint64_t|uint32_t|size_t|int)\s+(\w+)\s*=\s*(.+)$", s)
        if m:
            ty, name, rhs = m.group(1), m.group(2), m.group(3)
            mm = re.match(r"^ATOMIC_LOAD\s*\(\s*(\w+)\s*\)$", rhs)
            if mm:
                check_macro("ATOMIC_LOAD", self.fn)
                rhs = mm.group(1)
            v, vt = env.val(c_parse(rhs, self.fn))
            if ty == "int":
                e = c_parse(rhs, self.fn)
                if not (e[0] == "un" and e[1] == "*" and vt == "nat" and v.endswith(".toNat")):
                    broken(self.fn, f"initialiser of int {name} not understood: {rhs!r}")
                env.names[name] = "int"
                return [f"{ind}let {name} := intOfU32 {v[:-len('.toNat')]}"]
            if vt != "nat":
                broken(self.fn, f"initialiser of {name} is not an unsigned value")
            env.names[name] = "nat"
            return [f"{ind}let {name} := {v}"]
        m = re.match(r"^(\w+)\s*(\|)?=\s*(.+)$", s)
        if m and env.names.get(m.group(1)) == "nat" and m.group(1) != self.glob:
            v, vt = env.val(c_parse(m.group(3), self.fn))
            if vt != "nat":
                broken(self.fn, f"assignment {s!r}: not an unsigned value")
            if m.group(2):
                return [f"{ind}let {m.group(1)} := {m.group(1)} ||| {v}"]
            return [f"{ind}let {m.group(1)} := {v}"]
        m = re.match(r"^(cpuid|cpuidex)\s*\((.*)\)$", s)
        if m:
            args = [a.strip() for a in X.split_args(m.group(2))]
            want = 2 if m.group(1) == "cpuid" else 3
            if len(args) != want or env.names.get(args[0]) != "regs":
                broken(self.fn, f"call {s!r} not understood")
            vals = []
            for a in args[1:]:
                v, vt = env.val(c_parse(a, self.fn))
                if vt != "nat":
                    broken(self.fn, f"call {s!r}: argument {a!r}")
                vals.append(v)
            return [f"{ind}let {args[0]} := {m.group(1)} {' '.join(vals)}"]
        m = re.match(r"^ATOMIC_STORE\s*\(\s*(\w+)\s*,\s*(.+)\)$", s)
        if m and m.group(1) == self.glob:
            check_macro("ATOMIC_STORE", self.fn)
            v, vt = env.val(c_parse(m.group(2), self.fn))
            if vt != "nat":
                broken(self.fn, f"{s!r}: not an unsigned value")
            return [f"{ind}let {self.glob} := {v}"]
        broken(self.fn, f"statement {s!r} not understood")

    def effects(self, nodes, ind):
        """lines for statements none of which returns"""
        lines = []
        for n in nodes:
            lines += self.effect(n, ind)
        return lines

    def branch(self, nodes, ind, vs):
        saved = dict(self.env.names)
        lines = self.effects(nodes, ind) + [f"{ind}{self.tup(vs)}"]
        self.env.names = saved
        return lines

    def effect(self, n, ind):
        if n[0] == "simple":
            return self.simple(n[1], ind)
        declared = [k for k, v in self.env.names.items() if v in ("nat", "regs", "int")]
        if n[0] == "if":
            vs = self.assigned(n[2] + (n[3] or []), declared)
            if not vs:
                broken(self.fn, f"if ({n[1]}) has no effect")
            c = self.env.cond(c_parse(n[1], self.fn))
            return ([f"{ind}let {self.tup(vs)} := if {c} then"] + self.branch(n[2], ind + "    ", vs) + [f"{ind}  else"]
                    + self.branch(n[3] or [], ind + "    ", vs))
        if n[0] == "pp":
            vs = []
            for _, b in n[1]:
                for v in self.assigned(b, declared):
                    if v not in vs:
                        vs.append(v)
            if not vs:
                broken(self.fn, "#if group has no effect")
            lines = []
            br = list(n[1])
            if br[-1][0] is not None:
                br.append((None, []))
            for k, (c, b) in enumerate(br):
                if k == 0:
                    lines.append(f"{ind}let {self.tup(vs)} := if Cfg.eval b {c} then")
                elif c is not None:
                    lines.append(f"{ind}  else if Cfg.eval b {c} then")
                else:
                    lines.append(f"{ind}  else")
                lines += self.branch(b, ind + "    ", vs)
            return lines
        broken(self.fn, f"statement {n!r} not understood")

    def tail(self, nodes, ind):
        """lines for statements the last of which returns on every path"""
        lines = []
        for k, n in enumerate(nodes):
            rest = nodes[k + 1:]
            if n[0] == "return":
                if n[1] is None:
                    broken(self.fn, "`return;` in a function that returns a value")
                v, vt = self.env.val(c_parse(n[1], self.fn))
                if vt != "nat":
                    broken(self.fn, f"return value {n[1]!r}")
                return lines + [f"{ind}({v}, {self.glob})"]
            if n[0] in ("if", "pp") and contains_return([n]):
                saved = dict(self.env.names)
                if n[0] == "if":
                    c = self.env.cond(c_parse(n[1], self.fn))
                    lines.append(f"{ind}if {c} then")
                    lines += self.tail(n[2] + rest, ind + "  ")
                    self.env.names = dict(saved)
                    lines.append(f"{ind}else")
                    lines += self.tail((n[3] or []) + rest, ind + "  ")
                else:
                    br = list(n[1])
                    if br[-1][0] is not None:
                        br.append((None, []))
                    for j, (c, b) in enumerate(br):
                        if j == 0:
                            lines.append(f"{ind}if Cfg.eval b {c} then")
                        elif c is not None:
                            lines.append(f"{ind}else if Cfg.eval b {c} then")
                        else:
                            lines.append(f"{ind}else")
                        self.env.names = dict(saved)
                        lines += self.tail(b + rest, ind + "  ")
                self.env.names = saved
                return lines
            lines += self.effect(n, ind)
        broken(self.fn, "a path reaches the end of the function without `return`")


def gen_get_cpu_features(o, consts):
    fn = "get_cpu_features"
    S = stripped(DISP)
    for name, sig in [("cpuid", r"static\s+void\s+cpuid\s*\(\s*uint32_t\s+out\s*\[\s*4\s*\]\s*,\s*uint32_t\s+id\s*\)\s*\{"),
                      ("cpuidex", r"static\s+void\s+cpuidex\s*\(\s*uint32_t\s+out\s*\[\s*4\s*\]\s*,\s*uint32_t\s+id\s*,\s*uint32_t\s+sid\s*\)\s*\{"),
                      ("xgetbv", r"static\s+uint64_t\s+xgetbv\s*\(\s*void\s*\)\s*\{")]:
        if len(re.findall(sig, S)) != 1:
            broken(fn, f"the helper {name} does not have the expected signature")
    m = re.search(r"ATOMIC_INT\s+g_cpu_features\s*=\s*(\w+)\s*;", S)
    if not m or m.group(1) not in consts:
        broken(fn, "initial value of g_cpu_features not found")
    o.append(f"/-- initial value of the detection cache: `ATOMIC_INT g_cpu_features = {m.group(1)};` -/")
    o.append(f"def g_cpu_features_init : Nat := {m.group(1)}")
    params, body = c_find_fn(r"get_cpu_features\s*\(\s*void\s*\)\s*\{", fn)
    tr = CStateTr(fn, consts)
    lines = tr.tail(c_nodes(body, fn), "  ")
    o.append("/-- `get_cpu_features()`: (returned mask, `g_cpu_features` afterwards).  `cpuid id` / `cpuidex id sid` are the four registers "
             "(eax, ebx, ecx, edx) the instruction leaves, `xgetbv` is XCR0; `ATOMIC_LOAD` / `ATOMIC_STORE` are a plain load / store "
             "(every definition of the macros in the file is checked to be one). -/")
    o.append("def get_cpu_features (b : Build) (g_cpu_features : Nat) (cpuid : Nat → Regs) (cpuidex : Nat → Nat → Regs) (xgetbv : Nat) : Nat × Nat :=")
    o.extend(lines)
    o.append("")


# ------------------------------------------------------------------------------------------------
# c/blake3_dispatch.c: the dispatch functions as decision functions


class CActTr:
    def __init__(self, fn, consts, params):
        self.fn = fn
        self.params = params
        self.env = CEnv(fn, {k: "const" for k in consts})
        self.used = []     # C parameters read by conditions (become Nat parameters of the generated function)
        self.uses_features = False
        self.loop = None

    def cond(self, text):
        e = c_parse(text, self.fn)
        for v in re.findall(r"[A-Za-z_]\w*", text):
            if v in [p for p, _ in self.params] and v not in self.env.names:
                if dict(self.params)[v] not in ("size_t", "uint64_t", "uint8_t"):
                    broken(self.fn, f"condition {text!r} reads the non-integer parameter {v}")
                self.env.names[v] = "nat"
                self.used.append(v)
        return self.env.cond(e)

    def call(self, s):
        m = re.match(r"^(\w+)\s*\((.*)\)$", s)
        if not m:
            broken(self.fn, f"statement {s!r} not understood")
        return f".call ⟨{q(m.group(1))}, {lstr([nows(a) for a in X.split_args(m.group(2))])}⟩"

    def block_act(self, nodes):
        """a block that ends the function: `return;` | `return n;` | `f(args); return;`"""
        if len(nodes) == 1 and nodes[0][0] == "return":
            if nodes[0][1] is None:
                return ".ret"
            v = c_fold(c_parse(nodes[0][1], self.fn))
            if v is None:
                broken(self.fn, f"return value {nodes[0][1]!r} is not a constant")
            return f".val {v}"
        if len(nodes) == 2 and nodes[0][0] == "simple" and nodes[1] == ("return", None):
            return self.call(nodes[0][1])
        return None

    def chain(self, nodes, ind, top):
        """lines of an `Option Act` term"""
        items = []
        k = 0
        while k < len(nodes):
            n = nodes[k]
            rest = nodes[k + 1:]
            if n[0] == "simple":
                m = re.match(r"^const\s+enum\s+cpu_feature\s+(\w+)\s*=\s*get_cpu_features\s*\(\s*\)$", n[1])
                if m:
                    self.uses_features = True
                    self.env.names[m.group(1)] = "nat"
                    inner = self.chain(rest, ind + "    ", top)
                    items.append([f"{ind}  (let {m.group(1)} := get_cpu_features;"] + inner[:-1] + [inner[-1] + ")"])
                    break
                m = re.match(r"^MAYBE_UNUSED\s*\(\s*(\w+)\s*\)$", n[1])
                if m:
                    check_macro("MAYBE_UNUSED", self.fn)
                    if m.group(1) not in self.env.names:
                        broken(self.fn, f"MAYBE_UNUSED({m.group(1)}): unknown name")
                    k += 1
                    continue
                # `f(args); return;` in sequence, or `f(args);` as the last statement of the function
                if rest[:1] == [("return", None)]:
                    items.append([f"{ind}  some ({self.call(n[1])})"])
                    k += 2
                    continue
                if not rest and top:
                    items.append([f"{ind}  some ({self.call(n[1])})"])
                    k += 1
                    continue
                broken(self.fn, f"statement {n[1]!r} is followed by more code (two calls on one path cannot be represented)")
            if n[0] == "return":
                act = self.block_act([n])
                items.append([f"{ind}  some ({act})"])
                k += 1
                continue
            if n[0] == "if":
                if n[3] is not None:
                    broken(self.fn, "if .. else in a dispatch function")
                act = self.block_act(n[2])
                if act is None:
                    broken(self.fn, f"if ({n[1]}) {{..}}: the block is not `f(..); return;` or `return ..;`")
                items.append([f"{ind}  ifThen {self.cond(n[1])} (some ({act}))"])
                k += 1
                continue
            if n[0] == "pp":
                br = n[1]
                if len(br) == 1:
                    inner = self.chain(br[0][1], ind + "    ", False)
                    items.append([f"{ind}  cfgBlock b [{br[0][0]}] ("] + inner + [f"{ind}    )"])
                elif len(br) == 2 and br[1][0] is None:
                    saved = dict(self.env.names)
                    i1 = self.chain(br[0][1], ind + "    ", False)
                    self.env.names = dict(saved)
                    i2 = self.chain(br[1][1], ind + "    ", False)
                    self.env.names = saved
                    items.append([f"{ind}  cfgIfElse b {br[0][0]} ("] + i1 + [f"{ind}    ) ("] + i2 + [f"{ind}    )"])
                else:
                    broken(self.fn, "#elif in a dispatch function")
                k += 1
                continue
            if n[0] == "for":
                if rest or not top:
                    broken(self.fn, "a loop that is not the last statement of the function")
                self.loop = n
                items.append([f"{ind}  some .loop"])
                k += 1
                continue
            broken(self.fn, f"statement {n!r} not understood")
        if not items:
            return [ind + "none"]
        if len(items) == 1:
            return items[0]
        out = [ind + "first ["]
        for j, it in enumerate(items):
            if j < len(items) - 1:
                it = it[:-1] + [it[-1] + ","]
            out += it
        out[-1] += "]"
        return out


C_DISPATCH = [("blake3_compress_in_place", r"void\s+blake3_compress_in_place\s*\("),
              ("blake3_compress_xof", r"void\s+blake3_compress_xof\s*\("),
              ("blake3_xof_many", r"void\s+blake3_xof_many\s*\("),
              ("blake3_hash_many", r"void\s+blake3_hash_many\s*\("),
              ("blake3_simd_degree", r"size_t\s+blake3_simd_degree\s*\(")]


def gen_c_dispatch(o, consts):
    info = {}
    for name, hdr in C_DISPATCH:
        params, body = c_find_fn(hdr, name)
        ps = c_params(params, name)
        tr = CActTr(name, consts, ps)
        lines = tr.chain(c_nodes(body, name), "  ", True)
        extra = "".join(f" ({v} : Nat)" for v in tr.used)
        o.append(f"/-- `{name}`: its parameters, and what it does as a function of the build macros, the value returned by "
                 "`get_cpu_features()`" + (" and " + ", ".join(f"`{v}`" for v in tr.used) if tr.used else "") +
                 " (reaching the end of the function without a call is `.ret`) -/")
        o.append(f"def {name}_params : List String := {lstr([p for p, _ in ps])}")
        o.append(f"def {name}_param_types : List String := {lstr([t for _, t in ps])}")
        o.append(f"def {name} (b : Build) (get_cpu_features : Nat){extra} : Act :=")
        o.append("  Option.getD (")
        o.extend(lines)
        o.append("    ) .ret")
        o.append("")
        info[name] = (ps, tr)
    return info


def gen_c_xof_loop(o, info):
    fn = "blake3_xof_many"
    ps, tr = info[fn]
    if tr.loop is None:
        broken(fn, "the portable loop (a `for` as the last statement) was not found")
    _, init, cond, step, body = tr.loop
    m = re.match(r"^size_t\s+(\w+)\s*=\s*0$", init)
    if not m:
        broken(fn, f"loop initialiser {init!r} not understood")
    i = m.group(1)
    if nows(step) not in (f"++{i}", f"{i}++"):
        broken(fn, f"loop step {step!r} not understood")
    tys = {}
    for p, t in ps:
        lt = {"constuint32_t[8]": "Cv", "constuint8_t[BLAKE3_BLOCK_LEN]": "Blk", "uint8_t": "UInt8", "uint64_t": "Nat",
              "uint8_t[64]": "List UInt8", "size_t": "Nat"}.get(t)
        if lt is None:
            broken(fn, f"parameter {p}: type {t!r} not understood")
        tys[p] = lt
    env = CEnv(fn, {p: "nat" for p in tys if tys[p] == "Nat"})
    env.names[i] = "nat"
    c = env.cond(c_parse(cond, fn))
    if len(body) != 1 or body[0][0] != "simple":
        broken(fn, "loop body is not a single call")
    mc = re.match(r"^(\w+)\s*\((.*)\)$", body[0][1])
    if not mc or mc.group(1) != "blake3_compress_xof":
        broken(fn, f"loop body {body[0][1]!r} is not a call of blake3_compress_xof")
    cps, _ = info["blake3_compress_xof"]
    cty = [t for _, t in cps]
    if cty != ["constuint32_t[8]", "constuint8_t[BLAKE3_BLOCK_LEN]", "uint8_t", "uint64_t", "uint8_t", "uint8_t[64]"]:
        broken(fn, f"signature of blake3_compress_xof not understood: {cty}")
    args = [a.strip() for a in X.split_args(mc.group(2))]
    if len(args) != 6:
        broken(fn, "blake3_compress_xof takes six arguments")
    largs = []
    want = ["Cv", "Blk", "UInt8", "Nat", "UInt8"]
    for a, w in zip(args[:5], want):
        if w == "Nat":
            v, vt = env.val(c_parse(a, fn))
            if vt != "nat":
                broken(fn, f"argument {a!r} is not an unsigned value")
            largs.append(v)
        else:
            if tys.get(a) != w:
                broken(fn, f"argument {a!r} of blake3_compress_xof does not fit its signature")
            largs.append(a)
    e = c_parse(args[5], fn)
    if not (e[0] == "bin" and e[1] == "+" and e[2] == ("var", "out") and tys.get("out") == "List UInt8"):
        broken(fn, f"output pointer {args[5]!r} is not `out + offset`")
    off, ot = env.val(e[3])
    if ot != "nat":
        broken(fn, f"offset in {args[5]!r}")
    ro = [p for p, _ in ps if p != "out"]
    ro_sig = " ".join(f"({p} : {tys[p]})" for p in ro)
    o.append("/-- the portable loop of `blake3_xof_many`: `for (size_t i = 0; ..; ++i) blake3_compress_xof(.., out + ..)`.  `blake3_compress_xof` "
             "is the 64 bytes the callee stores through its last argument; a store outside `out` is a panic; `size_t` / `uint64_t` "
             "arithmetic wraps. -/")
    o.append(f"def blake3_xof_many_loop {{Cv Blk : Type}} (blake3_compress_xof : Cv → Blk → UInt8 → Nat → UInt8 → List UInt8) {ro_sig} :")
    o.append("    Nat → Nat → List UInt8 → R (List UInt8)")
    o.append("  | 0, _, _ => .panic   -- out of fuel")
    o.append(f"  | fuel + 1, {i}, out =>")
    o.append(f"    if {c} then do")
    o.append(f"      let out ← CMem.wr out {off} (blake3_compress_xof {' '.join(largs)})")
    o.append(f"      blake3_xof_many_loop blake3_compress_xof {' '.join(ro)} fuel (Arith.w64add {i} 1) out")
    o.append("    else pure out")
    o.append("")
    all_sig = " ".join(f"({p} : {tys[p]})" for p, _ in ps)
    o.append("/-- the loop with enough fuel for its `outblocks` iterations -/")
    o.append(f"def blake3_xof_many_fallback {{Cv Blk : Type}} (blake3_compress_xof : Cv → Blk → UInt8 → Nat → UInt8 → List UInt8) {all_sig} : R (List UInt8) :=")
    o.append(f"  blake3_xof_many_loop blake3_compress_xof {' '.join(ro)} (outblocks + 1) 0 out")
    o.append("")


def gen_c_max_degree(o):
    S = stripped(IMPL_H)
    defs = list(re.finditer(r"(?m)^[ \t]*#\s*define\s+MAX_SIMD_DEGREE\s+(\d+)\s*$", S))
    if not defs:
        broken("C MAX_SIMD_DEGREE", "no #define found in c/blake3_impl.h")
    # the conditional group around the defines: from the nearest #if before the first to the #endif after the last
    lines = S.split("\n")
    l0 = S.count("\n", 0, defs[0].start())
    l1 = S.count("\n", 0, defs[-1].start())
    a = l0
    while a >= 0 and not re.match(r"^\s*#\s*if", lines[a]):
        a -= 1
    z = l1
    while z < len(lines) and not re.match(r"^\s*#\s*endif", lines[z]):
        z += 1
    if a < 0 or z >= len(lines):
        broken("C MAX_SIMD_DEGREE", "conditional group around the defines not found")
    branches = []
    cur = None
    for ln in lines[a:z + 1]:
        m = re.match(r"^\s*#\s*(if|elif|else|endif|define)\b\s*(.*)$", ln)
        if not m:
            if ln.strip():
                broken("C MAX_SIMD_DEGREE", f"line {ln.strip()!r} inside the conditional group")
            continue
        d, arg = m.group(1), m.group(2).strip()
        if d in ("if", "elif"):
            cur = parse_pp_cond(arg, "C MAX_SIMD_DEGREE")
            branches.append([cur, None])
        elif d == "else":
            branches.append([None, None])
        elif d == "define":
            md = re.match(r"^MAX_SIMD_DEGREE\s+(\d+)$", arg)
            if not md or not branches or branches[-1][1] is not None:
                broken("C MAX_SIMD_DEGREE", f"#define {arg!r} inside the conditional group")
            branches[-1][1] = int(md.group(1))
    if not branches or branches[-1][0] is not None or any(v is None for _, v in branches):
        broken("C MAX_SIMD_DEGREE", "the #if chain does not define the macro on every path")
    X.SPANS.append((A, IMPL_H, a + 1, z + 1, hashlib.sha256("\n".join(X.src(IMPL_H).split("\n")[a:z + 1]).encode()).hexdigest()[:16]))
    o.append("/-- `MAX_SIMD_DEGREE` of c/blake3_impl.h (the `#if` chain) -/")
    o.append("def c_MAX_SIMD_DEGREE (b : Build) : Nat :=")
    for k, (c, v) in enumerate(branches):
        if c is not None:
            o.append(("  if" if k == 0 else "  else if") + f" Cfg.eval b {c} then {v}")
        else:
            o.append(f"  else {v}")
    o.append("")


# ------------------------------------------------------------------------------------------------
# src/ffi_*.rs


def top_level_fns(S, rel):
    """top-level `fn` items of a Rust file (outside `mod { }` blocks): (match start, name, kind)"""
    out = []
    depth = 0
    i = 0
    n = len(S)
    while i < n:
        c = S[i]
        if c == "{":
            depth += 1
        elif c == "}":
            depth -= 1
        elif depth == 0:
            m = re.match(r"(pub\s+)?(unsafe\s+)?(extern\s+\"C\"\s+)?fn\s+(\w+)", S[i:])
            if m and (i == 0 or not (S[i - 1].isalnum() or S[i - 1] == "_")):
                out.append((i, m.group(4), "export" if m.group(3) else "wrapper"))
                i += m.end()
                continue
        i += 1
    return out


def flatten_unsafe(nodes):
    out = []
    for n in nodes:
        if n[0] == "unsafe":
            out += flatten_unsafe(n[1])
        else:
            out.append(n)
    return out


def gen_ffi(o, consts):
    o.append("/-! ### src/ffi_*.rs -/")
    o.append("")
    wrappers, externs, guards = [], [], []
    for rel in FFI_FILES:
        S = stripped(rel)
        short = rel.split("/")[-1]
        for pos, name, kind in top_level_fns(S, rel):
            fn = f"{short}::{name}"
            attrs, a0 = attrs_before(S, pos)
            p0 = S.index("(", pos)
            p1 = X.match_brace(S, p0, "(", ")")
            b0 = S.index("{", p1)
            ret = S[p1:b0].strip()
            ret = nows(ret[2:]) if ret.startswith("->") else ""
            b1 = X.match_brace(S, b0)
            record(rel, S, a0, b1)
            ps, _ = rs_params(S[p0 + 1:p1 - 1], fn)
            nodes = flatten_unsafe(rs_nodes(S[b0 + 1:b1 - 1], fn))
            asserts, dasserts, locs, order = [], [], [], []
            callee, args, result = None, None, ""
            for n in nodes:
                if n[0] == "macro" and n[1] == "assert":
                    asserts.append(nows(n[2]))
                    order.append("assert")
                elif n[0] == "macro" and n[1].startswith("debug_assert"):
                    dasserts.append(n[1] + "!(" + nows(n[2]) + ")")
                elif n[0] == "let":
                    m = re.match(r"^let\s+(mut\s+)?(\w+)\s*=\s*(.+)$", n[1], re.S)
                    if not m:
                        broken(fn, f"statement {n[1]!r} not understood")
                    locs.append((m.group(2), nows(m.group(3))))
                    order.append("let")
                elif n[0] in ("stmt", "tail") and re.match(r"^[\w:]+\s*\(", n[1]):
                    if callee is not None:
                        broken(fn, "more than one call")
                    callee, args = parse_call(n[1], fn)
                    order.append("call")
                    if n[0] == "tail" and ret:
                        result = "<call>"
                elif n[0] == "tail":
                    result = nows(n[1])
                    order.append("result")
                else:
                    broken(fn, f"statement {n!r} not understood")
            if callee is None:
                broken(fn, "no call found")
            wrappers.append(dict(file=short, name=name, kind=kind, cfgs=cfgs_of(attrs, fn), params=[(p, nows(t)) for p, t, _ in ps],
                                 ret=ret, asserts=asserts, dasserts=dasserts, locals=locs, callee=callee, args=args, result=result, order=order))
            # the assert! of hash_many as code
            for k, a in enumerate(asserts):
                guards.append((short, name, k, a, fn))
        # extern "C" declarations
        for m in re.finditer(r"extern\s+\"C\"\s*\{", S):
            e = X.match_brace(S, m.end() - 1)
            blk = S[m.end():e - 1]
            record(rel, S, m.start(), e)
            i = 0
            while True:
                attrs, i = take_attrs(blk, i)
                i = skip_ws(blk, i)
                if i >= len(blk):
                    break
                md = re.match(r"pub\s+fn\s+(\w+)\s*\(", blk[i:])
                if not md:
                    broken(short, f"extern block item {blk[i:i + 40]!r} not understood")
                q0 = i + md.end() - 1
                q1 = X.match_brace(blk, q0, "(", ")")
                ps, _ = rs_params(blk[q0 + 1:q1 - 1], short)
                j = skip_ws(blk, q1)
                if blk[j:j + 1] != ";":
                    broken(short, f"extern fn {md.group(1)} has a return type or a body")
                externs.append((short, md.group(1), cfgs_of(attrs, short), [(p, nows(t)) for p, t, _ in ps]))
                i = j + 1
    pair = lambda xs: "[" + ", ".join(f"({q(a)}, {q(b)})" for a, b in xs) + "]"
    o.append("/-- every wrapper function of src/ffi_*.rs (`kind` = \"wrapper\": Rust -> C symbol, \"export\": C symbol implemented in Rust) -/")
    o.append("def ffiWrappers : List FfiFn := [")
    rows = []
    for w in wrappers:
        rows.append("  { file := %s, name := %s, kind := %s, cfgs := %s,\n    params := %s, ret := %s,\n    asserts := %s, debugAsserts := %s, locals := %s,\n"
                    "    callee := %s, args := %s,\n    result := %s, order := %s }"
                    % (q(w["file"]), q(w["name"]), q(w["kind"]), lcfgs(w["cfgs"]), pair(w["params"]), q(w["ret"]), lstr(w["asserts"]),
                       lstr(w["dasserts"]), pair(w["locals"]), q(w["callee"]), lstr(w["args"]), q(w["result"]), lstr(w["order"])))
    o.append(",\n".join(rows) + "]")
    o.append("")
    o.append("/-- every declaration inside an `extern \"C\" { }` block of src/ffi_*.rs: (file, symbol, cfgs, parameters) -/")
    o.append("def ffiExterns : List (String × String × List Cfg × List (String × String)) := [")
    o.append(",\n".join(f"  ({q(f)}, {q(n)}, {lcfgs(cs)}, {pair(ps)})" for f, n, cs, ps in externs) + "]")
    o.append("")
    # guards
    for short, name, k, a, fn in guards:
        m = re.match(r"^(\w+)\.len\(\)>=(\w+)\.len\(\)\*(\w+)$", a)
        if not m or m.group(3) not in consts:
            broken(fn, f"assert!({a}) not understood")
        isa = short[len("ffi_"):-len(".rs")]
        o.append(f"/-- `assert!({a})` of `{short}::{name}` (`usize` multiplication with overflow checks) -/")
        o.append(f"def ffi_{isa}_{name}_guard{'' if k == 0 else k} ({m.group(1)}_len {m.group(2)}_len : Nat) : R Unit := do")
        o.append(f"  let t1 ← Arith.cmul {m.group(2)}_len {consts[m.group(3)]}")
        o.append(f"  Arith.assertTrue (decide ({m.group(1)}_len ≥ t1))")
        o.append("")


# ------------------------------------------------------------------------------------------------


def gen_dispatch():
    try:
        consts = X.rust_consts()
        o = ["/- GENERATED by gen/ext_plat.py from src/platform.rs, src/lib.rs, c/blake3_dispatch.c, c/blake3_impl.h, src/ffi_*.rs -- do not edit -/",
             "import B3.DispatchPrim", "set_option linter.unusedVariables false", "namespace B3.Gen.Dispatch", "open B3 B3.Dispatch", "",
             "/-! ### src/platform.rs -/", ""]
        variants = gen_enum(o)
        gen_max_degree(o)
        gen_modules(o)
        gen_detect(o, variants)
        sigs = gen_methods(o, variants)
        gen_xof_many(o, sigs, consts)
        gen_conversions(o, consts)
        cconsts = gen_c_enum(o)
        gen_get_cpu_features(o, cconsts)
        info = gen_c_dispatch(o, cconsts)
        gen_c_xof_loop(o, info)
        gen_c_max_degree(o)
        gen_ffi(o, consts)
        o.append("end B3.Gen.Dispatch")
        return "\n".join(o) + "\n"
    except X.TranslationBroken as ex:
        if ex.artefact != A:
            raise X.TranslationBroken(A, ex.reason)
        raise
    except (ValueError, IndexError, KeyError) as ex:
        raise X.TranslationBroken(A, f"source shape not understood: {ex!r}")


ARTEFACTS = [("Dispatch.lean", A, gen_dispatch)]
