"""G15-rs-sse41: src/rust_sse41.rs (Rust SSE4.1 intrinsics kernels) -> lean/B3/Gen/RsSse41.lean, via gen/extract_simd.py"""
import os
import sys

import extract as X

sys.path.insert(0, os.path.dirname(os.path.abspath(__file__)))
import extract_simd as S   # noqa: E402


def gen_rs_sse41():
    try:
        return S.Generator(X.REPO).run()
    except X.TranslationBroken as ex:
        raise X.TranslationBroken("G15-rs-sse41", str(getattr(ex, "reason", ex)))
    except Exception as ex:
        if type(ex).__name__ == "TranslationBroken":
            raise X.TranslationBroken("G15-rs-sse41", str(ex))
        raise


ARTEFACTS = [("RsSse41.lean", "G15-rs-sse41", gen_rs_sse41)]
