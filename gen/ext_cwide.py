#!/usr/bin/env python3
"""
G23-c-wide, G24-portable-many, G25-oneshot: statement-level translations of

  G24  src/portable.rs  hash1, hash_many                                   -> lean/B3/Gen/PortableMany.lean  (namespace ...Rs)
       c/blake3_portable.c  hash_one_portable, blake3_hash_many_portable   -> lean/B3/Gen/PortableMany.lean  (namespace ...C)
  G25  src/lib.rs  hash, keyed_hash, derive_key, Hasher::update, Hasher::update_rayon, src/hazmat.rs
       hash_derive_key_context, src/join.rs (the `Join` implementations)    -> lean/B3/Gen/RsOneShot.lean
  G23  c/blake3.c  compress_chunks_parallel, compress_parents_parallel, blake3_compress_subtree_wide (serial build and the
       BLAKE3_USE_TBB build with the seam of c/blake3_tbb.cpp inlined), compress_subtree_to_parent_node
                                                                           -> lean/B3/Gen/CWide.lean

The Rust side uses a small typed statement translator (`RTr`, below) over the expression parser of gen/ext_upd.py; the C
side extends the C front end of gen/ext_cimp.py (`WTr`, a copy-and-extend of its `FnTr`).  Everything is derived from the
source text; any statement or expression outside the understood subset raises TranslationBroken.
"""
import os
import re
import sys

import extract as X

sys.path.insert(0, os.path.dirname(os.path.abspath(__file__)))
import ext_upd as U     # noqa: E402  (expression parser P2 / statements of the Rust subset)
import ext_cimp as CI   # noqa: E402  (C front end)

TB = X.TranslationBroken

A_WIDE = "G23-c-wide"
A_MANY = "G24-portable-many"
A_ONE = "G25-oneshot"


# ================================================================================================
# Rust: a small typed statement translator
#
# types: Nat (u64 / usize, checked arithmetic), U8, Bool, CV ([u32; 8]), Bytes (&[u8] / [u8; N]), Inputs (&[&[u8; N]]),
#        Out (struct Output), Join (a type implementing join::Join), Self_ (the four fields of Hasher)

RS_LEAN_TY = {"Nat": "Nat", "U8": "UInt8", "Bool": "Bool", "CV": "CV", "Bytes": "List UInt8", "Inputs": "List (List UInt8)",
              "Chunks": "List (List UInt8)", "Out": "Out", "CS": "CS", "CVs": "List CV"}


def blank_comments(text):
    """comments replaced by blanks of the same length (offsets and line numbers are kept), so that brackets inside comments
    do not disturb bracket matching"""
    def blank(m):
        return re.sub(r"[^\n]", " ", m.group(0))
    text = re.sub(r"/\*.*?\*/", blank, text, flags=re.S)
    return re.sub(r"//[^\n]*", blank, text)


def find_fn2(art, rel, header_re):
    """(header text before the parameter list, parameter text, text between parameter list and body, body text) of the one
    function whose header matches; comments blanked"""
    text = blank_comments(X.src(rel))
    ms = list(re.finditer(header_re, text))
    if len(ms) != 1:
        raise TB(art, f"function header /{header_re}/ occurs {len(ms)} times in {rel} (exactly one expected)")
    m = ms[0]
    try:
        p0 = text.index("(", m.start())
        p1 = X.match_brace(text, p0, "(", ")")
        b0 = text.index("{", p1)
        b1 = X.match_brace(text, b0)
    except ValueError:
        raise TB(art, f"function /{header_re}/ in {rel}: unbalanced brackets")
    X.record_span(art, rel, m.start(), b1)
    return text[m.start():p0], text[p0 + 1:p1 - 1], text[p1:b0], text[b0 + 1:b1 - 1]


def rs_fn(art, rel, header_re):
    """(params text, return type text, body text) of a Rust function; comments and string literals removed"""
    _, params, between, body = find_fn2(art, rel, header_re)
    rt = re.sub(r"\s+", "", between)
    if rt.startswith("->"):
        rt = rt[2:]
    return params, rt, U.strip_strings(body)


def rs_params(art, name, params_txt, expected, receiver=None):
    """compare the parameter list with what the translator was written for: [(name, rust type without blanks)]"""
    ps = [re.sub(r"\s+", "", p) for p in U.top_split(params_txt)]
    if receiver is not None:
        if not ps or ps[0] != receiver:
            raise TB(art, f"{name}: expected receiver {receiver}, found {ps[:1]}")
        ps = ps[1:]
    got = []
    for p in ps:
        m = re.match(r"^(mut)?(\w+):(.+)$", p)
        if not m:
            raise TB(art, f"{name}: parameter {p!r}")
        got.append((m.group(2), m.group(3)))
    if got != expected:
        raise TB(art, f"{name}: parameter list changed: {got} (expected {expected})")


class RTr:
    """one Rust function body -> lines of a Lean `do` block (+ loop definitions in self.defs)

    cfg: name, art, scope {var: type}, consts {NAME: int} (usize constants), u8consts {NAME: int}, fuel {k: lean term},
         muts [variables returned next to the value], ret (type of the value or None), calls {rust fn: handler},
         lean_params (text put after the loop names in definitions: the implicit parameters of the section)"""

    def __init__(self, cfg):
        self.cfg = cfg
        self.name = cfg["name"]
        self.A = cfg["art"]
        self.consts = cfg["consts"]
        self.u8consts = cfg["u8consts"]
        self.defs = []
        self.tmp = 0
        self.nloops = 0
        self.assigned = [[]]

    def fresh(self):
        self.tmp += 1
        return f"t{self.tmp}"

    def note(self, v):
        if v not in self.assigned[-1]:
            self.assigned[-1].append(v)

    def const(self, e):
        return X.const_eval(self.subst_consts(e))

    def subst_consts(self, e):
        k = e[0]
        if k == "var" and e[1] in self.consts:
            return ("num", self.consts[e[1]])
        if k == "paren":
            return (k, self.subst_consts(e[1]))
        if k == "cast" and e[2] in ("u64", "usize"):
            return ("paren", self.subst_consts(e[1]))
        if k == "bin":
            return (k, e[1], self.subst_consts(e[2]), self.subst_consts(e[3]))
        return e

    # ---- expressions
    def ex(self, e, lines, pad, scope):
        k = e[0]
        if k in ("num", "bin", "paren", "var", "cast") and not (k == "cast" and e[2] == "u8"):
            c = self.const(e)
            if c is not None:
                return str(c), ("Lit" if k == "num" else "Nat")
        if k == "var":
            v = e[1]
            if v in self.u8consts:
                return str(self.u8consts[v]), "U8"
            if v == "IV":
                return "Gen.Rs.IV", "CV"
            if v in scope:
                return v, scope[v]
            raise ValueError(f"unknown variable {v}")
        if k == "paren":
            return self.ex(e[1], lines, pad, scope)
        if k == "cast":
            if e[2] == "u8":
                c = self.const(e[1])
                if c is not None and 0 <= c < 256:
                    return str(c), "U8"
                raise ValueError("cast of a non-constant to u8")
            t, ty = self.ex(e[1], lines, pad, scope)
            if e[2] in ("u64", "usize") and ty in ("Nat", "Lit"):
                return t, "Nat"
            raise ValueError(f"cast of {ty} to {e[2]}")
        if k == "bin":
            (a, ta), (b, tb) = self.ex(e[2], lines, pad, scope), self.ex(e[3], lines, pad, scope)
            op = e[1]
            if op == "|" and {ta, tb} <= {"U8", "Lit"}:
                return f"({a} ||| {b})", "U8"
            if ta not in ("Nat", "Lit") or tb not in ("Nat", "Lit"):
                raise ValueError(f"arithmetic `{op}` on {ta}, {tb}")
            f = {"+": "Arith.cadd", "-": "Arith.csub", "*": "Arith.cmul", "/": "Arith.cdiv", "%": "Arith.cmod"}.get(op)
            if not f:
                raise ValueError(f"operator {op}")
            v = self.fresh()
            lines.append(f"{pad}let {v} ← {f} {a} {b}")
            return v, "Nat"
        if k == "slice":
            r, tr = self.ex(e[1], lines, pad, scope)
            if tr != "Bytes":
                raise ValueError(f"slicing a {tr}")
            lo = self.nat(e[2], lines, pad, scope) if e[2] is not None else None
            hi = self.nat(e[3], lines, pad, scope) if e[3] is not None else None
            if lo is None and hi is None:
                return r, tr
            v = self.fresh()
            if lo is None:
                lines.append(f"{pad}let {v} ← sliceTo {r} {hi}")
            elif hi is None:
                lines.append(f"{pad}let {v} ← sliceFrom {r} {lo}")
            else:
                lines.append(f"{pad}let {v} ← sliceRange {r} {lo} {hi}")
            return v, tr
        if k == "macro" and e[1] == "array_ref" and len(e[2]) == 3:
            r, tr = self.ex(e[2][0], lines, pad, scope)
            if tr != "Bytes":
                raise ValueError(f"array_ref! on a {tr}")
            off, ln = self.nat(e[2][1], lines, pad, scope), self.nat(e[2][2], lines, pad, scope)
            v = self.fresh()
            lines.append(f"{pad}let {v} ← arrayRef {r} {off} {ln}")
            return v, "Bytes"
        if k == "field":
            r, tr = self.ex(e[1], lines, pad, scope)
            if tr == "Hash" and e[2] == "tuple0":
                return r, "Bytes"
            raise ValueError(f"field {e[2]} of {tr}")
        if k == "method":
            r, tr = self.ex(e[1], lines, pad, scope)
            name, args = e[2], e[3]
            if name == "len" and not args and tr == "Bytes":
                return f"{r}.length", "Nat"
            if name == "yes" and not args and tr == "IncrementCounter":
                return r, "Bool"
            if name == "as_bytes" and not args and tr == "Str":
                return r, "Bytes"
            h = self.cfg.get("methods", {}).get((tr, name))
            if h is not None:
                return h(self, r, args, lines, pad, scope)
            raise ValueError(f"method {name} on {tr}")
        if k == "call":
            h = self.cfg.get("calls", {}).get(e[1])
            if h is not None:
                return h(self, e[2], lines, pad, scope)
            raise ValueError(f"call of {e[1]}")
        raise ValueError(f"cannot translate {e}")

    def nat(self, e, lines, pad, scope):
        t, ty = self.ex(e, lines, pad, scope)
        if ty not in ("Nat", "Lit"):
            raise ValueError("an index / length is not an integer")
        return t

    def cond(self, s, lines, pad, scope):
        s = s.strip()
        for op, lean in ((">=", "≥"), ("<=", "≤"), ("==", "="), ("!=", "≠"), (">", ">"), ("<", "<")):
            parts = X.split_top(s, op)
            if parts:
                a, ta = self.ex(U.parse(parts[0]), lines, pad, scope)
                b, tb = self.ex(U.parse(parts[1]), lines, pad, scope)
                if ta not in ("Nat", "Lit") or tb not in ("Nat", "Lit"):
                    raise ValueError(f"comparison of {ta} and {tb}")
                return f"{a} {lean} {b}"
        t, ty = self.ex(U.parse(s), lines, pad, scope)
        if ty == "Bool":
            return f"{t} = true"
        raise ValueError(f"condition {s!r}")

    # ---- statements
    def tup(self, vs):
        return "()" if not vs else vs[0] if len(vs) == 1 else "(" + ", ".join(vs) + ")"

    def tuptype(self, vs, scope):
        if not vs:
            return "Unit"
        return "(" + " × ".join(RS_LEAN_TY[scope[v]] for v in vs) + ")"

    def rebind(self, v, rhs, monadic, lines, pad, scope):
        if v not in scope:
            raise ValueError(f"assignment to unknown variable {v}")
        lines.append(f"{pad}let {v} {'←' if monadic else ':='} {rhs}")
        self.note(v)

    def declare(self, v, ty, scope):
        if v in scope:
            raise ValueError(f"`let {v}` shadows an existing variable (not supported)")
        if re.match(r"^t\d+$", v) or v in ("E", "fuel", "rest"):
            raise ValueError(f"variable name {v} clashes with the translator's names")
        scope[v] = ty

    def block(self, stmts, pad, scope):
        """lines of a nested block that falls through + the outer variables it assigns"""
        inner = dict(scope)
        self.assigned.append([])
        lines = []
        for st in stmts:
            self.stmt(st, lines, pad, inner, last=False)
        a = [v for v in self.assigned.pop() if v in scope]
        return lines, a

    def stmt(self, st, lines, pad, scope, last):
        kind = st[0]
        if kind == "while":
            self.do_while(st, lines, pad, scope)
            return
        if kind == "for":
            raise ValueError("`for` loop with a simple pattern")
        if kind == "if":
            if st[3] is not None and re.match(r"^\s*if\b", st[3]):
                raise ValueError("else-if chains are not supported")
            c = self.cond(st[1], lines, pad, scope)
            tl, a1 = self.block(U.statements(st[2]), pad + "    ", scope)
            el, a2 = self.block(U.statements(st[3]) if st[3] is not None else [], pad + "    ", scope)
            vs = [v for v in scope if v in a1 or v in a2]
            if not vs:
                raise ValueError("`if` without effect")
            lines.append(f"{pad}let {self.tup(vs)} ← (if {c} then do")
            lines += tl + [f"{pad}    pure {self.tup(vs)}", f"{pad}  else do"] + el + [f"{pad}    pure {self.tup(vs)})"]
            for v in vs:
                self.note(v)
            return
        t = st[1].strip()
        if kind == "tail":
            if not last:
                raise ValueError("a value in the middle of a block")
            v, ty = self.ex(U.parse(t), lines, pad, scope)
            self.result(v, ty, lines, pad, scope)
            return
        if re.match(r"^debug_assert(_eq|_ne)?!\s*\(", t):
            return
        m = re.match(r"^let\s+(?:mut\s+)?(\w+)(?:\s*:\s*[^=]+)?\s*=\s*(.+)$", t, re.S)
        if m:
            term, ty = self.ex(U.parse(m.group(2)), lines, pad, scope)
            if ty == "Lit":
                ty = "Nat"
            self.declare(m.group(1), ty, scope)
            lines.append(f"{pad}let {m.group(1)} := {term}")
            return
        m = re.match(r"^\*\s*(\w+)\s*=(?!=)\s*(.+)$", t, re.S)
        if m and m.group(1) in self.cfg["muts"]:
            term, ty = self.ex(U.parse(m.group(2)), lines, pad, scope)
            if ty != scope[m.group(1)]:
                raise ValueError(f"`*{m.group(1)} = ..` of type {ty}")
            self.rebind(m.group(1), term, False, lines, pad, scope)
            return
        m = re.match(r"^(\w+)\s*\|=\s*(.+)$", t, re.S)
        if m and scope.get(m.group(1)) == "U8":
            term, ty = self.ex(U.parse(m.group(2)), lines, pad, scope)
            if ty not in ("U8", "Lit"):
                raise ValueError("`|=` with a non-u8")
            self.rebind(m.group(1), f"({m.group(1)} ||| {term})", False, lines, pad, scope)
            return
        m = re.match(r"^(\w+)\s*([-+])=\s*(.+)$", t, re.S)
        if m and scope.get(m.group(1)) == "Nat":
            term, ty = self.ex(U.parse(m.group(3)), lines, pad, scope)
            if ty not in ("Nat", "Lit"):
                raise ValueError("compound assignment with a non-integer")
            f = {"+": "Arith.cadd", "-": "Arith.csub"}[m.group(2)]
            self.rebind(m.group(1), f"{f} {m.group(1)} {term}", True, lines, pad, scope)
            return
        m = re.match(r"^(\w+)\s*=(?!=)\s*(.+)$", t, re.S)
        if m and m.group(1) in scope:
            term, ty = self.ex(U.parse(m.group(2)), lines, pad, scope)
            want = scope[m.group(1)]
            if ty != want and not (ty == "Lit" and want in ("Nat", "U8")):
                raise ValueError(f"assignment of a {ty} to {m.group(1)} : {want}")
            self.rebind(m.group(1), term, False, lines, pad, scope)
            return
        e = None
        try:
            e = U.parse(t)
        except Exception:
            pass
        if e is not None and e[0] == "call":
            h = self.cfg.get("call_stmts", {}).get(e[1])
            if h is not None:
                h(self, e[2], lines, pad, scope)
                return
        raise ValueError(f"statement {t!r}")

    def result(self, v, ty, lines, pad, scope):
        want = self.cfg["ret"]
        if ty != want and not (ty == "Hash" and want == "Bytes"):
            raise ValueError(f"result of type {ty}, expected {want}")
        lines.append(f"{pad}pure {self.tup([v] + self.cfg['muts'])}")

    def loop_params(self, svars, scope, text_lines):
        txt = "\n".join(text_lines)
        return [v for v in scope if v not in svars and RS_LEAN_TY.get(scope[v]) and re.search(r"(?<![\w.])%s\b" % re.escape(v), txt)]

    def do_while(self, st, lines, pad, scope):
        self.nloops += 1
        k = self.nloops
        lname = f"{self.name}_loop{k}" if k > 1 else f"{self.name}_loop"
        cl = []
        c = self.cond(st[1], cl, "      ", scope)
        bl, svars = self.block(U.statements(st[2]), "        ", scope)
        svars = [v for v in scope if v in svars]
        if not svars:
            raise ValueError("loop assigns nothing")
        ro = self.loop_params(svars, scope, cl + bl + [c])
        args = svars + ro
        d = [f"def {lname} : Nat → " + " → ".join(RS_LEAN_TY[scope[v]] for v in args) + f" → R {self.tuptype(svars, scope)}",
             "  | 0, " + ", ".join("_" for _ in args) + " => .panic   -- out of fuel",
             "  | fuel + 1, " + ", ".join(args) + " => do"]
        d += cl
        d += [f"      if {c} then do"] + bl + [f"        {lname} fuel " + " ".join(args), f"      else pure {self.tup(svars)}", ""]
        self.defs.append("\n".join(d))
        fuel = self.cfg["fuel"].get(k)
        if fuel is None:
            raise ValueError(f"no fuel configured for loop {k}")
        lines.append(f"{pad}let {self.tup(svars)} ← {lname} ({fuel}) " + " ".join(args))
        for v in svars:
            self.note(v)

    def do_zip_for(self, st, lines, pad, scope):
        """for (&x, y) in xs.iter().zip(out.chunks_exact_mut(N)) { .. }  ->  structural recursion over both lists; the chunks
        are re-assembled into `out` (chunks ++ remainder) afterwards.  `zip` stops at the shorter iterator."""
        m = re.match(r"^\(\s*&\s*(\w+)\s*,\s*(\w+)\s*\)\s+in\s+(\w+)\s*\.\s*iter\s*\(\s*\)\s*\.\s*zip\s*\(\s*(\w+)\s*\.\s*chunks_exact_mut\s*\((.+)\)\s*\)$",
                     st[1].strip(), re.S)
        if not m:
            raise ValueError(f"for loop header {st[1]!r}")
        x, y, xs, out, size = m.groups()
        if scope.get(xs) != "Inputs" or scope.get(out) != "Bytes" or out not in self.cfg["muts"]:
            raise ValueError("zip of something other than the inputs with the chunks of the `&mut [u8]` output")
        n = self.const(U.parse(size))
        if n is None or n <= 0:
            raise ValueError("chunks_exact_mut with a non-constant size")
        self.nloops += 1
        k = self.nloops
        lname = f"{self.name}_for{k}" if k > 1 else f"{self.name}_for"
        inner = dict(scope)
        del inner[xs]
        del inner[out]
        self.declare(x, "Bytes", inner)
        self.declare(y, "Bytes", inner)
        self.assigned.append([])
        bl = []
        for s2 in U.statements(st[2]):
            self.stmt(s2, bl, "      ", inner, last=False)
        asg = self.assigned.pop()
        svars = [v for v in scope if v in asg and v in inner]
        ro = self.loop_params(svars + [x, y], inner, bl)
        args = svars + ro
        rt = "(" + " × ".join(["List (List UInt8)"] + [RS_LEAN_TY[scope[v]] for v in svars]) + ")"
        res = lambda first: "(" + ", ".join([first] + svars) + ")"
        d = [f"def {lname} : List (List UInt8) → List (List UInt8) → " + " → ".join(RS_LEAN_TY[scope[v]] for v in args) + f" → R {rt}",
             f"  | {x} :: {xs}_rest, {y} :: {out}_rest, " + ", ".join(args) + " => do"]
        d += bl
        d += [f"      let {res(out + '_rest')} ← {lname} {xs}_rest {out}_rest " + " ".join(args),
              f"      pure {res('(' + y + ' :: ' + out + '_rest)')}",
              f"  | _, {out}_chunks, " + ", ".join(args) + f" => pure {res(out + '_chunks')}", ""]
        self.defs.append("\n".join(d))
        ch = self.fresh()
        lines.append(f"{pad}let {ch} := chunksExact {n} {out}")
        lines.append(f"{pad}let {res(ch + '_new')} ← {lname} {xs} {ch}.1 " + " ".join(args))
        self.rebind(out, f"{ch}_new.flatten ++ {ch}.2", False, lines, pad, scope)
        for v in svars:
            self.note(v)

    def body(self, text, scope):
        stmts = []
        # `for (..) in ..` headers are not understood by U.statements: split them off first
        for st in rs_statements2(text):
            stmts.append(st)
        lines = []
        for i, st in enumerate(stmts):
            if st[0] == "zipfor":
                self.do_zip_for(st, lines, "  ", scope)
            else:
                self.stmt(st, lines, "  ", scope, last=(i == len(stmts) - 1))
        if not stmts or stmts[-1][0] != "tail":
            if self.cfg["ret"] is not None:
                raise ValueError("the function body ends without a value")
            lines.append(f"  pure {self.tup(self.cfg['muts'])}")
        return lines


def rs_statements2(text):
    """U.statements, plus ('zipfor', header, body) for `for (pattern) in iterator { .. }`"""
    out = []
    i = 0
    while True:
        m = re.search(r"\bfor\s*\(", text[i:])
        if not m:
            out += U.statements(text[i:])
            return out
        out += U.statements(text[i:i + m.start()])
        j = i + m.start() + 3
        depth = 0
        k = j
        while k < len(text):
            ch = text[k]
            if ch in "([":
                depth += 1
            elif ch in ")]":
                depth -= 1
            elif ch == "{" and depth == 0:
                break
            k += 1
        e = X.match_brace(text, k)
        out.append(("zipfor", text[j:k].strip(), text[k + 1:e - 1]))
        i = e


def rs_translate(cfg, rel, header_re, sig, doc, expected_params, rust_ret, receiver=None):
    art, name = cfg["art"], cfg["name"]
    params, rt, body = rs_fn(art, rel, header_re)
    rs_params(art, name, params, expected_params, receiver)
    if rt != rust_ret:
        raise TB(art, f"{name}: return type changed: {rt!r} (expected {rust_ret!r})")
    tr = RTr(cfg)
    try:
        lines = tr.body(cfg.get("prep", lambda s: s)(body), dict(cfg["scope"]))
    except TB:
        raise
    except Exception as ex:
        raise TB(art, f"{name}: {ex}")
    out = list(tr.defs)
    out.append(f"/-- {doc} -/")
    out.append(f"def {name} {sig} : R {cfg['lean_ret']} := do")
    out += lines
    out.append("")
    return "\n".join(out)


U8_CONSTS = ["CHUNK_START", "CHUNK_END", "PARENT", "ROOT", "KEYED_HASH", "DERIVE_KEY_CONTEXT", "DERIVE_KEY_MATERIAL"]


def rs_u8consts(art):
    return {n: X.rust_const_int(art, "src/lib.rs", n) for n in U8_CONSTS}


# ------------------------------------------------------------------------------------------------
# G24, Rust half: src/portable.rs hash1, hash_many


def check_arg_types(what, ts, want):
    for (t, ty), w in zip(ts, want):
        if ty != w and not (ty == "Lit" and w in ("Nat", "U8")):
            raise ValueError(f"{what}: argument of type {ty} where {w} is expected")
    if len(ts) != len(want):
        raise ValueError(f"{what}: {len(ts)} arguments")


def gen_rs_portable_many():
    consts = dict(X.rust_consts())
    u8c = rs_u8consts(A_MANY)

    def call_cip(tr, args, lines, pad, scope):
        # compress_in_place(&mut cv, block, block_len, counter, flags): the first argument is updated in place
        if len(args) != 5 or args[0][0] != "var" or scope.get(args[0][1]) != "CV":
            raise ValueError("compress_in_place: the first argument must be a `&mut` variable holding chaining-value words")
        ts = [tr.ex(a, lines, pad, scope) for a in args]
        check_arg_types("compress_in_place", ts, ["CV", "Bytes", "U8", "Nat", "U8"])
        cv = args[0][1]
        tr.rebind(cv, f"Gen.Rs.compress_in_place {cv} (wordsOfBytes 16 {ts[1][0]}) {ts[2][0]} (UInt64.ofNat {ts[3][0]}) {ts[4][0]}",
                  False, lines, pad, scope)

    def call_le_bytes(tr, args, lines, pad, scope):
        ts = [tr.ex(a, lines, pad, scope) for a in args]
        check_arg_types("le_bytes_from_words_32", ts, ["CV"])
        return f"(bytesOfWords {ts[0][0]})", "Bytes"

    def call_hash1(tr, args, lines, pad, scope):
        # hash1(input, key, counter, flags, flags_start, flags_end, array_mut_ref!(output, 0, OUT_LEN))
        if len(args) != 7:
            raise ValueError("hash1: 7 arguments expected")
        ts = [tr.ex(a, lines, pad, scope) for a in args[:6]]
        check_arg_types("hash1", ts, ["Bytes", "CV", "Nat", "U8", "U8", "U8"])
        o = args[6]
        if not (o[0] == "macro" and o[1] == "array_mut_ref" and len(o[2]) == 3 and o[2][0][0] == "var"
                and scope.get(o[2][0][1]) == "Bytes"):
            raise ValueError("hash1: the output must be array_mut_ref!(<byte slice>, off, len)")
        dst = o[2][0][1]
        off, ln = tr.nat(o[2][1], lines, pad, scope), tr.nat(o[2][2], lines, pad, scope)
        w, r = tr.fresh(), tr.fresh()
        lines.append(f"{pad}let {w} ← arrayRef {dst} {off} {ln}")
        lines.append(f"{pad}let {r} ← hash1 N " + " ".join(t for t, _ in ts) + f" {w}")
        tr.rebind(dst, f"copyInto {dst} {off} {ln} {r}", True, lines, pad, scope)

    base = dict(art=A_MANY, consts=consts, u8consts=u8c)
    o = []
    # hash1
    cfg = dict(base, name="hash1", muts=["out"], ret=None, lean_ret="(List UInt8)", fuel={1: "slice.length + 1"},
               scope={"input": "Bytes", "key": "CV", "counter": "Nat", "flags": "U8", "flags_start": "U8", "flags_end": "U8",
                      "out": "Bytes"},
               calls={"crate::platform::le_bytes_from_words_32": call_le_bytes}, call_stmts={"compress_in_place": call_cip})
    o.append(rs_translate(
        cfg, "src/portable.rs", r"pub\s+fn\s+hash1\s*<\s*const\s+N\s*:\s*usize\s*>\s*\(",
        "(N : Nat) (input : List UInt8) (key : CV) (counter : Nat) (flags flags_start flags_end : UInt8) (out : List UInt8)",
        "`portable::hash1::<N>`: returns the new `*out` (`input: &[u8; N]` has `N` bytes by its type; the `debug_assert_eq!` is "
        "dropped; `compress_in_place` is the generated one of Gen/RsPortable.lean on the 16 little-endian words of the block)",
        [("input", "&[u8;N]"), ("key", "&CVWords"), ("counter", "u64"), ("flags", "u8"), ("flags_start", "u8"),
         ("flags_end", "u8"), ("out", "&mutCVBytes")], ""))
    # hash_many
    cfg = dict(base, name="hash_many", muts=["out"], ret=None, lean_ret="(List UInt8)", fuel={},
               scope={"inputs": "Inputs", "key": "CV", "counter": "Nat", "increment_counter": "IncrementCounter", "flags": "U8",
                      "flags_start": "U8", "flags_end": "U8", "out": "Bytes"},
               calls={}, call_stmts={"hash1": call_hash1})
    RS_LEAN_TY["IncrementCounter"] = "Bool"
    txt = rs_translate(
        cfg, "src/portable.rs", r"pub\s+fn\s+hash_many\s*<\s*const\s+N\s*:\s*usize\s*>\s*\(",
        "(N : Nat) (inputs : List (List UInt8)) (key : CV) (counter : Nat) (increment_counter : Bool) "
        "(flags flags_start flags_end : UInt8) (out : List UInt8)",
        "`portable::hash_many::<N>`: returns the new `out` (the `debug_assert!` on the size of `out` is dropped: `zip` then simply "
        "stops at the shorter of the two iterators; `counter += 1` is checked u64 arithmetic)",
        [("inputs", "&[&[u8;N]]"), ("key", "&CVWords"), ("counter", "u64"), ("increment_counter", "IncrementCounter"),
         ("flags", "u8"), ("flags_start", "u8"), ("flags_end", "u8"), ("out", "&mut[u8]")], "")
    # the loop definitions take N as their first argument
    txt = re.sub(r"def hash_many_for : ", "def hash_many_for (N : Nat) : ", txt)
    txt = re.sub(r"\bhash_many_for (?!\(N)(?!:)", "hash_many_for N ", txt)
    o.append(txt)
    # IncrementCounter::yes
    # IncrementCounter::yes is translated as the Bool `increment_counter`: check it still is Yes => true, No => false
    X.find_const(A_MANY, "src/lib.rs", r"impl\s+IncrementCounter\s*\{\s*(?:#\[inline[^\]]*\]\s*)?fn\s+yes\s*\(\s*&self\s*\)\s*->\s*bool\s*\{\s*match\s+self\s*\{\s*IncrementCounter::Yes\s*=>\s*true\s*,\s*IncrementCounter::No\s*=>\s*false\s*,?\s*\}\s*\}\s*\}")
    return "\n".join(o)


# ================================================================================================
# C: extension of the front end of gen/ext_cimp.py
#
# new in `WTr` (over `CI.FnTr`):
#   * `uint8_t *p` parameters (writable, unbounded): the pair (array `p`, offset `p_off`); `p = &p[e]` advances the offset
#     (`advOff`: beyond one past the end = panic); the callee returns the new array
#   * `const uint8_t *const *inputs` / `const uint8_t *a[N]`: lists of pointers (`List (List UInt8)`, a pointer = the rest of
#     its buffer); `a[i] = &x[e]` (`setPtr`: `i` beyond the declared size = panic), `inputs[0]` (`Arith.getIdx`), `inputs += 1`
#   * `const uint8_t *p` parameters may be re-assigned: `p = &p[e]`
#   * `x |= e` on uint8_t
#   * array sizes that depend on the platform constants (`MAX_SIMD_DEGREE`, `MAX_SIMD_DEGREE_OR_2` = fields / function of `P`)
#   * `assert(c)` (kept: `Arith.assertTrue`), `left_subtree_len` (generated `Gen.C.left_subtree_len`), `blake3_simd_degree()`
#     and `blake3_hash_many(..)` (fields of `P`), self-recursion (by fuel), `SIZE_MAX`
#   * preprocessor: `#if defined(BLAKE3_TESTING)` blocks are dropped (the macro is not defined in library builds),
#     `#if defined(BLAKE3_USE_TBB) .. #else .. #endif` is resolved per build variant, `#if <condition on platform
#     constants> .. #endif` becomes a run-time `if` on the fields of `P`

W64 = 1 << 64
Broken = CI.Broken


class SymDim(str):
    """an array dimension that is not a number: a Lean term over the platform constants"""


class WParser(CI.Parser):
    def type_prefix(self):
        const = False
        if self.peek() == ("id", "const"):
            self.next()
            const = True
        k, v = self.next()
        if k != "id" or not (v in CI.BASE_TYPES or v in CI.STRUCT_NAMES):
            raise Broken(f"type name expected, found {v!r}")
        base = CI.BASE_TYPES.get(v, v)
        if self.peek() == ("id", "const"):
            self.next()
            const = True
        ptr = 0
        while self.at("*"):
            self.next()
            ptr += 1
            if self.peek() == ("id", "const"):
                self.next()
        return CI.CType(base, ptr, const)

    def const_int(self, e):
        v = CI.const_fold(e, self.consts)
        if v is not None:
            return v
        return SymDim(sym_term(e, self.consts))

    def statement(self):
        if self.peek() == ("id", "__cppif"):
            # produced by `preprocess`: __cppif (cond) { .. }
            self.next()
            self.expect("(")
            c = self.expr()
            self.expect(")")
            return ("if", c, self.braced(), None)
        return super().statement()


PLAT_CONSTS = {"MAX_SIMD_DEGREE": "P.MAX_SIMD_DEGREE", "MAX_SIMD_DEGREE_OR_2": "P.MAX_SIMD_DEGREE_OR_2"}


def sym_term(e, consts):
    """Lean term (plain Nat arithmetic) of a compile-time expression over the platform constants"""
    v = CI.const_fold(e, consts)
    if v is not None:
        return str(v)
    k = e[0]
    if k == "id" and e[1] in PLAT_CONSTS:
        return PLAT_CONSTS[e[1]]
    if k == "bin" and e[1] in ("*", "+", "/"):
        return f"({sym_term(e[2], consts)} {e[1]} {sym_term(e[3], consts)})"
    raise Broken(f"array dimension {CI.show(e)} is not an expression over the platform constants")


def preprocess(art, fn, body, tbb):
    """resolve the preprocessor conditionals inside a function body (see the list above)"""
    out, stack = [], []      # stack entries: [kind, emitting?]
    for line in body.split("\n"):
        s = line.strip()
        if not s.startswith("#"):
            if all(e[1] for e in stack):
                out.append(line)
            continue
        d = re.sub(r"\s+", " ", s[1:].strip())
        m = re.match(r"^if defined ?\( ?(\w+) ?\)$", d)
        if m and m.group(1) == "BLAKE3_TESTING":
            stack.append(["testing", False])
        elif m and m.group(1) == "BLAKE3_USE_TBB":
            stack.append(["tbb", tbb])
        elif re.match(r"^if ", d) and not re.search(r"\bdefined\b", d):
            cond = d[3:].strip()
            if not set(re.findall(r"[A-Za-z_]\w*", cond)) <= set(PLAT_CONSTS):
                raise TB(art, f"{fn}: preprocessor condition `{cond}` is not over the platform constants")
            if all(e[1] for e in stack):
                out.append(f"__cppif ({cond}) {{")
            stack.append(["cond", True])
        elif d == "else" and stack and stack[-1][0] == "tbb":
            stack[-1][1] = not stack[-1][1]
        elif d.startswith("endif") and stack:
            k = stack.pop()
            if k[0] == "cond" and all(e[1] for e in stack):
                out.append("}")
        else:
            raise TB(art, f"{fn}: preprocessor directive `{s}` is not understood")
    if stack:
        raise TB(art, f"{fn}: unbalanced preprocessor conditionals")
    return "\n".join(out)


def c_fn_source(art, name, rel):
    rx = CI.HEADER_RE.replace("{name}", re.escape(name))
    header, params, between, body = find_fn2(art, rel, rx)
    if between.strip():
        raise TB(art, f"{name}: unexpected text between the parameter list and the body")
    rt = re.sub(r"\b(INLINE|static)\b", "", header)
    rt = rt[:rt.rindex(name)].strip()
    return rt, params, body


def c_proto(art, name, rel):
    text = X.strip_comments(X.src(rel))
    m = re.search(r"\b(void|size_t|uint8_t)\s+%s\s*\(" % re.escape(name), text)
    if not m:
        raise TB(art, f"prototype of {name} not found in {rel}")
    p0 = m.end() - 1
    p1 = X.match_brace(text, p0, "(", ")")
    X.record_span(art, rel, m.start(), p1)
    return m.group(1), text[p0 + 1:p1 - 1]


def vtype2(ty, structs):
    """CI.vtype_of_ctype plus pointer lists and size_t out-parameters"""
    if ty.base in ("u8",) and ty.ptr == 2 and ty.dim is None:
        return ("ptrs", None)
    if ty.base in ("u8",) and ty.ptr == 1 and ty.dim is not None:
        return ("ptrs", ty.dim)
    return CI.vtype_of_ctype(ty, structs)


def lean_vt(vt):
    if isinstance(vt, tuple) and vt[0] == "ptrs":
        return "List (List UInt8)"
    return CI.lean_type_of_vtype(vt)


def param_mode(n, ty, structs):
    """'val' | 'in' | 'inout' | 'offptr' | 'in?' (array parameter: decided by whether the body writes it)"""
    vt = vtype2(ty, structs)
    if vt in ("u8", "u64", "bool"):
        return "val"
    if isinstance(vt, tuple) and vt[0] == "ptrs":
        if not ty.const:
            raise Broken(f"parameter {n}: writable pointer list")
        return "in"
    if ty.const:
        return "in"
    if isinstance(vt, tuple) and vt[0] == "struct":
        return "inout"
    if isinstance(vt, tuple) and vt[0] == "bytes" and vt[1] is None:
        return "offptr"
    return "in?"


class WSig(CI.FnSig):
    """kind: 'gen' (translated here: `name E P ..`, monadic) | 'cstate' (Gen.CState: `name E ..`, monadic) |
    'plat' (`P.name ..`, monadic) | 'rec' (the function being translated: `name E P fuel ..`)"""

    def __init__(self, name, params, ret, kind, fuel=None):
        super().__init__(name, params, ret, kind)
        self.fuel = fuel


class WTr(CI.FnTr):
    def __init__(self, world, name, params, ret_ctype, body, fuels, env="E P", recursive=False):
        self.env = env
        self.recursive = recursive
        super().__init__(world, name, params, ret_ctype, body, fuels)
        self.ret = None if (ret_ctype.base == "void" and not ret_ctype.ptr) else vtype2(ret_ctype, world.structs)

    def var_lean_type(self, v):
        return lean_vt(v.vt)

    # ---- values
    def ex(self, e, out, pad):
        if e[0] == "id" and e[1] in PLAT_CONSTS and self.lookup(e[1]) is None:
            return PLAT_CONSTS[e[1]], "u64"
        if e[0] == "idx":
            raise Broken(f"array element {CI.show(e)} used as a value")
        return super().ex(e, out, pad)

    def ref(self, e, out, pad):
        if e[0] == "cast" and e[1].ptr:
            return self.ref(e[2], out, pad)
        if e[0] == "id":
            v = self.lookup(e[1])
            if v is not None and getattr(v, "offvar", None):
                self.use(v.offvar)
                p = (v.name, [], v.vt)
                return (self.place_read(p), v.offvar, p)
        if e[0] == "idx":
            # p[i] where p is a list of pointers: the pointer stored there
            b = e[1]
            v = self.lookup(b[1]) if b[0] == "id" else None
            if v is not None and isinstance(v.vt, tuple) and v.vt[0] == "ptrs":
                self.use(v.name)
                t, vt = self.ex(e[2], out, pad)
                i = self.to_index(t, vt, out, pad)
                r = self.fresh()
                out.append(f"{pad}let {r} ← Arith.getIdx {v.name} {CI.atom(i)}")
                return (r, None, None)
        return super().ref(e, out, pad)

    def ptr_value(self, e, out, pad):
        """the pointer denoted by `e` as a value (the rest of its buffer)"""
        lst, off, _ = self.ref(e, out, pad)
        if off is None:
            return lst
        t = self.fresh()
        out.append(f"{pad}let {t} ← CMem.ptr {CI.atom(lst)} {CI.atom(off)}")
        return t

    # ---- calls
    def call(self, e, out, pad, want_value):
        name, args = e[1], e[2]
        if name == "assert":
            if len(args) != 1 or want_value:
                raise Broken("assert with other than one argument / used as a value")
            c = self.cond(args[0], out, pad)
            out.append(f"{pad}let _ ← Arith.assertTrue (decide ({c}))")
            return None
        if name == "left_subtree_len":
            if len(args) != 1:
                raise Broken("left_subtree_len: one argument expected")
            t, vt = self.ex(args[0], out, pad)
            v = self.fresh()
            out.append(f"{pad}let {v} ← Gen.C.left_subtree_len {CI.atom(self.conv(t, vt, 'u64'))}")
            return v, "u64"
        if name == "blake3_simd_degree":
            if args:
                raise Broken("blake3_simd_degree takes no argument")
            return "P.blake3_simd_degree", "u64"
        sig = self.w.sigs.get(name)
        if sig is None or not isinstance(sig, WSig):
            if sig is not None or name in ("popcnt", "round_down_to_power_of_2", "strlen", "memcpy", "memset", "load_key_words",
                                            "store_cv_words"):
                return super().call(e, out, pad, want_value)
            raise Broken(f"call to {name}, which is not translated")
        if len(args) != len(sig.params):
            raise Broken(f"{name} called with {len(args)} arguments")
        terms, backs = [], []
        for (pn, pty, mode), a in zip(sig.params, args):
            pvt = vtype2(pty, self.w.structs)
            if mode == "val":
                t, vt = self.ex(a, out, pad)
                terms.append(CI.atom(self.conv(t, vt, pvt)))
                continue
            if isinstance(pvt, tuple) and pvt[0] == "ptrs":
                t, vt = self.ex(a, out, pad)
                if not (isinstance(vt, tuple) and vt[0] == "ptrs"):
                    raise Broken(f"{name}: argument {pn} is not a list of pointers")
                terms.append(CI.atom(t))
                continue
            if isinstance(pvt, tuple) and pvt[0] == "struct" or pvt == "words":
                if pvt == "words" and mode == "in":
                    t, vt = self.ex(a, out, pad)
                    if vt != "words":
                        raise Broken(f"{name}: argument {pn} is not a uint32_t[8]")
                    terms.append(CI.atom(t))
                    continue
                p = self.place(a)
                if p is None or p[2] != pvt:
                    raise Broken(f"{name}: argument {pn} = {CI.show(a)} is not a {pvt}")
                terms.append(CI.atom(self.place_read(p)))
                if mode == "inout":
                    backs.append(("place", p))
                continue
            # byte buffers
            if mode == "offptr":
                lst, off, pl = self.ref(a, out, pad)
                if pl is None:
                    raise Broken(f"{name}: argument {pn} must be writable")
                terms += [CI.atom(lst), CI.atom(off or "0")]
                backs.append(("place", pl))
                continue
            n = pvt[1]
            if n is None:
                terms.append(CI.atom(self.ptr_value(a, out, pad)))
                continue
            lst, off, pl = self.ref(a, out, pad)
            if mode == "inout" and pl is None:
                raise Broken(f"{name}: argument {pn} must be writable")
            t = self.fresh()
            out.append(f"{pad}let {t} ← CMem.rd {CI.atom(lst)} {CI.atom(off or '0')} {n}")
            terms.append(t)
            if mode == "inout":
                backs.append(("bytes", pl, off or "0"))
        res = [self.fresh() for _ in backs]
        rv = None
        if sig.ret is not None:
            rv = self.fresh() if want_value else "_"
            res.append(rv)
        pat = "_" if not res else res[0] if len(res) == 1 else "(" + ", ".join(res) + ")"
        if sig.kind == "plat":
            head = f"P.{name}"
        elif sig.kind == "cstate":
            head = f"{name} E"
        elif sig.kind == "rec":
            head = f"{name} {self.env} fuel" if name == self.name else f"{name} {self.env} ({self.fuel_of(sig, terms)})"
        elif sig.kind == "pure":
            head = name
        else:
            head = f"{name} {self.env}"
        out.append(f"{pad}let {pat} {':=' if sig.kind == 'pure' else '←'} {head} " + " ".join(terms))
        for b, r in zip(backs, res):
            if b[0] == "place":
                self.place_write(b[1], r, out, pad)
            else:
                _, pl, off = b
                t = self.fresh()
                out.append(f"{pad}let {t} ← CMem.wr {CI.atom(self.place_read(pl))} {CI.atom(off)} {r}")
                self.place_write(pl, t, out, pad)
        if want_value:
            if sig.ret is None:
                raise Broken(f"{name} returns no value")
            return rv, sig.ret
        return None

    def fuel_of(self, sig, terms):
        """fuel for a call of a recursive function from outside: the configured parameter's actual argument"""
        names = []
        for pn, pty, mode in sig.params:
            names += [pn, pn + "_off"] if mode == "offptr" else [pn]
        return terms[names.index(sig.fuel)]

    # ---- statements
    def stmt(self, st, out, pad):
        k = st[0]
        if k == "decl":
            _, ty, name, init = st
            vt = None
            try:
                vt = vtype2(ty, self.w.structs)
            except Broken:
                pass
            if isinstance(vt, tuple) and vt[0] == "ptrs":
                if init is not None or vt[1] is None:
                    raise Broken(f"pointer list {name}: only uninitialised arrays of pointers are supported")
                out.append(f"{pad}let {name} : List (List UInt8) := CPtr.uninitPtrs {CI.atom(vt[1])}")
                self.declare(name, vt)
                return
        if k == "assign":
            _, lhs, op, rhs = st
            if lhs[0] == "idx" and lhs[1][0] == "id":
                v = self.lookup(lhs[1][1])
                if v is not None and isinstance(v.vt, tuple) and v.vt[0] == "ptrs" and op == "=":
                    p = self.ptr_value(rhs, out, pad)
                    t, vt = self.ex(lhs[2], out, pad)
                    i = self.to_index(t, vt, out, pad)
                    self.write(v.name)
                    out.append(f"{pad}let {v.name} ← CPtr.setPtr {v.name} {CI.atom(i)} {CI.atom(p)}")
                    return
            if lhs[0] == "id":
                v = self.lookup(lhs[1])
                if v is not None and isinstance(v.vt, tuple) and v.vt[0] == "ptrs" and v.vt[1] is None and op == "+=":
                    t, tt = self.ex(rhs, out, pad)
                    n = self.to_index(t, tt, out, pad)
                    self.use(v.name)
                    self.written.add(v.name)
                    out.append(f"{pad}let {v.name} ← CPtr.ptrsAdvance {v.name} {CI.atom(n)}")
                    return
                if v is not None and v.alias is None and isinstance(v.vt, tuple) and v.vt[0] == "bytes" and v.vt[1] is None \
                        and op == "=":
                    # p = &p[e]  /  p = p + e
                    base, off = None, None
                    if rhs[0] == "un" and rhs[1] == "&" and rhs[2][0] == "idx":
                        base, off = rhs[2][1], rhs[2][2]
                    elif rhs[0] == "bin" and rhs[1] == "+":
                        base, off = rhs[2], rhs[3]
                    if base != ("id", v.name):
                        raise Broken(f"pointer assignment {CI.show(lhs)} = {CI.show(rhs)} (only `p = &p[e]` is supported)")
                    t, tt = self.ex(off, out, pad)
                    n = self.to_index(t, tt, out, pad)
                    if getattr(v, "offvar", None):
                        self.use(v.name)
                        self.write(v.offvar)
                        out.append(f"{pad}let {v.offvar} ← CPtr.advOff {v.name} {v.offvar} {CI.atom(n)}")
                    elif v.kind != "buffer":
                        self.use(v.name)
                        self.written.add(v.name)
                        out.append(f"{pad}let {v.name} ← CMem.ptr {v.name} {CI.atom(n)}")
                    else:
                        raise Broken(f"assignment to the array parameter {v.name}")
                    return
            if op in ("|=", "&="):
                p = self.place(lhs)
                if p is not None and p[2] == "u8":
                    t, tt = self.ex(rhs, out, pad)
                    cur = self.place_read(p)
                    self.place_write(p, f"({cur} {'|||' if op == '|=' else '&&&'} {CI.atom(self.conv(t, tt, 'u8'))})", out, pad)
                    return
        super().stmt(st, out, pad)

    # ---- loops and join points: the environment parameters
    def loop(self, st, out, pad):
        if self.recursive:
            raise Broken("a loop inside a recursive function")
        n0 = len(self.defs)
        super().loop(st, out, pad)
        name = f"{self.name}_loop" + (str(self.nloops) if self.nloops > 1 else "")
        self.defs[n0:] = [fix_env(d, name, self.env) for d in self.defs[n0:]]
        out[-1] = fix_env(out[-1], name, self.env)

    def join(self, rest, k):
        raise Broken("join points are not supported here")

    # ---- the function
    def translate(self):
        structs = self.w.structs
        modes = {n: param_mode(n, ty, structs) for n, ty in self.cparams}
        for attempt in range(3):
            self.reset_state()
            self.sig_params = [(n, ty, "in" if modes[n] == "in?" else modes[n]) for n, ty in self.cparams]
            rets = [lean_vt(vtype2(ty, structs)) for n, ty, m in self.sig_params if m in ("inout", "offptr")]
            if self.ret is not None:
                rets.append(lean_vt(self.ret))
            self.ret_lean = "Unit" if not rets else (CI.atom(rets[0]) if len(rets) == 1 else "(" + " × ".join(rets) + ")")
            for n, ty in self.cparams:
                vt = vtype2(ty, structs)
                isbytes = isinstance(vt, tuple) and vt[0] == "bytes"
                kind = "buffer" if (modes[n] in ("inout", "in?", "offptr") and isbytes) else "param"
                v = self.declare(n, vt, kind=kind, writable=(modes[n] != "in" or (isbytes and vt[1] is None) or
                                                              (isinstance(vt, tuple) and vt[0] == "ptrs")))
                if modes[n] == "offptr":
                    v.offvar = n + "_off"
                    self.declare(n + "_off", "u64", kind="param")
            lines = []
            self.block(self.body, ("fn",), lines, "    " if self.recursive else "  ")
            changed = False
            for n, ty in self.cparams:
                if modes[n] == "in?":
                    v = next(x for x in self.scope if x.name == n)
                    if v.dirty:
                        modes[n] = "inout"
                        changed = True
            if not changed:
                break
        for n in modes:
            if modes[n] == "in?":
                modes[n] = "in"
        self.sig_params = [(n, ty, modes[n]) for n, ty in self.cparams]
        ps = []
        for n, ty in self.cparams:
            ps.append((n, lean_vt(vtype2(ty, structs))))
            if modes[n] == "offptr":
                ps.append((n + "_off", "Nat"))
        aux = "".join(d + "\n" for d in self.defs)
        envsig = ENV_SIGS[self.env]
        if self.recursive:
            text = (f"def {self.name} {envsig} : Nat → " + " → ".join(t for _, t in ps) + f" → R {self.ret_lean}\n"
                    + "  | 0, " + ", ".join("_" for _ in ps) + " => .panic   -- out of fuel\n"
                    + "  | fuel + 1, " + ", ".join(n for n, _ in ps) + " => do\n" + "\n".join(lines) + "\n")
        else:
            sig = " ".join(f"({n} : {t})" for n, t in ps)
            text = f"def {self.name} {envsig} {sig} : R {self.ret_lean} := do\n" + "\n".join(lines) + "\n"
        return aux, text, self.sig_params

    def result_tuple(self, value=None):
        parts = [p[0] for p in self.sig_params if p[2] in ("inout", "offptr")]
        for p in parts:
            self.use(p)
        if value is not None:
            parts.append(value)
        if not parts:
            return "()"
        return parts[0] if len(parts) == 1 else "(" + ", ".join(parts) + ")"


ENV_SIGS = {"E P": "(E : Env) (P : Plat)", "E": "(E : Env)"}


def fix_env(text, name, env):
    """CI.FnTr emits `name (E : Env)` / `name E`; put this translation's environment parameters there"""
    text = text.replace(f"def {name} (E : Env)", f"def {name} {ENV_SIGS[env]}")
    return re.sub(r"\b%s E\b" % re.escape(name), f"{name} {env}", text)


def parse_params(ptxt, consts):
    return WParser(CI.tokenize(ptxt), consts).params()


def c_translate(art, w, name, rel, fuels, env, tbb=False, recursive=False, rec_fuel=None, body_hook=None, lean_name=None):
    """translate one C function; registers its signature in w.sigs; returns the Lean text"""
    try:
        rt, ptxt, body = c_fn_source(art, name, rel)
        body = preprocess(art, name, body, tbb)
        params = parse_params(ptxt, w.consts)
        rett = WParser(CI.tokenize(rt), w.consts).type_prefix()
        p = WParser(CI.tokenize(body), w.consts)
        stmts = p.block_body()
        if p.peek()[0] != "eof":
            raise Broken("unbalanced braces")
        if body_hook is not None:
            stmts = body_hook(stmts)
        lname = lean_name or name
        if recursive:
            # the signature must be known while the body is translated
            sp = [(n, ty, "in" if param_mode(n, ty, w.structs) == "in?" else param_mode(n, ty, w.structs)) for n, ty in params]
            ret = None if (rett.base == "void" and not rett.ptr) else vtype2(rett, w.structs)
            w.sigs[name] = WSig(lname, sp, ret, "rec", fuel=rec_fuel)
        tr = WTr(w, lname, params, rett, stmts, fuels, env=env, recursive=recursive)
        if recursive:
            # calls of the C name inside the body are calls of the Lean name
            tr.w.sigs[lname] = w.sigs[name]
            stmts = rename_calls(stmts, name, lname)
            tr.body = stmts
        aux, text, sig_params = tr.translate()
        if tr.nloops != len(fuels):
            raise Broken(f"{len(fuels)} loops expected, {tr.nloops} found")
    except Broken as ex:
        raise TB(art, f"{name}: {ex}")
    kind = "rec" if recursive else "gen"
    w.sigs[name] = WSig(lname, sig_params, tr.ret, kind, fuel=rec_fuel)
    if lname != name:
        w.sigs[lname] = w.sigs[name]
    conv = ", ".join(f"{n}{'*' if m in ('inout', 'offptr') else ''}" for n, ty, m in sig_params)
    return aux, text, conv


def rename_calls(x, old, new):
    if isinstance(x, tuple):
        if len(x) == 3 and x[0] == "call" and x[1] == old:
            return ("call", new, rename_calls(x[2], old, new))
        return tuple(rename_calls(y, old, new) for y in x)
    if isinstance(x, list):
        return [rename_calls(y, old, new) for y in x]
    return x


# ------------------------------------------------------------------------------------------------
# G24: lean/B3/Gen/PortableMany.lean

C_VOCAB = r'''/-! fixed vocabulary of the C translation (not derived from the source; see also B3/CMem.lean) -/
namespace CPtr

/-- an uninitialised array of `n` pointers: dereferencing any of them is undefined (empty buffers) -/
def uninitPtrs (n : Nat) : List (List UInt8) := List.replicate n []
/-- `a[i] = p` on an array of pointers: writing beyond the declared size is undefined -/
def setPtr (a : List (List UInt8)) (i : Nat) (p : List UInt8) : R (List (List UInt8)) :=
  if i < a.length then .ok (a.set i p) else .panic
/-- `inputs += n` on a pointer into an array of pointers (one past the end is allowed) -/
def ptrsAdvance (a : List (List UInt8)) (n : Nat) : R (List (List UInt8)) :=
  if n ≤ a.length then .ok (a.drop n) else .panic
/-- `p = &p[n]` on a writable pointer (array `a`, offset `off`): the new offset (one past the end is allowed) -/
def advOff (a : List UInt8) (off n : Nat) : R Nat := if off + n ≤ a.length then .ok (off + n) else .panic

end CPtr
'''


def portable_world(art):
    w = CI.World()
    w.sizes = {}
    for n in ["BLAKE3_KEY_LEN", "BLAKE3_OUT_LEN", "BLAKE3_BLOCK_LEN", "BLAKE3_CHUNK_LEN", "BLAKE3_MAX_DEPTH"]:
        w.consts[n] = X.c_define_int(art, "c/blake3.h", n)
    for n in X.FLAG_NAMES:
        w.consts[n] = X.c_enum_int(art, "c/blake3_impl.h", n)
    w.consts["SIZE_MAX"] = W64 - 1
    return w


def proto_sig(art, w, name, rel, kind, inout=()):
    """signature of a function that is given (a field of the environment / a fixed definition), from its prototype"""
    try:
        rt, ptxt = c_proto(art, name, rel)
        params = parse_params(ptxt, w.consts)
        sp = []
        for pn, ty in params:
            m = param_mode(pn, ty, w.structs)
            if m == "in?":
                m = "inout" if pn in inout else "in"
            sp.append((pn, ty, m))
        rett = WParser(CI.tokenize(rt), w.consts).type_prefix()
        ret = None if rett.base == "void" and not rett.ptr else vtype2(rett, w.structs)
    except Broken as ex:
        raise TB(art, f"{name}: {ex}")
    w.sigs[name] = WSig(name, sp, ret, kind)
    return sp, ret


def sig_lean_type(w, sp, ret, monadic):
    ts, rets = [], []
    for pn, ty, m in sp:
        t = lean_vt(vtype2(ty, w.structs))
        ts.append(t)
        if m == "offptr":
            ts.append("Nat")
        if m in ("inout", "offptr"):
            rets.append(t)
    if ret is not None:
        rets.append(lean_vt(ret))
    r = "Unit" if not rets else " × ".join(rets)
    if monadic:
        r = f"R ({r})"
    names = []
    for pn, ty, m in sp:
        names.append(pn + ("*" if m in ("inout", "offptr") else ""))
        if m == "offptr":
            names.append(pn + "_off")
    return " → ".join(ts + [r]), "(" + ", ".join(names) + ")"


def gen_portable_many():
    o = ["/- GENERATED by gen/ext_cwide.py from /repo/src/portable.rs (hash1, hash_many) and /repo/c/blake3_portable.c",
         "(hash_one_portable, blake3_hash_many_portable) -- do not edit",
         "",
         "The loops over blocks and inputs of the two portable `hash_many` implementations, statement by statement.",
         "Rust: checked u64 arithmetic, slices that panic out of range (vocabulary of Gen/RsUpdate.lean); `debug_assert`s dropped.",
         "C: `size_t` / `uint64_t` arithmetic modulo 2^64, byte arrays with every access range-checked (B3/CMem.lean), writable",
         "pointers as (array, offset), lists of pointers as lists of buffers; inputs and outputs are assumed not to overlap. -/",
         "import B3.Prim", "import B3.Arith", "import B3.CMem", "import B3.Gen.Consts", "import B3.Gen.RsPortable",
         "import B3.Gen.CPortable", "import B3.Gen.RsUpdate",
         "set_option linter.unusedVariables false", "namespace B3.Gen.PortableMany", "open B3", "",
         "namespace Rs", "open B3.Gen.RsUpdate (sliceTo sliceFrom sliceRange arrayRef copyInto chunksExact)", "",
         gen_rs_portable_many(), "end Rs", "", C_VOCAB, "namespace C", ""]
    w = portable_world(A_MANY)
    # blake3_compress_in_place_portable: the generated compression function of Gen/CPortable.lean on the words of the block
    sp, ret = proto_sig(A_MANY, w, "blake3_compress_in_place_portable", "c/blake3_impl.h", "pure", inout=["cv"])
    want = [("cv", "inout"), ("block", "in"), ("block_len", "val"), ("counter", "val"), ("flags", "val")]
    if [(n, m) for n, _, m in sp] != want:
        raise TB(A_MANY, f"blake3_compress_in_place_portable: parameter list changed: {[(n, m) for n, _, m in sp]}")
    o += ["/-- what the translated C functions are parameterised by: the contents of uninitialised locals -/",
          "structure Env where", "  junk : Nat → Nat → UInt8", "",
          "/-- `blake3_compress_in_place_portable(cv*, block, block_len, counter, flags)`: the function generated from",
          "c/blake3_portable.c (Gen/CPortable.lean, proved equal to the specification's compression function) on the 16",
          "little-endian words of the 64-byte block (fixed glue, like `wordsOfBytes` in Gen/RsState.lean) -/",
          "def blake3_compress_in_place_portable (cv : CV) (block : List UInt8) (block_len : UInt8) (counter : Nat) (flags : UInt8) : CV :=",
          "  Gen.C.compress_in_place cv (wordsOfBytes 16 block) block_len (UInt64.ofNat counter) flags", ""]
    CI.check_word_loops(w)
    for name, fuels in [("hash_one_portable", ["blocks + 1"]), ("blake3_hash_many_portable", ["num_inputs + 1"])]:
        aux, text, conv = c_translate(A_MANY, w, name, "c/blake3_portable.c", fuels, "E")
        if aux:
            o.append(aux.rstrip("\n") + "\n")
        o.append(f"/-- `{name}{'(' + conv + ')'}` -/")
        o.append(text)
    # blake3_hash_many_portable must be usable where blake3_hash_many is expected
    sp1, _ = proto_sig(A_MANY, portable_world(A_MANY), "blake3_hash_many", "c/blake3_impl.h", "plat")
    sp2 = w.sigs["blake3_hash_many_portable"].params
    if [(n, repr(t), m) for n, t, m in sp1] != [(n, repr(t), m) for n, t, m in sp2]:
        raise TB(A_MANY, "blake3_hash_many_portable: its parameters differ from those of blake3_hash_many")
    o += ["end C", "", "end B3.Gen.PortableMany"]
    return "\n".join(o) + "\n"


# ------------------------------------------------------------------------------------------------
# G25: lean/B3/Gen/RsOneShot.lean - the one-shot entry points of src/lib.rs and the `Join` each entry point instantiates


def join_impls():
    """the types that implement join::Join in src/join.rs, in source order"""
    text = X.strip_comments(X.src("src/join.rs"))
    out = []
    for m in re.finditer(r"\bimpl\s+Join\s+for\s+(\w+)\s*\{", text):
        X.record_span(A_ONE, "src/join.rs", m.start(), m.end())
        out.append(m.group(1))
    if not out:
        raise TB(A_ONE, "no `impl Join for ..` found in src/join.rs")
    return out


def gen_oneshot():
    consts = dict(X.rust_consts())
    u8c = rs_u8consts(A_ONE)
    joins = join_impls()
    used = []        # (entry point, Join implementation)

    def prep_for(entry):
        def prep(body):
            # f::<path::Type>(args)  ->  f(__J_Type, args): the type argument becomes a first argument
            def repl(m):
                ty = m.group(2).split("::")[-1]
                if ty not in joins:
                    raise TB(A_ONE, f"{entry}: `{m.group(2)}` is not one of the implementations of join::Join ({joins})")
                used.append((entry, ty))
                return f"{m.group(1)}(__J_{ty}, "
            body = re.sub(r"([\w:]+)\s*::\s*<\s*([\w:]+)\s*>\s*\(\s*", repl, body)
            body = re.sub(r"\.\s*0\b(?!\s*\.\s*\d)", ".tuple0", body)          # `.0` of the tuple struct Hash
            body = re.sub(r"\bcrate::([A-Z][A-Z_0-9]*)\b", r"\1", body)       # crate::CONSTANT
            if "::<" in re.sub(r"\s+", "", body):
                raise TB(A_ONE, f"{entry}: a type argument list that is not a single path")
            return body
        return prep

    def jarg(tr, a, scope):
        if a[0] == "var" and a[1].startswith("__J_"):
            return f"JoinImpl.{a[1][4:]}"
        raise ValueError("the Join type argument is missing")

    def call_haao(tr, args, lines, pad, scope):
        if len(args) != 4:
            raise ValueError("hash_all_at_once: 3 arguments and one type argument expected")
        j = jarg(tr, args[0], scope)
        ts = [tr.ex(a, lines, pad, scope) for a in args[1:]]
        check_arg_types("hash_all_at_once", ts, ["Bytes", "CV", "U8"])
        v = tr.fresh()
        lines.append(f"{pad}let {v} ← hash_all_at_once_with E {j} " + " ".join(t for t, _ in ts))
        return v, "Out"

    def call_words(tr, args, lines, pad, scope):
        ts = [tr.ex(a, lines, pad, scope) for a in args]
        check_arg_types("words_from_le_bytes_32", ts, ["Bytes"])
        return f"(wordsOfBytes 8 {ts[0][0]})", "CV"

    def call_ctx(tr, args, lines, pad, scope):
        ts = [tr.ex(a, lines, pad, scope) for a in args]
        check_arg_types("hash_derive_key_context", ts, ["Str"])
        v = tr.fresh()
        lines.append(f"{pad}let {v} ← hash_derive_key_context E root_hash {ts[0][0]}")
        return v, "Bytes"

    def m_root_hash(tr, r, args, lines, pad, scope):
        if args:
            raise ValueError("root_hash takes no argument")
        return f"(root_hash {r})", "Hash"

    def m_uwj(tr, r, args, lines, pad, scope):
        if len(args) != 2:
            raise ValueError("update_with_join: one argument and one type argument expected")
        j = jarg(tr, args[0], scope)
        ts = [tr.ex(a, lines, pad, scope) for a in args[1:]]
        check_arg_types("update_with_join", ts, ["Bytes"])
        v = tr.fresh()
        lines.append(f"{pad}let {v} ← update_with_join_with E {j} key chunk_state initial_chunk_counter cv_stack {ts[0][0]}")
        return v, "SelfFields"

    RS_LEAN_TY["Str"] = "List UInt8"
    calls = {"hash_all_at_once": call_haao, "crate::hash_all_at_once": call_haao,
             "platform::words_from_le_bytes_32": call_words, "hazmat::hash_derive_key_context": call_ctx}
    methods = {("Out", "root_hash"): m_root_hash, ("Self", "update_with_join"): m_uwj}
    base = dict(art=A_ONE, consts=consts, u8consts=u8c, muts=[], fuel={}, calls=calls, methods=methods, call_stmts={})
    o = ["/- GENERATED by gen/ext_cwide.py from /repo/src/lib.rs (hash, keyed_hash, derive_key, Hasher::update, Hasher::update_rayon),",
         "/repo/src/hazmat.rs (hash_derive_key_context) and /repo/src/join.rs (the implementations of Join) -- do not edit",
         "",
         "What the one-shot entry points call, with which key words and flag bytes, and which implementation of `join::Join`",
         "every entry point instantiates.  `hash_all_at_once` and `update_with_join` are the translations of Gen/RsUpdate.lean",
         "(which run `J::join(a, b)` as `a` then `b`: the model has no schedule); the type argument `J` is kept as a first",
         "argument so that it is visible in the generated terms.  `Output::root_hash` is the parameter `root_hash`. -/",
         "import B3.Prim", "import B3.Arith", "import B3.Gen.Consts", "import B3.Gen.RsUpdate",
         "set_option linter.unusedVariables false", "namespace B3.Gen.RsOneShot", "open B3 B3.Gen.RsUpdate", "",
         "/-- the types that implement `join::Join` in src/join.rs -/", "inductive JoinImpl where"]
    o += [f"  | {j}" for j in joins]
    o += ["deriving DecidableEq, Repr", "",
          "variable {CS Out : Type} (E : Env CS Out) (root_hash : Out → List UInt8)", "",
          "/-- `hash_all_at_once::<J>` -/",
          "def hash_all_at_once_with (J : JoinImpl) (input : List UInt8) (key : CV) (flags : UInt8) : R Out :=",
          "  Gen.RsUpdate.hash_all_at_once E input key flags", "",
          "/-- `Hasher::update_with_join::<J>` on the fields of the hasher -/",
          "def update_with_join_with (J : JoinImpl) (key : CV) (chunk_state : CS) (initial_chunk_counter : Nat) (cv_stack : List CV)",
          "    (input : List UInt8) : R (CS × List CV) :=",
          "  Gen.RsUpdate.update_with_join E key chunk_state initial_chunk_counter cv_stack input", ""]
    RS_LEAN_TY["SelfFields"] = "(CS × List CV)"
    fns = [
        ("hash_derive_key_context", "src/hazmat.rs", r"pub\s+fn\s+hash_derive_key_context\s*\(", None,
         {"context": "Str"}, "(context : List UInt8)", [("context", "&str")], "ContextKey", "Bytes", "(List UInt8)",
         "`hazmat::hash_derive_key_context` (`context.as_bytes()` is `context`)"),
        ("hash", "src/lib.rs", r"pub\s+fn\s+hash\s*\(", None,
         {"input": "Bytes"}, "(input : List UInt8)", [("input", "&[u8]")], "Hash", "Bytes", "(List UInt8)",
         "`blake3::hash` (the bytes of the `Hash`)"),
        ("keyed_hash", "src/lib.rs", r"pub\s+fn\s+keyed_hash\s*\(", None,
         {"key": "Bytes", "input": "Bytes"}, "(key : List UInt8) (input : List UInt8)",
         [("key", "&[u8;KEY_LEN]"), ("input", "&[u8]")], "Hash", "Bytes", "(List UInt8)",
         "`blake3::keyed_hash` (`key: &[u8; KEY_LEN]` has 32 bytes by its type)"),
        ("derive_key", "src/lib.rs", r"pub\s+fn\s+derive_key\s*\(", None,
         {"context": "Str", "key_material": "Bytes"}, "(context : List UInt8) (key_material : List UInt8)",
         [("context", "&str"), ("key_material", "&[u8]")], "[u8;OUT_LEN]", "Bytes", "(List UInt8)",
         "`blake3::derive_key`: the context string is hashed with DERIVE_KEY_CONTEXT, the key material under the resulting key "
         "with DERIVE_KEY_MATERIAL"),
        ("Hasher.update", "src/lib.rs", r"pub\s+fn\s+update\s*\(", "&mutself",
         {"self": "Self", "input": "Bytes"},
         "(key : CV) (chunk_state : CS) (initial_chunk_counter : Nat) (cv_stack : List CV) (input : List UInt8)",
         [("input", "&[u8]")], "&mutSelf", "SelfFields", "(CS × List CV)",
         "`Hasher::update`: the new `(chunk_state, cv_stack)`"),
        ("Hasher.update_rayon", "src/lib.rs", r"pub\s+fn\s+update_rayon\s*\(", "&mutself",
         {"self": "Self", "input": "Bytes"},
         "(key : CV) (chunk_state : CS) (initial_chunk_counter : Nat) (cv_stack : List CV) (input : List UInt8)",
         [("input", "&[u8]")], "&mutSelf", "SelfFields", "(CS × List CV)",
         "`Hasher::update_rayon` (feature `rayon`): the new `(chunk_state, cv_stack)`"),
    ]
    for name, rel, hdr, recv, scope, sig, params, rust_ret, ret, lean_ret, doc in fns:
        cfg = dict(base, name=name, scope=scope, ret=ret, lean_ret=lean_ret, prep=prep_for(name))
        o.append(rs_translate(cfg, rel, hdr, sig, doc, params, rust_ret, receiver=recv))
    o += ["/-- which implementation of `join::Join` each entry point instantiates (in source order of the calls) -/",
          "def instantiations : List (String × JoinImpl) :=",
          "  [" + ", ".join(f'("{e}", JoinImpl.{j})' for e, j in used) + "]", "",
          "end B3.Gen.RsOneShot"]
    return "\n".join(o) + "\n"


# ------------------------------------------------------------------------------------------------
# G23: lean/B3/Gen/CWide.lean


def cstate_world(art):
    """the world of gen/ext_cimp.py (constants, structs, signatures of the functions of Gen/CState.lean), rebuilt by running
    its translator; the generated text is discarded (it is Gen/CState.lean)"""
    w = portable_world(art)
    n0 = len(X.SPANS)
    CI.parse_struct(w, "c/blake3.h", "blake3_chunk_state")
    CI.parse_struct(w, "c/blake3.h", "blake3_hasher")
    CI.parse_struct(w, CI.SRC, "output_t")
    for s_ in ["blake3_chunk_state", "blake3_hasher", "output_t"]:
        CI.emit_struct(w, s_)
    # the three given functions of Gen.CState.Env, as ext_cimp declares them
    for name, rel, how, inouts in CI.ENV_FUNCTIONS:
        try:
            if how == "proto":
                rt, ptxt = CI.proto_source(name, rel)
            else:
                rt, ptxt, _ = CI.fn_source(name, rel)
            params = CI.Parser(CI.tokenize(ptxt), w.consts).params()
            sp = []
            for pn, ty in params:
                vt = CI.vtype_of_ctype(ty, w.structs)
                mode = "val" if vt in ("u8", "u64", "bool") else ("inout" if pn in inouts else "in")
                sp.append((pn, ty, mode))
            rett = CI.Parser(CI.tokenize(rt), w.consts).type_prefix()
            ret = None if rett.base == "void" and not rett.ptr else CI.vtype_of_ctype(rett, w.structs)
            w.sigs[name] = CI.FnSig(name, sp, ret, "env")
        except CI.Broken as ex:
            raise TB(art, f"{name}: {ex}")
    for name, fuels in CI.FUNCTIONS:
        try:
            rt, ptxt, body = CI.fn_source(name)
            params = CI.Parser(CI.tokenize(ptxt), w.consts).params()
            rett = CI.Parser(CI.tokenize(rt), w.consts).type_prefix()
            p = CI.Parser(CI.tokenize(body), w.consts)
            stmts = p.block_body()
            tr = CI.FnTr(w, name, params, rett, stmts, fuels)
            _, _, sig = tr.translate()
        except CI.Broken as ex:
            raise TB(art, f"{name} (Gen/CState.lean): {ex}")
        w.sigs[name] = sig
    # the source spans read while re-running ext_cimp are inputs of this artefact too (signatures of the callees)
    X.SPANS[n0:] = [(art,) + tuple(sp[1:]) for sp in X.SPANS[n0:]]
    return w


def max_simd_degree_macros(art):
    """the values `MAX_SIMD_DEGREE` can take (its #define lines) and the macro MAX_SIMD_DEGREE_OR_2 as a Lean term"""
    text = X.strip_comments(X.src("c/blake3_impl.h"))
    vals = []
    for m in re.finditer(r"(?m)^\s*#\s*define\s+MAX_SIMD_DEGREE\s+(\d+)\s*$", text):
        X.record_span(art, "c/blake3_impl.h", m.start(), m.end())
        vals.append(int(m.group(1)))
    if not vals:
        raise TB(art, "no `#define MAX_SIMD_DEGREE <n>` in c/blake3_impl.h")
    m = re.search(r"(?m)^\s*#\s*define\s+MAX_SIMD_DEGREE_OR_2\s+(.+)$", text)
    if not m:
        raise TB(art, "`#define MAX_SIMD_DEGREE_OR_2` not found in c/blake3_impl.h")
    X.record_span(art, "c/blake3_impl.h", m.start(), m.end())
    body = m.group(1).strip()
    while body.startswith("(") and X.match_brace(body, 0, "(", ")") == len(body):
        body = body[1:-1].strip()
    mm = re.match(r"^(.+?)\?(.+?):(.+)$", body)
    if not mm:
        raise TB(art, f"MAX_SIMD_DEGREE_OR_2: `{body}` is not a conditional expression")

    def term(txt, cond=False):
        try:
            p = CI.Parser(CI.tokenize(txt), {})
            e = p.expr()
            if p.peek()[0] != "eof":
                raise CI.Broken("trailing tokens")
        except CI.Broken as ex:
            raise TB(art, f"MAX_SIMD_DEGREE_OR_2: {ex}")

        def go(e):
            if e[0] == "num":
                return str(e[1])
            if e[0] == "id" and e[1] == "MAX_SIMD_DEGREE":
                return "P.MAX_SIMD_DEGREE"
            if e[0] == "bin" and e[1] in ("<", ">", "<=", ">=", "==", "!=") and cond:
                sym = {"==": "=", "!=": "≠", "<": "<", ">": ">", "<=": "≤", ">=": "≥"}[e[1]]
                return f"{go(e[2])} {sym} {go(e[3])}"
            raise TB(art, f"MAX_SIMD_DEGREE_OR_2: cannot translate `{CI.show(e)}`")
        return go(e)
    return vals, f"if {term(mm.group(1), cond=True)} then {term(mm.group(2))} else {term(mm.group(3))}"


def tbb_seam(art, w):
    """c/blake3_tbb.cpp: `blake3_compress_subtree_wide_join_tbb` as (parameter names, [statement for the left side,
    statement for the right side]).  Its shape must be: `if (!use_tbb) { L; R; return; }` followed by
    `oneapi::tbb::parallel_invoke([=]() { L }, [=]() { R });` with the same L and R; the translation runs L then R."""
    rel = "c/blake3_tbb.cpp"
    text = blank_comments(X.src(rel))
    m = re.search(r'extern\s+"C"\s+void\s+blake3_compress_subtree_wide_join_tbb\s*\(', text)
    if not m:
        raise TB(art, f"blake3_compress_subtree_wide_join_tbb not found in {rel}")
    p0 = m.end() - 1
    p1 = X.match_brace(text, p0, "(", ")")
    b0 = text.index("{", p1)
    b1 = X.match_brace(text, b0)
    X.record_span(art, rel, m.start(), b1)
    if re.sub(r"\s+", "", text[p1:b0]) != "noexcept":
        raise TB(art, "blake3_compress_subtree_wide_join_tbb: unexpected text between the parameter list and the body")
    ptxt = X.strip_comments(text[p0 + 1:p1 - 1])
    names = []
    for prm in U.top_split(ptxt):
        mm = re.match(r"^(?:const\s+)?\w+\s*\**\s*(\w+)(?:\[\d+\])?$", prm.strip())
        if not mm:
            raise TB(art, f"blake3_compress_subtree_wide_join_tbb: parameter `{prm}`")
        names.append(mm.group(1))
    body = X.strip_comments(text[b0 + 1:b1 - 1])
    mb = re.match(r"^\s*if\s*\(\s*!\s*use_tbb\s*\)\s*\{(.*?)return\s*;\s*\}\s*oneapi::tbb::parallel_invoke\s*\(\s*"
                  r"\[=\]\s*\(\s*\)\s*\{(.*?)\}\s*,\s*\[=\]\s*\(\s*\)\s*\{(.*?)\}\s*\)\s*;\s*$", body, re.S)
    if not mb:
        raise TB(art, "blake3_compress_subtree_wide_join_tbb: the body is not `if (!use_tbb) {..; return;} parallel_invoke(λ, λ);`")

    def stmts(txt):
        try:
            p = WParser(CI.tokenize(txt), w.consts)
            r = p.block_body()
            if p.peek()[0] != "eof":
                raise CI.Broken("unbalanced braces")
            return r
        except CI.Broken as ex:
            raise TB(art, f"blake3_compress_subtree_wide_join_tbb: {ex}")
    serial, left, right = stmts(mb.group(1)), stmts(mb.group(2)), stmts(mb.group(3))
    if repr(serial) != repr(left + right) or len(left) != 1 or len(right) != 1:
        raise TB(art, "blake3_compress_subtree_wide_join_tbb: the two tasks of parallel_invoke are not the two statements "
                      "of the serial branch")
    return names, serial


def subst_expr(x, env):
    if isinstance(x, tuple):
        if len(x) == 2 and x[0] == "id" and x[1] in env:
            return env[x[1]]
        y = tuple(subst_expr(z, env) for z in x)
        # *&e -> e
        if len(y) == 3 and y[0] == "un" and y[1] == "*" and isinstance(y[2], tuple) and y[2][:2] == ("un", "&"):
            return y[2][2]
        return y
    if isinstance(x, list):
        return [subst_expr(z, env) for z in x]
    return x


def gen_cwide():
    w = cstate_world(A_WIDE)
    vals, or2 = max_simd_degree_macros(A_WIDE)
    sp, ret = proto_sig(A_WIDE, w, "blake3_hash_many", "c/blake3_impl.h", "plat")
    hm_type, hm_names = sig_lean_type(w, sp, ret, True)
    rt, ptxt = c_proto(A_WIDE, "blake3_simd_degree", "c/blake3_impl.h")
    if rt != "size_t" or ptxt.strip() != "void":
        raise TB(A_WIDE, "blake3_simd_degree: prototype changed")
    del w.sigs["compress_subtree_to_parent_node"]
    o = ["/- GENERATED by gen/ext_cwide.py from /repo/c/blake3.c (compress_chunks_parallel, compress_parents_parallel,",
         "blake3_compress_subtree_wide, compress_subtree_to_parent_node), /repo/c/blake3_tbb.cpp (the TBB seam) and",
         "/repo/c/blake3_impl.h (MAX_SIMD_DEGREE, MAX_SIMD_DEGREE_OR_2, prototypes) -- do not edit",
         "",
         "The wide / subtree layer of c/blake3.c with its data: `cv_array`, `out_array`, `out` are byte arrays, `chunks_array` /",
         "`parents_array` are arrays of pointers of the declared sizes, every index is computed in `size_t` arithmetic (modulo",
         "2^64) and every access is range-checked (B3/CMem.lean, `CPtr` of Gen/PortableMany.lean): out of range = panic.",
         "The chunk-state functions are those of Gen/CState.lean (environment `E`); the platform (`MAX_SIMD_DEGREE`,",
         "`blake3_simd_degree()`, `blake3_hash_many`) is the parameter `P`.  `assert(..)` is kept (`Arith.assertTrue`); the",
         "`#if defined(BLAKE3_TESTING)` blocks are dropped (the macro is not defined in library builds); `#if MAX_SIMD_DEGREE_OR_2 > 2`",
         "is a run-time test on `P`.  Recursion is by fuel.  Inputs and outputs are assumed not to overlap. -/",
         "import B3.Prim", "import B3.Arith", "import B3.CMem", "import B3.Gen.Consts", "import B3.Gen.Arith", "import B3.Gen.CState",
         "import B3.Gen.PortableMany",
         "set_option linter.unusedVariables false", "namespace B3.Gen.CWide", "open B3 B3.Gen.CState B3.Gen.PortableMany", "",
         "/-- the platform: the compile-time constant `MAX_SIMD_DEGREE`, the run-time `blake3_simd_degree()` and `blake3_hash_many`",
         f"{hm_names} of c/blake3_dispatch.c -/",
         "structure Plat where", "  MAX_SIMD_DEGREE : Nat", "  blake3_simd_degree : Nat",
         f"  blake3_hash_many : {hm_type}", "",
         "/-- the values `#define MAX_SIMD_DEGREE` takes in c/blake3_impl.h (x86, NEON, otherwise) -/",
         "def MAX_SIMD_DEGREE_values : List Nat := [" + ", ".join(str(v) for v in vals) + "]", "",
         "/-- the macro `MAX_SIMD_DEGREE_OR_2` of c/blake3_impl.h -/",
         f"def Plat.MAX_SIMD_DEGREE_OR_2 (P : Plat) : Nat := {or2}", ""]
    docs = []
    for name, fuels in [("compress_chunks_parallel", ["input_len + 1"]), ("compress_parents_parallel", ["num_chaining_values + 1"])]:
        aux, text, conv = c_translate(A_WIDE, w, name, CI.SRC, fuels, "E P")
        o.append(aux.rstrip("\n") + "\n")
        o.append(f"/-- `{name}({conv})` -/")
        o.append(text)
    # blake3_compress_subtree_wide: the serial build
    aux, text, conv = c_translate(A_WIDE, w, "blake3_compress_subtree_wide", CI.SRC, [], "E P", tbb=False, recursive=True,
                                  rec_fuel="input_len")
    o.append(f"/-- `blake3_compress_subtree_wide({conv})`, serial build (`BLAKE3_USE_TBB` not defined); recursion by fuel -/")
    o.append(text)
    serial_sig = w.sigs["blake3_compress_subtree_wide"]
    # the TBB build: the call of the seam is replaced by the seam's statements (c/blake3_tbb.cpp)
    names, seam = tbb_seam(A_WIDE, w)

    def hook(stmts):
        out, seen = [], 0
        for st in stmts:
            if st[0] == "callstmt" and st[1][1] == "blake3_compress_subtree_wide_join_tbb":
                args = st[1][2]
                if len(args) != len(names):
                    raise Broken("blake3_compress_subtree_wide_join_tbb called with a different number of arguments")
                out += subst_expr(seam, dict(zip(names, args)))
                seen += 1
            else:
                out.append(st)
        if seen != 1:
            raise Broken("the TBB branch does not call blake3_compress_subtree_wide_join_tbb exactly once at top level")
        return out
    w._sites["blake3_compress_subtree_wide_tbb"] = w.site_base("blake3_compress_subtree_wide")   # same uninitialised locals
    aux, text, conv = c_translate(A_WIDE, w, "blake3_compress_subtree_wide", CI.SRC, [], "E P", tbb=True, recursive=True,
                                  rec_fuel="input_len", body_hook=hook, lean_name="blake3_compress_subtree_wide_tbb")
    o.append("/-- `blake3_compress_subtree_wide`, TBB build (`BLAKE3_USE_TBB` defined): the call of "
             "`blake3_compress_subtree_wide_join_tbb` is replaced by the two statements of that function (c/blake3_tbb.cpp: "
             "the same two recursive calls whether `use_tbb` or not; `parallel_invoke(a, b)` runs `a` then `b` here: no schedule) -/")
    o.append(text)
    w.sigs["blake3_compress_subtree_wide"] = serial_sig
    aux, text, conv = c_translate(A_WIDE, w, "compress_subtree_to_parent_node", CI.SRC, ["num_cvs + 1"], "E P")
    o.append(aux.rstrip("\n") + "\n")
    o.append(f"/-- `compress_subtree_to_parent_node({conv})` (serial build of `blake3_compress_subtree_wide`) -/")
    o.append(text)
    o.append("end B3.Gen.CWide")
    return "\n".join(x for x in o if x is not None) + "\n"


ARTEFACTS = [("PortableMany.lean", A_MANY, gen_portable_many), ("RsOneShot.lean", A_ONE, gen_oneshot),
             ("CWide.lean", A_WIDE, gen_cwide)]
