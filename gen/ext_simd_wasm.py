"""G38-rs-wasm32-simd: src/wasm32_simd.rs (the Rust `core::arch::wasm32` SIMD kernels) -> lean/B3/Gen/RsWasm.lean.

The translator is the one of gen/extract_simd2.py (own Rust parser, statement IR, macro expansion from the
`macro_rules!` text, `&mut` parameters -> returned tuples, loops lambda-lifted, `whileFuel`, `// Round k` /
blank-line cuts by position; see its module docstring and gen/REPORT_simd_rs_avx2_sse2.md).  That file is not
edited: this extension loads a PRIVATE instance of the module (so nothing it changes is seen by G16 / G17) and
extends it with what src/wasm32_simd.rs needs in addition to src/rust_sse2.rs, of which it is a port:

  * `v128` -> V4; the `loadu` / `storeu` wrappers are checked to be the plain `v128_load` / `v128_store`
    pointer-cast wrappers (else TranslationBroken); `DEGREE` is checked to be 4;
  * the turbofish `f::<A, B, ..>(args)` with const arguments that are literals, `{ const expression }` blocks
    (as the file's `shuffle!` macro produces: `{ $y + 4 }`) or const generic parameters of the enclosing
    function (`shuffle_epi32<const I3: usize, ..>` passes its own parameters on, in another order);
    a const generic function is translated with its const parameters as leading `Nat` parameters, a call of
    it passes the evaluated constants;
  * the intrinsics of `core::arch::wasm32` the file uses (table `WASM` below; lane model B3/Simd/WasmPrim.lean):
    const-generic ones get their lane indices as leading `Nat` arguments, and a literal index outside the range
    rustc accepts (8 / 4 / 32 for i32x4 / i64x2 / i8x16 shuffles) is TranslationBroken, as is a literal that
    does not fit the scalar type (`i16x8(..)` takes `i16`s);  any other intrinsic (an x86 one, a Wasm one not in
    the table) is "unknown function" -> TranslationBroken.

Everything else (shift counts, shuffle indices, the order of the g1/g2 calls, load/store offsets, the
`mask & k` of `load_counters`, the loop conditions of `hash1` / `hash_many`, ...) comes from the source text.
"""
import importlib.util
import os
import re
import sys

import extract as X

HERE = os.path.dirname(os.path.abspath(__file__))
ARTEFACT = "G38-rs-wasm32-simd"
REL = "src/wasm32_simd.rs"


def _private_copy():
    """a fresh instance of gen/extract_simd2.py: its module-level tables (`INTRINSICS`, `RP`, `FnTr`) are then
    ours to replace without touching the instance that ext_simd2.py (G16, G17) uses"""
    sys.path.insert(0, HERE)
    spec = importlib.util.spec_from_file_location("extract_simd2_wasm", os.path.join(HERE, "extract_simd2.py"))
    mod = importlib.util.module_from_spec(spec)
    spec.loader.exec_module(mod)
    return mod


S = _private_copy()

# ------------------------------------------------------------------------------------------------
# the intrinsics of core::arch::wasm32 that may occur
#   name: (number of const generic lane indices, exclusive bound of an index, argument kinds, result)
#   kinds: "v" = v128, "s" = i32/u32 scalar (UInt32 bit pattern), "h" = i16 scalar (UInt16 bit pattern)

WASM = {
    "i32x4_add": (0, 0, "vv", "V4"), "v128_xor": (0, 0, "vv", "V4"), "v128_or": (0, 0, "vv", "V4"),
    "v128_and": (0, 0, "vv", "V4"), "v128_bitselect": (0, 0, "vvv", "V4"),
    "i32x4_splat": (0, 0, "s", "V4"), "i32x4": (0, 0, "ssss", "V4"),
    "u32x4_shr": (0, 0, "vs", "V4"), "u32x4_shl": (0, 0, "vs", "V4"),
    "i16x8": (0, 0, "hhhhhhhh", "V4"), "i16x8_splat": (0, 0, "h", "V4"), "i16x8_eq": (0, 0, "vv", "V4"),
    "i32x4_shuffle": (4, 8, "vv", "V4"), "i64x2_shuffle": (2, 4, "vv", "V4"), "i8x16_shuffle": (16, 32, "vv", "V4"),
}
# signed scalar parameters: a literal must fit the SIGNED type (rustc: `overflowing_literals` is deny-by-default)
LIT_LIMIT = {"s": 2 ** 31, "h": 2 ** 15}

S.INTRINSICS = {}          # no x86 intrinsic is known in this file


class RP(S.RP):
    """the expression parser, plus the turbofish: IDENT ::< const-arg, .. > ( args )"""

    def const_arg(self):
        if self.at("{"):
            self.next()
            e = self.expr()
            self.expect("}")
            return e
        k, v = self.next()
        if k == "num":
            return ("num", v)
        if k == "id" and re.match(r"^\w+$", v):
            return ("var", v)
        raise ValueError(f"unsupported const generic argument {k} {v!r}")

    def primary(self):
        k, v = self.peek()
        if k == "id" and not v.endswith("!") and self.peek(1) == ("op", ":") and self.peek(2) == ("op", ":") \
                and self.peek(3) == ("op", "<"):
            self.next(); self.next(); self.next(); self.next()
            targs = []
            while not self.at(">"):
                targs.append(self.const_arg())
                if self.at(","):
                    self.next()
                elif not self.at(">"):
                    raise ValueError(f"expected ',' or '>' in a turbofish, got {self.peek()}")
            self.expect(">")
            self.expect("(")
            return ("call", v, self.args(")"), targs)
        return super().primary()


S.RP = RP


class FnTr(S.FnTr):
    def const_or_generic(self, e, what, bound=None):
        """a const generic argument: (lean text, value or None when it is a const parameter of this function)"""
        if e[0] == "var" and e[1] in self.generics:
            return e[1], None
        v = self.const(e, what)
        if bound is not None and not 0 <= v < bound:
            self.bad(f"{what} = {v} is out of range (must be below {bound}: rustc rejects it)")
        return str(v), v

    def emit_call(self, e):
        name, args = e[1], e[2]
        targs = e[3] if len(e) > 3 else None
        if name in WASM:
            nt, bound, kinds, ret = WASM[name]
            if len(targs or []) != nt:
                self.bad(f"{name} used with {len(targs or [])} const generic arguments, expected {nt}")
            if len(args) != len(kinds):
                self.bad(f"{name} called with {len(args)} arguments")
            out = [self.const_or_generic(t, f"lane index {i} of {name}", bound)[0] for i, t in enumerate(targs or [])]
            for kd, a in zip(kinds, args):
                s, ty, val = self.emit(a)
                self.unify(S.KIND_TY[kd], ty, f"argument of {name}")
                if val is not None and kd in LIT_LIMIT and val >= LIT_LIMIT[kd]:
                    self.bad(f"literal {val} passed to {name} does not fit its signed parameter type")
                out.append(S.atom(s))
            return f"({name} {' '.join(out)})", ret, None
        if targs is not None:
            sig = self.gen.sigs.get(name)
            if sig is None:
                self.bad(f"unknown function {name}")
            if sig.inout:
                self.bad(f"{name} has &mut parameters and is used as a value")
            if len(targs) != len(sig.generics):
                self.bad(f"{name} used with {len(targs)} const generic arguments, it has {len(sig.generics)}")
            gs = [self.const_or_generic(t, f"const generic argument {g} of {name}")[0] for g, t in zip(sig.generics, targs)]
            return f"({sig.lean} {' '.join(gs + self.emit_args(sig, args))})", sig.ret, None
        return super().emit_call(e)

    def stmt_expr(self, e):
        if e[0] == "call" and len(e) > 3:
            self.bad(f"call of {e[1]} with a turbofish as a statement")
        return super().stmt_expr(e)


S.FnTr = FnTr

_prepare_body = S.prepare_body


def prepare_body(src, fn, raw, segment_markers=False):
    """in src/rust_sse2.rs the body of `round` is wrapped in `unsafe { }`, here it is not: the line break before
    the closing brace of the function is not a blank line that separates two pieces"""
    return _prepare_body(src, fn, raw.rstrip() if segment_markers == "blank" else raw, segment_markers)


S.prepare_body = prepare_body

# ------------------------------------------------------------------------------------------------
# the target

HEADER = """/- GENERATED by gen/ext_simd_wasm.py (translator: gen/extract_simd2.py) from /repo/src/wasm32_simd.rs -- do not edit -/
/-
Statement-by-statement translation of the Wasm SIMD kernels of src/wasm32_simd.rs (`core::arch::wasm32`
intrinsics; TRUSTED lane model: B3/Simd/WasmPrim.lean, 16-bit-lane vocabulary of B3/Simd/Sse2Prim.lean).
Conventions:
%s
  Const generics: a function `f<const I: usize, ..>` takes its const parameters as leading `Nat`
  parameters; `g::<A, B>(x)` is `g A B x` with the constants evaluated (`{ 2 + 4 }` -> 6); the lane indices of
  `i32x4_shuffle` / `i64x2_shuffle` / `i8x16_shuffle` are such leading `Nat` arguments.  The file's `shuffle!`
  macro is expanded from its `macro_rules!` text.  `u32x4_shr(a, 12)`: the count is a run-time `u32`.
-/
import B3.Prim
import B3.Gen.Consts
import B3.Gen.RsPortable
import B3.Simd.Prim
import B3.Simd.Sse2Prim
import B3.Simd.WasmPrim
set_option linter.unusedVariables false
namespace B3.Gen.RsWasm
open B3 B3.Simd B3.Simd.Wasm
open B3.Gen.Rs (IV MSG_SCHEDULE counter_low counter_high)

"""

WASM_TARGET = S.Target(
    "wasm32_simd", REL, "B3.Gen.RsWasm", "v128", "V4", 4, "", "",
    "unsafe{v128_load(srcas*constv128)}", "unsafe{v128_store(destas*mutv128,src)}",
    ["add", "xor", "set1", "set4", "rot16", "rot12", "rot8", "rot7", "g1", "g2",
     "unpacklo_epi64", "unpackhi_epi64", "unpacklo_epi32", "unpackhi_epi32", "shuffle_epi32", "blend_epi16",
     "diagonalize", "undiagonalize",
     ("compress_pre", "rounds"), "compress_in_place", "compress_xof", ("round", "blank"),
     "transpose_vecs", "transpose_msg_vecs", "load_counters", "hash4", "hash1", "hash_many"],
    None)
WASM_TARGET.header = HEADER % (S.CONVENTIONS % {"rust_vt": "v128", "vt": "V4"}).replace(
    "`debug_assert!` lines and `_mm_prefetch` loops are dropped", "`debug_assert!` lines are dropped")


def check_all_functions_planned(src):
    """every `fn` of the file outside the test module is either translated or one of the two checked wrappers"""
    planned = {p[0] if isinstance(p, tuple) else p for p in WASM_TARGET.plan} | {"loadu", "storeu"}
    found = re.findall(r"\bfn\s+(\w+)", X.strip_comments(src.text))
    for f in found:
        if f not in planned:
            raise X.TranslationBroken(ARTEFACT, f"{f}: a function of {REL} that the translation plan does not know")
    for f in planned:
        if f not in found:
            raise X.TranslationBroken(ARTEFACT, f"{f}: function not found in {REL}")
    known = {"shuffle"}
    for m in src.macros:
        if m not in known:
            raise X.TranslationBroken(ARTEFACT, f"macro {m}!: not expected in {REL}")


def gen_rs_wasm():
    try:
        g = S.Generator(X.REPO, WASM_TARGET)
        check_all_functions_planned(g.src)
        if not re.search(r"^use\s+core::arch::wasm32::\*\s*;", g.src.text, re.M):
            raise X.TranslationBroken(ARTEFACT, f"{REL} no longer imports core::arch::wasm32::*")
        text = g.run()
        try:
            X.record_span(ARTEFACT, REL, 0, len(X.src(REL)))
        except Exception:
            pass
        return text
    except X.TranslationBroken as ex:
        raise X.TranslationBroken(ARTEFACT, str(getattr(ex, "reason", ex)))
    except Exception as ex:
        if type(ex).__name__ == "TranslationBroken":
            raise X.TranslationBroken(ARTEFACT, str(getattr(ex, "reason", ex)))
        raise


ARTEFACTS = [("RsWasm.lean", ARTEFACT, gen_rs_wasm)]


if __name__ == "__main__":
    try:
        sys.stdout.write(gen_rs_wasm())
    except X.TranslationBroken as ex:
        print(f"TranslationBroken: {ex}", file=sys.stderr)
        sys.exit(3)
