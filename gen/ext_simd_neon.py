"""G39-c-neon: c/blake3_neon.c (the C `arm_neon.h` intrinsics kernels) -> lean/B3/Gen/CNeon.lean.

The translator is the C front end of gen/ext_simd_c.py (preprocessor, tokenizer, Pratt parser with the C precedences,
statement parser, typed translation with the implicit conversions of C made explicit; see its docstring and
gen/REPORT_simd_c_sse_avx2.md).  That file is not edited: this extension loads a PRIVATE instance of the module (so
nothing it changes is seen by G18-G20) and extends it with what c/blake3_neon.c needs:

  * types `uint32x4_t` (-> V4, lane 0 = bits 31:0), `uint8x16_t` / `uint16x8_t` (the same 128 bits seen as bytes / 16-bit
    halves: V4 in Lean, but kept apart by the translator's type checker), `uint32x2_t` (-> V2), `uint32x4x2_t`
    (-> V4 x V4; `x.val[0]`, `x.val[1]` -> `.1`, `.2`);
  * the preprocessor understands `#if <expr>` / `#elif` / `#else` with predefined compiler macros.  The file has ONE
    conditional region: three versions of `rot8_128` (clang: `__builtin_shufflevector`; GCC >= 4.7: `__builtin_shuffle`
    with a `static const uint8x16_t` table; otherwise: `vsriq_n_u32(vshlq_n_u32(x, 24), x, 8)`).  The file is preprocessed
    three times (`__clang__`; `__GNUC__`=12, `__GNUC_MINOR__`=2; neither); the clang text is "the" translation and the
    other two versions of `rot8_128` are emitted as `rot8_128_gcc`, `rot8_128_other` (the proofs show that all three are
    the same function).  A difference between the three texts anywhere outside `rot8_128` is TranslationBroken.
    `#ifdef __ARM_BIG_ENDIAN / #error` must be present (the memory model is little-endian);
  * `c ? a : b`; `~0` (an `int`: -1) converted to an unsigned type; `&x` of a `uint32_t` parameter as the argument of
    `vld1q_dup_u32`; a `uint32_t array[4] = {a, b, c, d}` local passed to `vld1q_u32`; a `const uint8x16_t` table;
  * the `arm_neon.h` intrinsics and the two compiler builtins the file uses (table NEON below; lane model
    B3/Simd/NeonPrim.lean); an immediate outside the range the compiler accepts is TranslationBroken; any other
    intrinsic is "unknown function" -> TranslationBroken;
  * `loadu_128` / `storeu_128` are checked to be the plain `vld1q_u8` / `vst1q_u8` wrappers (not translated: they are
    the little-endian memory model of Prim.lean / PrimC.lean);
  * `blake3_compress_in_place_portable` (called by `hash_one_neon`) is `B3.Gen.C.compress_in_place`, the translation of
    c/blake3_portable.c (G2-c-portable); its prototype in blake3_neon.c must equal the definition there.
"""
import importlib.util
import os
import re
import sys

import extract as X

HERE = os.path.dirname(os.path.abspath(__file__))
ARTEFACT = "G39-c-neon"
REL = "c/blake3_neon.c"


def _private_copy():
    sys.path.insert(0, HERE)
    spec = importlib.util.spec_from_file_location("ext_simd_c_neon", os.path.join(HERE, "ext_simd_c.py"))
    mod = importlib.util.module_from_spec(spec)
    spec.loader.exec_module(mod)
    return mod


C = _private_copy()
C.Ctx.art = ARTEFACT
TranslationBroken = X.TranslationBroken
broken = C.broken
atom = C.atom

# ------------------------------------------------------------------------------------------------
# types

C.TYPE_WORDS = (set(C.TYPE_WORDS) - {"__m128i", "__m256i"}) | {"uint32x4_t", "uint32x4x2_t", "uint8x16_t", "uint16x8_t",
                                                                "uint32x2_t"}
C.SIZEOF = {"uint32x4_t": 16, "uint8_t": 1, "uint32_t": 4, "uint64_t": 8}
C.BASE = {k: v for k, v in C.BASE.items() if k not in ("__m128i", "__m256i")}
C.BASE.update({"uint32x4_t": "V4", "uint8x16_t": "Q8", "uint16x8_t": "Q16", "uint32x2_t": "D32", "uint32x4x2_t": "V4x2"})
C.SCALARS = dict(C.SCALARS)
C.SCALARS.pop("V8", None)
C.SCALARS.update({"Q8": "V4", "Q16": "V4", "D32": "V2", "V4x2": "V4x2"})

# name: (argument kinds, result type).   kinds: a type name | "imm:lo:hi" (integer constant expression in [lo, hi])
NEON = {
    "vaddq_u32": (("V4", "V4"), "V4"), "veorq_u32": (("V4", "V4"), "V4"), "vorrq_u32": (("V4", "V4"), "V4"),
    "vshlq_n_u32": (("V4", "imm:0:31"), "V4"), "vshrq_n_u32": (("V4", "imm:1:32"), "V4"),
    "vsriq_n_u32": (("V4", "V4", "imm:1:32"), "V4"),
    "vreinterpretq_u32_u8": (("Q8",), "V4"), "vreinterpretq_u8_u32": (("V4",), "Q8"),
    "vreinterpretq_u32_u16": (("Q16",), "V4"), "vreinterpretq_u16_u32": (("V4",), "Q16"),
    "vrev32q_u16": (("Q16",), "Q16"),
    "vtrnq_u32": (("V4", "V4"), "V4x2"),
    "vget_low_u32": (("V4",), "D32"), "vget_high_u32": (("V4",), "D32"), "vcombine_u32": (("D32", "D32"), "V4"),
    "vdupq_n_u32": (("u32",), "V4"),
    "__builtin_shuffle": (("Q8", "Q8", "Q8"), "Q8"),
}
LEAN_NAME = {"__builtin_shuffle": "builtin_shuffle_u8x16", "__builtin_shufflevector": "builtin_shufflevector_u8x16"}


# ------------------------------------------------------------------------------------------------
# tokens: the tokenizer of ext_simd_c.py drops integer suffixes; here `~0` (int) and `~0u` / `~0ull` differ once
# converted to uint64_t, so a suffixed literal is refused rather than mis-typed (none occurs in the file)

_tokenize = C.tokenize


def tokenize(s):
    m = re.search(r"\b(0[xX][0-9a-fA-F]+|\d+)[uUlL]+\b", s)
    if m:
        raise ValueError(f"integer literal with a suffix ({m.group(0)}): its type is not modelled")
    return _tokenize(s)


C.tokenize = tokenize

# ------------------------------------------------------------------------------------------------
# parser: `c ? a : b`, `x.field`


class CP(C.CP):
    def postfix(self):
        e = self.primary()
        while True:
            if self.at("["):
                self.next()
                idx = self.expr()
                self.expect("]")
                e = ("index", e, idx)
            elif self.at(".") and self.peek(1)[0] == "id":
                self.next()
                e = ("field", e, self.next()[1])
            else:
                return e

    def expr(self, minp=0):
        lhs = super().expr(minp)
        if minp == 0 and self.at("?"):
            self.next()
            a = self.expr(0)
            self.expect(":")
            b = self.expr(0)
            return ("ife", lhs, a, b)
        return lhs


C.CP = CP


# ------------------------------------------------------------------------------------------------
# preprocessor with #if / #elif / #else and predefined macros


def pp_eval(expr, defined):
    """value of a preprocessor controlling expression; `defined` : name -> int"""
    s = re.sub(r"\bdefined\s*\(\s*(\w+)\s*\)|\bdefined\s+(\w+)", lambda m: "1" if (m.group(1) or m.group(2)) in defined else "0", expr)
    s = re.sub(r"\b[A-Za-z_]\w*\b", lambda m: str(defined.get(m.group(0), 0)), s)    # an undefined identifier is 0

    def ev(e):
        k = e[0]
        if k == "num":
            return e[1]
        if k == "paren":
            return ev(e[1])
        if k == "not":
            return int(not ev(e[1]))
        if k == "neg":
            return -ev(e[1])
        if k == "bin":
            a, b = ev(e[2]), ev(e[3])
            op = e[1]
            if op in C.PY_BIN:
                if op in "/%" and b == 0:
                    raise ValueError("division by zero in #if")
                return C.PY_BIN[op](a, b)
            return int({"==": a == b, "!=": a != b, "<": a < b, ">": a > b, "<=": a <= b, ">=": a >= b,
                        "&&": bool(a) and bool(b), "||": bool(a) or bool(b)}[op])
        raise ValueError(f"unsupported operator in #if: {e!r}")
    return ev(C.parse_expr(s))


class NeonSource(C.CSource):
    predef = {}

    def preprocess(self, raw):
        raw = re.sub(r"\\\n", "  ", raw)
        if not re.search(r"^[ \t]*#[ \t]*ifdef[ \t]+__ARM_BIG_ENDIAN[ \t]*\n[ \t]*#[ \t]*error\b", raw, re.M):
            raise TranslationBroken(ARTEFACT, "the `#ifdef __ARM_BIG_ENDIAN / #error` guard is gone: the translation assumes little-endian loads and stores")
        defined = dict(self.predef)
        out, stack = [], []          # stack of [this branch active, some branch already taken, enclosing active]
        active = lambda: all(f[0] for f in stack)
        for line in raw.split("\n"):
            s = line.strip()
            if not s.startswith("#"):
                out.append(line if active() else " " * len(line))
                continue
            out.append(" " * len(line))
            d = re.sub(r"^#\s*", "", X.strip_comments(s)).strip()
            m = re.match(r"^(if|ifdef|ifndef|elif)\b\s*(.*)$", d)
            try:
                if m and m.group(1) != "elif":
                    enclosing = active()
                    if m.group(1) == "if":
                        v = bool(pp_eval(m.group(2), defined)) if enclosing else False
                    else:
                        if not re.match(r"^\w+$", m.group(2)):
                            raise ValueError("expected one identifier")
                        v = (m.group(2) in defined) == (m.group(1) == "ifdef")
                    stack.append([v and enclosing, v, enclosing])
                elif m:
                    if not stack:
                        raise ValueError("#elif without #if")
                    f = stack[-1]
                    v = bool(pp_eval(m.group(2), defined)) if (f[2] and not f[1]) else False
                    f[0] = v and f[2] and not f[1]
                    f[1] = f[1] or v
                elif d == "else":
                    if not stack:
                        raise ValueError("#else without #if")
                    f = stack[-1]
                    f[0] = f[2] and not f[1]
                    f[1] = True
                elif d == "endif":
                    if not stack:
                        raise ValueError("#endif without #if")
                    stack.pop()
                elif not active():
                    continue
                elif d.startswith("include"):
                    continue
                elif d.startswith("error"):
                    raise ValueError("#error reached")
                else:
                    raise ValueError("unsupported directive")
            except ValueError as ex:
                raise TranslationBroken(ARTEFACT, f"preprocessor line {s!r}: {ex}")
        if stack:
            raise TranslationBroken(ARTEFACT, "unterminated #if")
        return "\n".join(out)


# ------------------------------------------------------------------------------------------------
# statements: `static const T x = ..` is a constant; the wrappers are called loadu_128 / storeu_128

_parse_simple = C.parse_simple


def parse_simple(fn, s):
    return _parse_simple(fn, re.sub(r"^static\s+const\b", "const", s))


C.parse_simple = parse_simple

_prepare_body = C.prepare_body


def rename_calls(fn, e):
    if isinstance(e, tuple):
        if e and e[0] == "call":
            if e[1] in ("loadu", "storeu"):
                broken(fn, f"unknown function {e[1]}")
            name = {"loadu_128": "loadu", "storeu_128": "storeu"}.get(e[1], e[1])
            return ("call", name, rename_calls(fn, e[2]))
        return tuple(rename_calls(fn, x) for x in e)
    if isinstance(e, list):
        return [rename_calls(fn, x) for x in e]
    return e


def prepare_body(src, fn, raw, segment_markers=False):
    if segment_markers == "blank":
        # a run of blank source lines after a line whose CODE (comments removed) ends a statement is a cut; ext_simd_c.py
        # looks for `;` directly followed by the blank line, so that a trailing comment would hide the cut
        raw_lines = raw.rstrip().split("\n")
        code_lines = X.strip_comments(raw.rstrip()).split("\n")
        if len(raw_lines) != len(code_lines):
            broken(fn, "comment stripping changed the number of lines")
        cnt, out_lines, after_stmt = 1, [], False
        for rl, cl in zip(raw_lines, code_lines):
            if rl.strip() == "":
                if after_stmt:
                    cnt += 1
                    out_lines.append(f"__segment__({cnt});")
                    after_stmt = False
            elif cl.strip():
                after_stmt = cl.rstrip().endswith(";")
            out_lines.append(rl)
        raw, segment_markers = "\n".join(out_lines), False
    stmts, tail = _prepare_body(src, fn, raw, segment_markers)
    return rename_calls(fn, stmts), (rename_calls(fn, tail) if tail is not None else None)


C.prepare_body = prepare_body


# ------------------------------------------------------------------------------------------------
# one function


class CFn(C.CFn):
    def ctype(self, ct, what):
        base, ptr, dim, const = ct
        if base == "uint32x4_t":
            # same shapes as `__m128i` in the x86 files: value, array of vectors, pointer to one vector
            saved = dict(C.BASE)
            C.BASE["__m128i"] = "V4"
            try:
                return super().ctype(("__m128i", ptr, dim, const), what)
            finally:
                C.BASE.clear()
                C.BASE.update(saved)
        if base in ("uint8x16_t", "uint16x8_t", "uint32x2_t", "uint32x4x2_t") and (ptr or dim is not None):
            self.bad(f"{what}: array of / pointer to {base}")
        return super().ctype(ct, what)

    def coerce(self, s, ty, val, target, what):
        if isinstance(ty, tuple) and ty and ty[0] == "ifelit":
            _, c, (a, av), (b, bv) = ty
            if target not in C.LIMIT:
                self.bad(f"{what}: integer constants where {target!r} is expected")
            lt = C.lean_ty(self.fn, target)
            return f"(if {c} then ({self.coerce(a, 'lit', av, target, what)} : {lt}) else ({self.coerce(b, 'lit', bv, target, what)} : {lt}))"
        if ty == "lit" and val is not None and val < 0:
            # a negative `int` constant converted to an unsigned type: modulo 2^N (C11 6.3.1.3)
            if target not in C.LIMIT or target == "usize":
                self.bad(f"{what}: negative constant {val} where {target!r} is expected")
            if val < -2 ** 31:
                self.bad(f"{what}: constant {val} does not fit int")
            return str(val % C.LIMIT[target])
        return super().coerce(s, ty, val, target, what)

    def emit(self, e):
        k = e[0]
        if k == "ife":
            c, cty, _ = self.emit(e[1])
            if cty not in ("bool", "prop"):
                self.bad(f"condition of `?:` of type {cty!r} (implicit comparison with 0 is not supported)")
            a, aty, av = self.emit(e[2])
            b, bty, bv = self.emit(e[3])
            if aty == "lit" and bty == "lit":
                if av is None or bv is None:
                    self.bad("`?:` with untyped non-constant branches")
                return f"(if {c} then {a} else {b})", ("ifelit", c, (a, av), (b, bv)), None
            self.bad("`?:` whose branches are not both integer constants")
        if k == "bnot":
            s, ty, val = self.emit(e[1])
            if ty == "lit":
                if val is None or not 0 <= val < 2 ** 31:
                    self.bad("~ of an integer constant that is not a non-negative int")
                return str(-val - 1), "lit", -val - 1            # `~c` at type int
            return super().emit(e)
        if k == "field":
            self.bad(f"member .{e[2]} used other than as `.val[k]` of a uint32x4x2_t")
        return super().emit(e)

    def emit_index(self, e):
        if e[1][0] == "field":
            s, ty, _ = self.emit(e[1][1])
            if ty != "V4x2" or e[1][2] != "val":
                self.bad(f"member .{e[1][2]} of {s} : {ty!r}")
            i = self.const(e[2], f"index of {s}.val")
            if i not in (0, 1):
                self.bad(f"{s}.val[{i}]: a uint32x4x2_t has two vectors")
            return f"{atom(s)}.{i + 1}", "V4", None
        return super().emit_index(e)

    def emit_ref(self, x):
        y = x
        while y[0] == "paren":
            y = y[1]
        if y[0] == "var" and self.vtype(y[1]) == "u32" and not self.is_uninit(y[1]):
            return y[1], ("ptr", "scalar32", y[1], 0, "u32"), None
        return super().emit_ref(x)

    def emit_call(self, e):
        name, args = e[1], e[2]
        if name == "vld1q_dup_u32":
            # uint32x4_t vld1q_dup_u32(uint32_t const *ptr): here always the address of a uint32_t object
            if len(args) != 1:
                self.bad(f"{name} arity")
            s, ty, _ = self.emit(args[0])
            if not C.is_ptr(ty, "scalar32"):
                self.bad(f"{name}: the argument is not the address of a uint32_t variable")
            return f"(vld1q_dup_u32 {ty[2]})", "V4", None
        if name == "vld1q_u32":
            # uint32x4_t vld1q_u32(uint32_t const *ptr): here always a whole local `uint32_t a[4]`
            if len(args) != 1:
                self.bad(f"{name} arity")
            a = args[0]
            while a[0] == "paren":
                a = a[1]
            if not (a[0] == "var" and self.vtype(a[1]) == ("words", 4, 4) and not self.is_uninit(a[1])):
                self.bad(f"{name}: the argument is not an initialised `uint32_t [4]` array")
            return f"(vld1q_u32 {a[1]})", "V4", None
        if name == "__builtin_shufflevector":
            # clang: __builtin_shufflevector(vec1, vec2, index...)  -- one constant index per result element
            if len(args) != 18:
                self.bad(f"{name}: expected two vectors and 16 indices, got {len(args)} arguments")
            out = []
            for a in args[:2]:
                s, ty, _ = self.emit(a)
                if ty != "Q8":
                    self.bad(f"{name}: vector argument of type {ty!r}, expected uint8x16_t")
                out.append(atom(s))
            for a in args[2:]:
                v = self.const(a, f"index of {name}")
                if not 0 <= v < 32:
                    self.bad(f"{name}: index {v} out of range (clang rejects it)")
                out.append(str(v))
            return f"({LEAN_NAME[name]} {' '.join(out)})", "Q8", None
        if name in NEON:
            kinds, ret = NEON[name]
            if len(args) != len(kinds):
                self.bad(f"{name} called with {len(args)} arguments")
            out = []
            for kd, a in zip(kinds, args):
                if kd.startswith("imm:"):
                    _, lo, hi = kd.split(":")
                    v = self.const(a, f"immediate of {name}")
                    if not int(lo) <= v <= int(hi):
                        self.bad(f"immediate {v} of {name} is outside {lo}..{hi} (the compiler rejects it)")
                    out.append(str(v))
                else:
                    s, ty, val = self.emit(a)
                    out.append(atom(self.coerce(s, ty, val, kd, f"argument of {name}")))
            return f"({LEAN_NAME.get(name, name)} {' '.join(out)})", ret, None
        if name.startswith("_mm"):
            self.bad(f"unknown function {name}")
        return super().emit_call(e)

    def stmt_let(self, s):
        _, name, ct, e = s
        if e[0] == "array":
            ty, _ = self.ctype(ct, name)
            if name in self.env:
                self.bad(f"{name} declared twice (shadowing is not supported)")
            if ty == ("words", len(e[1]), 4):
                parts = []
                for x in e[1]:
                    t, tt, tv = self.emit(x)
                    parts.append(self.coerce(t, tt, tv, "u32", f"initialiser of {name}"))
                self.out(f"let {name} : Vector UInt32 {len(e[1])} := #v[{', '.join(parts)}]")
                self.declare(name, ty)
                return
            if ty == "Q8":
                if not ct[3]:
                    self.bad(f"{name}: a uint8x16_t initialiser list is only supported for a const table")
                if len(e[1]) != 16:
                    self.bad(f"{len(e[1])} initialisers for the 16 bytes of {name} (the rest would be zero)")
                vals = []
                for x in e[1]:
                    v = self.const(x, f"initialiser of {name}")
                    if not 0 <= v < 256:
                        self.bad(f"initialiser {v} of {name} does not fit a byte")
                    vals.append(str(v))
                self.out(f"let {name} := u8x16_lit {' '.join(vals)}")
                self.declare(name, ty)
                return
        return super().stmt_let(s)


C.CFn = CFn


# ------------------------------------------------------------------------------------------------
# the file

HEADER = """/- GENERATED by gen/ext_simd_neon.py (translator: gen/ext_simd_c.py) from c/blake3_neon.c -- do not edit -/
/-
Statement-by-statement translation of the C NEON kernels (`arm_neon.h` intrinsics; TRUSTED lane model:
B3/Simd/NeonPrim.lean; memory model of B3/Simd/Prim.lean + PrimC.lean, little-endian -- the file refuses to compile
for big-endian Arm).  Conventions:
  uint32x4_t -> V4 (lane 0 = bits 31:0 = the lowest address in memory); uint8x16_t / uint16x8_t -> V4 (byte k = byte
  k % 4 of lane k / 4, 16-bit element k = half k % 2 of lane k / 2: `vreinterpretq_*` is the identity on a
  little-endian machine); uint32x2_t -> V2; uint32x4x2_t -> V4 x V4 (`.val[0]`, `.val[1]` -> `.1`, `.2`);
  uintN_t -> UIntN (wrapping); size_t -> Nat (`+`, `*` without wrap-around: bounded by the size of real memory; `-` =
  Arith.w64sub, wrapping as in C); `T *p` (one object) and non-const array parameters that the function writes: taken
  and returned (a function returns the tuple of those parameters, in order); const / never written arrays: values;
  uint32_t[n], uint8_t[4n] -> Vector UInt32 n (little-endian words); const uint8_t * -> Mem (byte addressed, offset 0 =
  the pointer); const uint8_t *const * -> PtrArr; uint8_t * -> BytePtr (memory and offset); an array parameter that
  receives a byte pointer is the words read there (Mem.words / BytePtr.readWords) and, if the callee writes it,
  written back (BytePtr.writeWords); uninitialised locals handed to a callee -> `uninit` (opaque);
  `c ? ~0 : 0` assigned to a uint64_t: `~0` is the int -1, converted modulo 2^64;
  `while` -> whileFuel (bounded; see Simd/Prim.lean); a loop body / loop condition is lifted into its own definition
  `<fn>_loopK` / `<fn>_condK` taking the variables it reads and the tuple `st` of the variables the loop assigns.
  `loadu_128` / `storeu_128` (checked to be the `vld1q_u8` / `vst1q_u8` wrappers) -> loadu_mem / storeu_ptr.
  `blake3_compress_in_place_portable` -> B3.Gen.C.compress_in_place (c/blake3_portable.c, G2-c-portable).
  Conditional compilation: the text is the one a clang build sees (`__clang__` defined); `rot8_128_gcc` and
  `rot8_128_other` are the versions of `rot8_128` that GCC >= 4.7 and any other compiler see; nothing else in the
  file depends on the compiler.  No debug_assert / assert occurs in the source.
-/
import B3.Prim
import B3.Arith
import B3.Gen.Consts
import B3.Gen.CPortable
import B3.Simd.Prim
import B3.Simd.PrimC
import B3.Simd.NeonPrim
set_option linter.unusedVariables false
namespace B3.Gen.CNeon
open B3 B3.Simd B3.Simd.CI B3.Simd.Neon
open B3.Gen.C (IV MSG_SCHEDULE counter_low counter_high)

"""

WRAPPERS = (("loadu_128", "uint32x4_t", ["const uint8_t src[16]"], "returnvreinterpretq_u32_u8(vld1q_u8(src));"),
            ("storeu_128", "void", ["uint32x4_t src", "uint8_t dest[16]"], "vst1q_u8(dest,vreinterpretq_u8_u32(src));"))

PLAN = ["add_128", "xor_128", "set1_128", "set4", "rot16_128", "rot12_128", "rot8_128", "rot7_128",
        ("round_fn4", "blank"), "transpose_vecs_128", "transpose_msg_vecs4", "load_counters4", "blake3_hash4_neon",
        "hash_one_neon", "blake3_hash_many_neon"]
VARIANTS = [("clang", {"__clang__": 1, "__GNUC__": 4, "__GNUC_MINOR__": 2}),      # clang also defines __GNUC__ = 4.2
            ("gcc", {"__GNUC__": 12, "__GNUC_MINOR__": 2}),
            ("other", {})]
EXTERNAL = "blake3_compress_in_place_portable"


def make_generator(repo, predef):
    NeonSource.predef = predef
    C.CSource = NeonSource
    g = C.Generator(repo, REL, "CNeon", "V4")
    return g


def check_wrappers(g):
    for name, ret, params, body in WRAPPERS:
        r, ps, raw = g.src.find_fn(name)
        got = re.sub(r"\s+", "", X.strip_comments(raw))
        if r != ret or ps != params or got != body:
            broken(name, f"no longer the plain unaligned load/store wrapper: {r} {ps} {got!r}")


def function_names(text):
    """names of the functions defined (with a body) in a preprocessed text"""
    names = []
    code = X.strip_comments(text)
    for m in re.finditer(r"\b([A-Za-z_]\w*)\s*\(", code):
        p1 = X.match_brace(code, m.end() - 1, "(", ")")
        if not code[p1:].lstrip().startswith("{"):
            continue
        j = m.start()
        while j > 0 and code[j - 1] not in ";}":
            j -= 1
        words = [w for w in code[j:m.start()].split() if w not in ("INLINE", "static", "inline")]
        if words and all(w in C.TYPE_WORDS for w in words):
            names.append(m.group(1))
    return names


def blank_function(g, name):
    """the preprocessed text with the definition of `name` blanked out"""
    t = g.src.text
    m = None
    for mm in re.finditer(rf"\b{name}\s*\(", t):
        p1 = X.match_brace(t, mm.end() - 1, "(", ")")
        if t[p1:].lstrip().startswith("{"):
            m = mm
            break
    if m is None:
        broken(name, "function definition not found")
    b0 = t.index("{", X.match_brace(t, m.end() - 1, "(", ")"))
    b1 = X.match_brace(t, b0)
    return re.sub(r"\s+", " ", X.strip_comments(t[:b0] + t[b1:]))


def external_sig(g, repo):
    """blake3_compress_in_place_portable: the prototype here must be the definition of c/blake3_portable.c, which
    G2-c-portable translates as B3.Gen.C.compress_in_place (cv is written, the rest is read)"""
    ret, ptexts, _ = g.src.find_fn(EXTERNAL, want_body=False)
    with open(os.path.join(repo, "c/blake3_portable.c"), encoding="utf-8") as f:
        port = X.strip_comments(f.read())
    m = re.search(rf"\bvoid\s+{EXTERNAL}\s*\(", port)
    ok = False
    while m:
        p1 = X.match_brace(port, m.end() - 1, "(", ")")
        if port[p1:].lstrip().startswith("{"):
            there = [" ".join(p.split()) for p in C.split_top(port[m.end():p1 - 1], ",") if p.strip()]
            ok = (ret == "void" and there == ptexts)
            break
        m = re.compile(rf"\bvoid\s+{EXTERNAL}\s*\(").search(port, p1)
    if not ok:
        broken(EXTERNAL, f"the prototype in {REL} ({ret} {ptexts}) is not the definition in c/blake3_portable.c")
    tr = C.CFn(g, EXTERNAL)
    params = []
    for p in ptexts:
        ds = C.parse_decl_toks(EXTERNAL, C.tokenize(p))
        name, ct, _ = ds[0]
        params.append((name, tr.ctype(ct, f"parameter {name}")[0]))
    want = [("cv", ("words", 8, 4)), ("block", ("words", 16, 1)), ("block_len", "u8"), ("counter", "u64"), ("flags", "u8")]
    if params != want:
        broken(EXTERNAL, f"unexpected parameters {params}")
    return C.Sig(EXTERNAL, params, None, [0], lean_name="B3.Gen.C.compress_in_place")


def run(repo):
    gens = {}
    for vname, predef in VARIANTS:
        gens[vname] = make_generator(repo, predef)
    g = gens["clang"]
    # conditional compilation must be confined to rot8_128
    base = blank_function(g, "rot8_128")
    for vname in ("gcc", "other"):
        if blank_function(gens[vname], "rot8_128") != base:
            raise TranslationBroken(ARTEFACT, f"the text seen by a `{vname}` build differs from the clang text outside rot8_128")
    planned = {p[0] if isinstance(p, tuple) else p for p in PLAN} | {w[0] for w in WRAPPERS}
    found = function_names(g.src.text)
    for f in found:
        if f not in planned:
            raise TranslationBroken(ARTEFACT, f"{f}: a function of {REL} that the translation plan does not know")
    for f in planned:
        if f not in found:
            raise TranslationBroken(ARTEFACT, f"{f}: function not found in {REL}")
    check_wrappers(g)
    g.sigs[EXTERNAL] = external_sig(g, repo)
    for step in PLAN:
        if isinstance(step, tuple):
            g.translate_split(step[0], mode=step[1])
        else:
            g.translate(step)
        if step == "rot8_128":
            for vname in ("gcc", "other"):
                v = gens[vname]
                v.translate("rot8_128")
                d = v.defs[-1]
                if not d.startswith("def rot8_128 "):
                    broken("rot8_128", "unexpected shape of the translated variant")
                g.defs.append(f"/-- `rot8_128` as a `{vname}` build sees it -/\n" + d.replace("def rot8_128 ", f"def rot8_128_{vname} ", 1))
    return HEADER + "\n".join(g.defs) + "\nend B3.Gen.CNeon\n"


def gen_c_neon():
    C.Ctx.art = ARTEFACT
    try:
        return run(X.REPO)
    except TranslationBroken as ex:
        raise TranslationBroken(ARTEFACT, str(getattr(ex, "reason", ex)))
    except Exception as ex:
        if type(ex).__name__ == "TranslationBroken":
            raise TranslationBroken(ARTEFACT, str(getattr(ex, "reason", ex)))
        raise


ARTEFACTS = [("CNeon.lean", ARTEFACT, gen_c_neon)]


if __name__ == "__main__":
    try:
        sys.stdout.write(gen_c_neon())
    except TranslationBroken as ex:
        print(f"TranslationBroken: {ex}", file=sys.stderr)
        sys.exit(3)
