"""
G13-traits: src/traits.rs and src/guts.rs  ->  lean/B3/Gen/RsTraits.lean   (namespace B3.Gen.RsTraits)

Every item of the two files outside `#[cfg(test)]` is read: `use` declarations and `impl` headers are
listed, associated types (`type OutputSize = U32;`) become constants, and every function body is
translated STATEMENT BY STATEMENT into the panic monad `R` over the fields of `RsApi.Api`
(lean/B3/Model/TraitsApi.lean: one field per inherent operation of src/lib.rs that these files call).

What is understood (anything else raises TranslationBroken, nothing is skipped silently):
  items        attributes `#[inline]`, `#[derive(..)]`, `#[cfg(test)] mod ..` (dropped), `use ..;`,
               `impl Trait for Type { type X = Y; fn .. }`, `impl Type { fn .. }`, `pub struct Name(Type);`, `pub fn ..`
  statements   `let [mut] x [: T] = EXPR;`   `EXPR;` (a call, value discarded)   `debug_assert!(..);` (dropped)
               tail `EXPR`, tail `if c { .. } else { .. }` (c a `bool` variable or its negation), tail `self` for `-> &mut Self`
  expressions  variables, `self.0`, integer literals, `crate::IV`, flag / length constants of src/lib.rs,
               method calls and path calls resolved through `api_table` below (inherent methods take
               precedence over trait methods, as in Rust; a method that is not inherent is looked up among the trait
               methods already translated from this file), `Type::method(recv, ..)`, `Trait::method(recv, ..)`,
               `Self(..)` for the newtype, `x.into()` (conversion chosen by source and target type),
               `dst.copy_from_slice(src)`, `core::mem::take(x)`, checked `+ - * <<` on u64/usize, `|` on u8, `as u64/usize`
  order        calls are emitted in the order Rust evaluates them (receiver and arguments left to right, then the call);
               a `&mut` receiver / argument is re-bound to the value the callee returns

The signature of every inherent operation used is read from src/lib.rs (src/platform.rs) and compared with the
one `Api` assumes; a difference raises TranslationBroken.  Types are checked the way rustc would (argument
against parameter, tail against return type, array lengths), so an ill-typed edit is reported, not mistranslated.
"""
import re

import extract as X

A = "G13-traits"
TB = X.TranslationBroken

INT = ("u64", "usize")


def broken(msg):
    raise TB(A, msg)


# ------------------------------------------------------------------------------------------------
# lexical layer: a copy of the file with comments and string contents blanked (same offsets)


def blank(text):
    out = list(text)
    i, n = 0, len(text)
    while i < n:
        c = text[i]
        if text.startswith("//", i):
            j = text.find("\n", i)
            j = n if j < 0 else j
            for k in range(i, j):
                out[k] = " "
            i = j
        elif text.startswith("/*", i):
            j = text.find("*/", i + 2)
            j = n if j < 0 else j + 2
            for k in range(i, j):
                if out[k] != "\n":
                    out[k] = " "
            i = j
        elif c == '"':
            j = i + 1
            while j < n and text[j] != '"':
                j += 2 if text[j] == "\\" else 1
            for k in range(i + 1, min(j, n)):
                if out[k] != "\n":
                    out[k] = " "
            i = j + 1
        else:
            i += 1
    return "".join(out)


_blank_cache = {}


def blanked(rel):
    if rel not in _blank_cache:
        _blank_cache[rel] = blank(X.src(rel))
    return _blank_cache[rel]


def split_generic(s):
    """split on ',' at depth 0 of ( [ { <"""
    out, depth, cur = [], 0, []
    for ch in s:
        if ch in "([{<":
            depth += 1
        elif ch in ")]}>":
            depth -= 1
        if ch == "," and depth == 0:
            out.append("".join(cur))
            cur = []
        else:
            cur.append(ch)
    if "".join(cur).strip():
        out.append("".join(cur))
    return [x.strip() for x in out]


def nows(s):
    return re.sub(r"\s+", "", s)


# ------------------------------------------------------------------------------------------------
# items

KNOWN_ATTRS = re.compile(r"^#\[(inline(\(\w+\))?|derive\([\w\s,:]*\)|allow\([\w\s,:]*\)|doc\b.*|must_use)\]$", re.S)


def canon_header(text):
    """a function header with canonical spacing (docstrings only; layout of the source must not matter)"""
    toks = re.findall(r"\w+|->|::|[^\s\w]", text)
    # drop the trailing comma of a multi-line parameter list
    toks = [tk for k, tk in enumerate(toks) if not (tk == "," and k + 1 < len(toks) and toks[k + 1] == ")")]
    out = ""
    for k, tk in enumerate(toks):
        prev = toks[k - 1] if k else ""
        if k and ((re.match(r"\w", prev) and re.match(r"\w", tk)) or prev in (",", ":", ";", "->") or tk == "->"
                  or (prev == "mut" and tk == "[")):
            out += " "
        out += tk
    return out


def parse_items(t, i, n, where):
    """items of t[i:n] -> list of dicts (kind, start, end, ...); offsets into the file"""
    out = []
    drop_next = False
    while True:
        while i < n and t[i].isspace():
            i += 1
        if i >= n:
            break
        rest = t[i:n]
        m = re.match(r"#!?\[", rest)
        if m:
            j = X.match_brace(t, i + m.end() - 1, "[", "]")
            a = nows(t[i:j])
            if a == "#[cfg(test)]":
                drop_next = True
            elif not KNOWN_ATTRS.match(a):
                broken(f"{where}: attribute {t[i:j]!r} is not understood (it may change what is compiled)")
            i = j
            continue
        item = None
        m = re.match(r"(pub(\s*\([^)]*\))?\s+)?use\b", rest)
        if m:
            j = t.index(";", i) + 1
            item = dict(kind="use", text=re.sub(r"\s+", " ", t[i:j - 1]).strip(), start=i, end=j)
        if not item:
            m = re.match(r"(pub(\s*\([^)]*\))?\s+)?mod\s+(\w+)\s*\{", rest)
            if m:
                j = X.match_brace(t, i + m.end() - 1)
                item = dict(kind="mod", name=m.group(3), start=i, end=j)
        if not item:
            m = re.match(r"impl\b([^{;]*)\{", rest)
            if m:
                b0 = i + m.end() - 1
                j = X.match_brace(t, b0)
                head = re.sub(r"\s+", " ", m.group(1)).strip()
                mm = re.match(r"^([\w:]+) for ([\w:]+)$", head)
                if mm:
                    tr, ty = mm.group(1), mm.group(2)
                elif re.match(r"^[\w:]+$", head):
                    tr, ty = None, head
                else:
                    broken(f"{where}: impl header {head!r} is not understood")
                item = dict(kind="impl", trait=tr, type=ty, start=i, end=j, body=(b0 + 1, j - 1))
        if not item:
            m = re.match(r"(pub(\s*\([^)]*\))?\s+)?struct\s+(\w+)\s*\(([^)]*)\)\s*;", rest)
            if m:
                item = dict(kind="struct", name=m.group(3), inner=nows(m.group(4)), start=i, end=i + m.end())
        if not item:
            m = re.match(r"type\s+(\w+)\s*=\s*([^;]+);", rest)
            if m:
                item = dict(kind="type", name=m.group(1), value=nows(m.group(2)), start=i, end=i + m.end())
        if not item:
            m = re.match(r"(pub(\s*\([^)]*\))?\s+)?(const\s+)?fn\s+(\w+)\s*\(", rest)
            if m:
                p0 = i + m.end() - 1
                p1 = X.match_brace(t, p0, "(", ")")
                b0 = t.find("{", p1)
                semi = t.find(";", p1)
                if b0 < 0 or (0 <= semi < b0):
                    broken(f"{where}: fn {m.group(4)} has no body")
                ret = t[p1:b0].strip()
                if ret:
                    mr = re.match(r"^->\s*(.+)$", ret, re.S)
                    if not mr:
                        broken(f"{where}: fn {m.group(4)}: header tail {ret!r} is not understood")
                    ret = mr.group(1).strip()
                j = X.match_brace(t, b0)
                item = dict(kind="fn", name=m.group(4), params=t[p0 + 1:p1 - 1], ret=ret, body=t[b0 + 1:j - 1],
                            start=i, end=j, header=canon_header(t[i:b0]))
        if not item:
            broken(f"{where}: item not understood: {re.sub(chr(10), ' ', rest[:50])!r}")
        if drop_next:
            if item["kind"] != "mod":
                broken(f"{where}: #[cfg(test)] on something that is not a module")
            drop_next = False
        else:
            if item["kind"] == "mod":
                broken(f"{where}: module {item['name']} outside #[cfg(test)]")
            out.append(item)
        i = item["end"]
    return out


# ------------------------------------------------------------------------------------------------
# types.  canonical forms: ("Hasher",) ("OutputReader",) ("Hash",) ("Output",) ("ChunkState",) ("Guts",) ("Platform",)
# ("CVWords",) ("bytes", n | None) ("u64",) ("usize",) ("u8",) ("bool",) ("unit",) ("selfref",)

LEAN_TYPE = {"Hasher": "I.Hasher", "OutputReader": "I.OutputReader", "Hash": "I.Hash", "Output": "I.Output",
             "ChunkState": "I.ChunkState", "Guts": "I.ChunkState", "Platform": "I.Platform", "CVWords": "CV",
             "bytes": "List UInt8", "u64": "Nat", "usize": "Nat", "u8": "UInt8", "bool": "Bool", "unit": "Unit"}


def lean_type(ty):
    return LEAN_TYPE[ty[0]]


def show(ty):
    if ty[0] == "bytes":
        return "[u8]" if ty[1] is None else f"[u8; {ty[1]}]"
    return ty[0]


class Ctx:
    def __init__(self, file, self_type, assoc, consts, aliases):
        self.file, self.self_type, self.assoc, self.consts, self.aliases = file, self_type, assoc, consts, aliases


NAMED = {
    "traits": {"Hasher": "Hasher", "crate::Hasher": "Hasher", "OutputReader": "OutputReader", "crate::OutputReader": "OutputReader",
               "crate::Hash": "Hash"},
    "guts": {"crate::Hash": "Hash", "crate::ChunkState": "ChunkState", "ChunkState": "Guts", "crate::Hasher": "Hasher",
             "crate::platform::Platform": "Platform"},
    "lib": {"Hasher": "Hasher", "OutputReader": "OutputReader", "Hash": "Hash", "Output": "Output", "ChunkState": "ChunkState",
            "Platform": "Platform", "CVWords": "CVWords"},
}


def typenum(s, what):
    m = re.match(r"^(?:[\w:]+::)?U(\d+)$", s)
    if not m:
        broken(f"{what}: {s!r} is not a typenum unsigned")
    return int(m.group(1))


def array_len(s, ctx, what):
    if re.match(r"^\d+$", s):
        return int(s)
    if s in ctx.consts:
        return ctx.consts[s]
    broken(f"{what}: array length {s!r} is not a known constant")


def parse_type(s, ctx, what):
    """-> (mode, canonical type); mode in val / ref / mut"""
    s = nows(s)
    mode = "val"
    if s.startswith("&mut") and not s.startswith("&mutable"):
        mode, s = "mut", s[4:]
    elif s.startswith("&"):
        mode, s = "ref", s[1:]
    if s == "Self":
        if ctx.self_type is None:
            broken(f"{what}: `Self` outside an impl")
        return mode, ctx.self_type
    m = re.match(r"^Self::(\w+)$", s)
    if m:
        if m.group(1) not in ctx.assoc:
            broken(f"{what}: associated type {s} is not defined in this file")
        return mode, parse_type(ctx.assoc[m.group(1)], ctx, what)[1]
    if s in NAMED[ctx.file]:
        return mode, (NAMED[ctx.file][s],)
    if s in ctx.aliases:
        return mode, parse_type(ctx.aliases[s], ctx, what)[1]
    if s in ("u64", "usize", "u8", "bool"):
        return mode, (s,)
    if s == "[u8]":
        return mode, ("bytes", None)
    m = re.match(r"^\[u8;(\w+)\]$", s)
    if m:
        return mode, ("bytes", array_len(m.group(1), ctx, what))
    m = re.match(r"^(?:digest::array::)?Array<u8,(.+)>$", s)
    if m:
        inner = m.group(1)
        ma = re.match(r"^Self::(\w+)$", inner)
        if ma:
            if ma.group(1) not in ctx.assoc:
                broken(f"{what}: associated type {inner} is not defined in this file")
            inner = ctx.assoc[ma.group(1)]
        return mode, ("bytes", typenum(inner, what))
    if s in ("digest::Key<Self>", "Key<Self>", "common::Key<Self>"):
        # digest::Key<T> = Array<u8, <T as KeySizeUser>::KeySize>
        if "KeySize" not in ctx.assoc:
            broken(f"{what}: digest::Key<Self> used but KeySize is not defined in this file")
        return mode, ("bytes", typenum(ctx.assoc["KeySize"], what))
    broken(f"{what}: type {s!r} is not understood")


def parse_params(text, ctx, what):
    """-> (receiver mode | None, receiver is `mut self`, [(name, mode, type, binding is mut)])"""
    recv, recv_mut, ps = None, False, []
    for k, p in enumerate(split_generic(text)):
        q = re.sub(r"&\s+", "&", re.sub(r"\s+", " ", p).strip())
        if k == 0 and q in ("self", "mut self", "&self", "&mut self"):
            recv = {"self": "val", "mut self": "val", "&self": "ref", "&mut self": "mut"}[q]
            recv_mut = q == "mut self"
            continue
        m = re.match(r"^(mut )?(\w+) ?: ?(.+)$", q, re.S)
        if not m:
            broken(f"{what}: parameter {p!r} is not understood")
        mode, ty = parse_type(m.group(3), ctx, what)
        ps.append((m.group(2), mode, ty, bool(m.group(1))))
    return recv, recv_mut, ps


# ------------------------------------------------------------------------------------------------
# the inherent operations (Api fields): expected signature, checked against the source on use


class Callable:
    def __init__(self, lean, recv, self_type, params, ret, monadic):
        self.lean, self.recv, self.self_type, self.params, self.ret, self.monadic = lean, recv, self_type, params, ret, monadic


def B(n):
    return ("bytes", n)


def api_table(c):
    """(type, method) -> Callable for the Api fields; lengths from the constants of src/lib.rs"""
    O, K = c["OUT_LEN"], c["KEY_LEN"]
    return {
        ("Hasher", "update"): Callable("I.hasher_update", "mut", ("Hasher",), [("ref", B(None))], ("selfref",), True),
        ("Hasher", "reset"): Callable("I.hasher_reset", "mut", ("Hasher",), [], ("selfref",), False),
        ("Hasher", "finalize"): Callable("I.hasher_finalize", "ref", ("Hasher",), [], ("Hash",), True),
        ("Hasher", "finalize_xof"): Callable("I.hasher_finalize_xof", "ref", ("Hasher",), [], ("OutputReader",), True),
        ("Hasher", "new_keyed"): Callable("I.hasher_new_keyed", None, ("Hasher",), [("ref", B(K))], ("Hasher",), False),
        ("OutputReader", "fill"): Callable("I.reader_fill", "mut", ("OutputReader",), [("mut", B(None))], ("unit",), False),
        ("Hash", "as_bytes"): Callable("I.hash_as_bytes", "ref", ("Hash",), [], B(O), False),
        ("ChunkState", "new"): Callable("I.chunk_state_new", None, ("ChunkState",),
                                        [("ref", ("CVWords",)), ("val", ("u64",)), ("val", ("u8",)), ("val", ("Platform",))],
                                        ("ChunkState",), False),
        ("ChunkState", "count"): Callable("I.chunk_state_count", "ref", ("ChunkState",), [], ("usize",), False),
        ("ChunkState", "update"): Callable("I.chunk_state_update", "mut", ("ChunkState",), [("ref", B(None))], ("selfref",), False),
        ("ChunkState", "output"): Callable("I.chunk_state_output", "ref", ("ChunkState",), [], ("Output",), False),
        ("Output", "chaining_value"): Callable("I.output_chaining_value", "ref", ("Output",), [], B(32), False),
        ("Output", "root_hash"): Callable("I.output_root_hash", "ref", ("Output",), [], ("Hash",), True),
        ("Platform", "detect"): Callable("I.platform_detect", None, ("Platform",), [], ("Platform",), False),
        (None, "parent_node_output"): Callable("I.parent_node_output", None, None,
                                               [("ref", B(32)), ("ref", B(32)), ("ref", ("CVWords",)), ("val", ("u8",)),
                                                ("val", ("Platform",))], ("Output",), False),
    }


WHERE = {"Platform": "src/platform.rs"}


def lib_aliases():
    t = blanked("src/lib.rs")
    al = {}
    for m in re.finditer(r"^type\s+(\w+)\s*=\s*(.+?);[ \t]*$", t, flags=re.M):
        al[m.group(1)] = nows(m.group(2))
    return al


_checked = set()


def check_inherent(key, c, consts):
    """find `fn <method>` in an inherent `impl <Type> {` of the source and compare its signature with the Api's"""
    if key in _checked:
        return
    ty, name = key
    rel = WHERE.get(ty, "src/lib.rs")
    t = blanked(rel)
    found = None
    if ty is None:
        for m in re.finditer(r"^(?:pub(?:\s*\([^)]*\))?\s+)?fn\s+%s\s*\(" % name, t, flags=re.M):
            found = (m.start(), m.end() - 1, None)
    else:
        for mi in re.finditer(r"^impl\s+%s\s*\{" % ty, t, flags=re.M):
            e = X.match_brace(t, mi.end() - 1)
            for it in parse_items_lenient(t, mi.end(), e - 1):
                if it[0] == name:
                    found = (it[1], it[2], ty)
    if not found:
        broken(f"inherent `{ty + '::' if ty else ''}{name}` not found in {rel} (the trait method would not resolve to it)")
    s, p0, _ = found
    p1 = X.match_brace(t, p0, "(", ")")
    b0 = t.index("{", p1)
    X.record_span(A, rel, s, b0)
    ctx = Ctx("lib", (ty,) if ty else None, {}, consts, lib_aliases())
    what = f"signature of {ty + '::' if ty else ''}{name} in {rel}"
    recv, _, ps = parse_params(t[p0 + 1:p1 - 1], ctx, what)
    rtxt = t[p1:b0].strip()
    if rtxt:
        rtxt = re.sub(r"^->\s*", "", rtxt)
        rm, rt = parse_type(rtxt, ctx, what)
        if rm == "mut" and rt == ctx.self_type:
            rt = ("selfref",)
    else:
        rt = ("unit",)
    got = (recv, [(m, ty_) for (_, m, ty_, _) in ps], rt)
    want = (c.recv, list(c.params), c.ret)
    if got != want:
        broken(f"{what} is {got}, the Api field {c.lean} assumes {want}")
    _checked.add(key)


def parse_items_lenient(t, i, n):
    """(name, start, index of '(') of the fns directly inside an impl body; other items are skipped"""
    out = []
    k = i
    while k < n:
        ch = t[k]
        if ch == "{":
            k = X.match_brace(t, k)
            continue
        m = re.compile(r"\bfn\s+(\w+)\s*(<[^>]*>)?\s*\(").match(t, k)
        if m and (k == 0 or not (t[k - 1].isalnum() or t[k - 1] == "_")):
            out.append((m.group(1), k, m.end() - 1))
            k = m.end()
            continue
        k += 1
    return out


def check_impl_exists(rel, regex, what):
    if (rel, regex) in _checked:
        return
    _checked.add((rel, regex))
    t = blanked(rel)
    m = re.search(regex, t, flags=re.M)
    if not m:
        broken(f"{what} not found in {rel}")
    X.record_span(A, rel, m.start(), m.end())


# ------------------------------------------------------------------------------------------------
# function bodies

CONST_VARS_U8 = ["CHUNK_START", "CHUNK_END", "PARENT", "ROOT", "KEYED_HASH", "DERIVE_KEY_CONTEXT", "DERIVE_KEY_MATERIAL"]
CONST_VARS_USIZE = ["OUT_LEN", "KEY_LEN", "BLOCK_LEN", "CHUNK_LEN"]


class Var:
    def __init__(self, lean, ty, mutable):
        self.lean, self.ty, self.mutable = lean, ty, mutable


def lean_name(n):
    return {"self": "self_", "end": "end_", "from": "from_", "at": "at_", "open": "open_", "fun": "fun_", "show": "show_",
            "have": "have_", "then": "then_", "do": "do_"}.get(n, n)


class Body:
    def __init__(self, fname, ctx, table, translated, reexports):
        self.fname, self.ctx, self.table, self.translated, self.reexports = fname, ctx, table, translated, reexports
        self.vars = {}
        self.tmp = 0

    def fail(self, msg):
        broken(f"{self.fname}: {msg}")

    def fresh(self):
        self.tmp += 1
        return f"t{self.tmp}"

    # -- helpers
    def compat(self, got, want):
        """argument type `got` accepted where `want` is expected (array -> slice coercion only)"""
        if got == want:
            return True
        return got[0] == "bytes" and want == ("bytes", None)

    def place(self, e):
        """the variable that a place expression denotes (for `&mut` receivers / arguments)"""
        if e[0] == "paren":
            return self.place(e[1])
        if e[0] == "var" and e[1] in self.vars:
            return e[1]
        if e[0] == "field" and e[2] == "__0" and e[1][0] == "var" and e[1][1] in self.vars and self.vars[e[1][1]].ty == ("Guts",):
            return e[1][1]
        return None

    def const_var(self, name):
        """constants of src/lib.rs: `crate::NAME` anywhere; the bare NAME only where this file re-exports it"""
        parts = name.split("::")
        base = parts[-1]
        if parts[:-1] == ["crate"]:
            pass
        elif parts[:-1] == [] and base in self.reexports:
            pass
        else:
            return None
        if base == "IV":
            return "Gen.Rs.IV", ("CVWords",)
        if base in CONST_VARS_U8:
            return f"Gen.Rs.{base}", ("u8",)
        if base in CONST_VARS_USIZE:
            return f"Gen.Rs.{base}", ("usize",)
        return None

    # -- expressions: (term, type); monadic steps are appended to `lines`
    def ex(self, e, lines, pad, expected=None):
        k = e[0]
        if k == "paren":
            return self.ex(e[1], lines, pad, expected)
        if k == "num":
            if expected is None or expected[0] not in ("u64", "usize", "u8"):
                self.fail(f"integer literal {e[1]} where {show(expected) if expected else 'an unknown type'} is expected")
            if expected[0] == "u8" and e[1] > 255:
                self.fail(f"literal {e[1]} does not fit u8")
            return str(e[1]), expected
        if k == "var":
            if e[1] in self.vars:
                v = self.vars[e[1]]
                return v.lean, v.ty
            cv = self.const_var(e[1])
            if cv:
                return cv
            self.fail(f"unknown name {e[1]}")
        if k == "field":
            t, ty = self.ex(e[1], lines, pad)
            if ty == ("Guts",) and e[2] == "__0":
                return t, ("ChunkState",)       # the newtype `ChunkState(crate::ChunkState)` is its field
            self.fail(f"field {e[2].replace('__', '')} of {show(ty)}")
        if k == "cast":
            t, ty = self.ex(e[1], lines, pad, ("u64",) if e[2] in INT else None)
            if ty[0] in INT and e[2] in INT:
                return t, (e[2],)               # u64 <-> usize: the same 64-bit value on the supported targets
            self.fail(f"cast of {show(ty)} to {e[2]}")
        if k == "bin":
            op = e[1]
            a, ta = self.ex(e[2], lines, pad, expected)
            b, tb = self.ex(e[3], lines, pad, ta if op not in ("<<", ">>") else ("u64",))
            if ta[0] in INT and op in ("+", "-", "*", "/", "%") and tb == ta:
                f = {"+": "Arith.cadd", "-": "Arith.csub", "*": "Arith.cmul", "/": "Arith.cdiv", "%": "Arith.cmod"}[op]
                v = self.fresh()
                lines.append(f"{pad}let {v} ← {f} {a} {b}")
                return v, ta
            if ta[0] in INT and op == "<<":
                v = self.fresh()
                lines.append(f"{pad}let {v} ← Arith.cshl {a} {b}")
                return v, ta
            if ta == ("u8",) and tb == ("u8",) and op in ("|", "&", "^"):
                return f"({a} {X.LEAN_BIN[op]} {b})", ta
            self.fail(f"operator {op} on {show(ta)} and {show(tb)}")
        if k == "call":
            return self.call(e, lines, pad, expected)
        if k == "method":
            return self.method(e, lines, pad, expected)
        self.fail(f"expression {e} is not understood")

    def invoke(self, c, recv_e, arg_es, lines, pad, what):
        """emit the call; returns (term of the return value, its type)"""
        terms, rebinding = [], []
        if c.recv:
            if recv_e is None:
                self.fail(f"{what}: receiver missing")
            rt, rty = self.ex(recv_e, lines, pad)
            want = c.self_type
            if rty != want:
                self.fail(f"{what}: receiver has type {show(rty)}, expected {show(want)}")
            if c.recv == "mut":
                p = self.place(recv_e)
                if p is None or not self.vars[p].mutable:
                    self.fail(f"{what}: needs a mutable place as receiver")
                rebinding.append(p)
            terms.append(rt)
        if len(arg_es) != len(c.params):
            self.fail(f"{what}: {len(arg_es)} arguments, {len(c.params)} expected")
        for a, (mode, pty) in zip(arg_es, c.params):
            at, aty = self.ex(a, lines, pad, pty)
            if not self.compat(aty, pty):
                self.fail(f"{what}: argument of type {show(aty)} where {show(pty)} is expected")
            if mode == "mut":
                p = self.place(a)
                if p is None or not self.vars[p].mutable:
                    self.fail(f"{what}: needs a mutable place as `&mut` argument")
                rebinding.append(p)
            terms.append(at)
        app = " ".join([c.lean] + [t if re.match(r"^[\w.]+$", t) or t.startswith("(") else f"({t})" for t in terms])
        has_ret = c.ret not in (("unit",), ("selfref",))
        if not c.monadic and not rebinding:
            if not has_ret:
                self.fail(f"{what}: call without any effect")
            return (f"({app})" if terms else app), c.ret
        names = []
        rv = None
        if has_ret:
            rv = self.fresh()
            names.append(rv)
        names += [self.vars[p].lean for p in rebinding]
        pat = names[0] if len(names) == 1 else "(" + ", ".join(names) + ")" if names else "_"
        lines.append(f"{pad}let {pat} {'←' if c.monadic else ':='} {app}")
        return (rv, c.ret) if has_ret else ("()", c.ret)

    def resolve_method(self, ty, name):
        key = (ty[0], name)
        if key in self.table:
            c = self.table[key]
            check_inherent(key, c, self.ctx.consts)
            return c
        # not inherent: a trait method translated earlier from this file
        cands = [c for (tr, n), c in self.translated.items() if n == name and c.self_type == ty]
        if len(cands) == 1:
            return cands[0]
        return None

    def method(self, e, lines, pad, expected):
        recv_e, name, args = e[1], e[2], e[3]
        if name == "into" and not args:
            t, ty = self.ex(recv_e, lines, pad)
            if expected is None:
                self.fail("`.into()` without a type annotation / return type to determine the target")
            if ty[0] == "bytes" and expected[0] == "bytes":
                if ty[1] is None or expected[1] is None or ty[1] != expected[1]:
                    self.fail(f"`.into()` from {show(ty)} to {show(expected)}: lengths differ (no such conversion)")
                return t, expected              # Array<u8, U_n> -> [u8; n]: the same bytes
            if ty == ("bytes", self.ctx.consts["OUT_LEN"]) and expected == ("Hash",):
                check_impl_exists("src/lib.rs", r"^impl\s+From<\[u8;\s*OUT_LEN\]>\s+for\s+Hash\b", "impl From<[u8; OUT_LEN]> for Hash")
                return f"(I.hash_from_bytes {t})", expected
            if ty == ("Hash",) and expected == ("bytes", self.ctx.consts["OUT_LEN"]):
                check_impl_exists("src/lib.rs", r"^impl\s+From<Hash>\s+for\s+\[u8;\s*OUT_LEN\]", "impl From<Hash> for [u8; OUT_LEN]")
                return f"(I.hash_as_bytes {t})", expected
            if ty == expected:
                return t, ty
            self.fail(f"`.into()` from {show(ty)} to {show(expected)} is not understood")
        if name == "copy_from_slice" and len(args) == 1:
            # <[u8]>::copy_from_slice(&mut self, src: &[u8])
            c = Callable("copy_from_slice", "mut", None, [("ref", ("bytes", None))], ("unit",), True)
            save = self.tmp
            t, ty = self.ex(recv_e, [], pad)
            self.tmp = save
            if ty[0] != "bytes":
                self.fail(f"copy_from_slice on {show(ty)}")
            c.self_type = ty
            return self.invoke(c, recv_e, args, lines, pad, "copy_from_slice")
        # type of the receiver (evaluated for its type only; `invoke` evaluates it for real)
        save = self.tmp
        _, ty = self.ex(recv_e, [], pad)
        self.tmp = save
        c = self.resolve_method(ty, name)
        if c is None:
            self.fail(f"method `{name}` on {show(ty)} is not understood")
        if not c.recv:
            self.fail(f"`{name}` is an associated function, called as a method")
        return self.invoke(c, recv_e, args, lines, pad, f"{show(ty)}::{name}")

    def call(self, e, lines, pad, expected):
        name, args = e[1], e[2]
        if name == "Self" and self.ctx.self_type == ("Guts",):
            if len(args) != 1:
                self.fail("Self(..) with other than one field")
            t, ty = self.ex(args[0], lines, pad, ("ChunkState",))
            if ty != ("ChunkState",):
                self.fail(f"Self(..) of a {show(ty)}")
            return t, ("Guts",)
        if name in ("core::mem::take", "std::mem::take", "mem::take"):
            if len(args) != 1:
                self.fail("mem::take with other than one argument")
            p = self.place(args[0])
            if p is None or not self.vars[p].mutable:
                self.fail("mem::take of something that is not a mutable place")
            v = self.vars[p]
            if v.ty != ("Hasher",):
                self.fail(f"mem::take of a {show(v.ty)} (only Hasher: Default is known)")
            check_impl_exists("src/lib.rs", r"^impl\s+Default\s+for\s+Hasher\b", "impl Default for Hasher")
            old = self.fresh()
            lines.append(f"{pad}let {old} := {v.lean}")
            lines.append(f"{pad}let {v.lean} := I.hasher_default")
            return old, v.ty
        parts = name.split("::")
        if len(parts) >= 2:
            tyname, meth = "::".join(parts[:-1]), parts[-1]
            # Type::method(..)
            ty = None
            if tyname == "Self":
                ty = self.ctx.self_type
            elif tyname in NAMED[self.ctx.file]:
                ty = (NAMED[self.ctx.file][tyname],)
            if ty is not None:
                c = self.resolve_method(ty, meth)
                if c is None:
                    self.fail(f"`{name}` is not understood")
                if c.recv:
                    if not args:
                        self.fail(f"`{name}` called without a receiver")
                    return self.invoke(c, args[0], args[1:], lines, pad, name)
                return self.invoke(c, None, args, lines, pad, name)
            # Trait::method(recv, ..) for a trait method translated earlier from this file
            key = (parts[-2], meth)
            if key in self.translated and (len(parts) == 2 or parts[:-2] in (["digest"], ["common"], ["digest", "common"])):
                c = self.translated[key]
                if c.recv:
                    return self.invoke(c, args[0] if args else None, args[1:], lines, pad, name)
                return self.invoke(c, None, args, lines, pad, name)
            if parts[0] == "crate" and (None, meth) in self.table and len(parts) == 2:
                c = self.table[(None, meth)]
                check_inherent((None, meth), c, self.ctx.consts)
                return self.invoke(c, None, args, lines, pad, name)
        self.fail(f"call of `{name}` is not understood")

    # -- statements
    def block(self, stmts, pad, finish):
        """lines of a do block; `finish(tail term | None, tail type)` -> the final `pure ...` line"""
        lines = []
        n = len(stmts)
        for idx, st in enumerate(stmts):
            last = idx == n - 1
            if st[0] == "while":
                self.fail("loops are not understood here")
            if st[0] == "if":
                if not last or st[3] is None:
                    self.fail("`if` is understood only as the final `if .. else ..` expression of a body")
                c = st[1].strip()
                m = re.match(r"^(!?)\s*(\w+)$", c)
                if not m or m.group(2) not in self.vars or self.vars[m.group(2)].ty != ("bool",):
                    self.fail(f"condition {c!r} is not a bool variable or its negation")
                cond = ("!" if m.group(1) else "") + self.vars[m.group(2)].lean
                saved = dict(self.vars)
                tl = self.block(parse_stmts(st[2], self.fname), pad + "  ", finish)
                self.vars = dict(saved)
                el = self.block(parse_stmts(st[3], self.fname), pad + "  ", finish)
                self.vars = saved
                lines += [f"{pad}if {cond} then do"] + tl + [f"{pad}else do"] + el
                return lines
            t = st[1].strip()
            if st[0] == "tail":
                lines += finish(self, t, lines, pad)
                return lines
            if re.match(r"^debug_assert(_eq|_ne)?!\s*\(", t):
                continue
            m = re.match(r"^let\s+(mut\s+)?(\w+)\s*(?::\s*([^=]+?))?\s*=\s*(.+)$", t, re.S)
            if m:
                ann = parse_type(m.group(3), self.ctx, f"{self.fname}: let {m.group(2)}") if m.group(3) else None
                if ann and ann[0] != "val":
                    self.fail(f"let {m.group(2)}: reference type annotations are not understood")
                v, ty = self.ex(parse(m.group(4), self.fname), lines, pad, ann[1] if ann else None)
                if ann and ty != ann[1]:
                    self.fail(f"let {m.group(2)}: value of type {show(ty)}, annotation {show(ann[1])}")
                if ty in (("unit",), ("selfref",)):
                    self.fail(f"let {m.group(2)}: binds no value")
                ln = lean_name(m.group(2))
                lines.append(f"{pad}let {ln} := {v}")
                self.vars[m.group(2)] = Var(ln, ty, bool(m.group(1)))
                continue
            if t.startswith("let ") or t.startswith("return") or t.startswith("use "):
                self.fail(f"statement {t!r} is not understood")
            e = parse(t, self.fname)
            if e[0] not in ("call", "method"):
                self.fail(f"statement {t!r} is not a call")
            before = len(lines)
            v, ty = self.ex(e, lines, pad)
            if len(lines) == before:
                self.fail(f"statement {t!r} has no effect")
        lines += finish(self, None, lines, pad)
        return lines


def parse(s, fname):
    s = re.sub(r"(?<=[\w)\]])\.(\d+)\b", r".__\1", s)     # tuple field `.0` -> `.__0`
    try:
        return X.parse_expr(s)
    except ValueError as ex:
        broken(f"{fname}: expression {s!r}: {ex}")


def parse_stmts(text, fname):
    try:
        return X.rs_statements(text)
    except ValueError as ex:
        broken(f"{fname}: {ex}")


def translate_fn(item, ctx, table, translated, reexports, ns, lean_fn, trait=None):
    """-> (lines of the Lean definition, Callable for later calls)"""
    fname = f"{ns}::{item['name']}"
    recv, recv_mut, ps = parse_params(item["params"], ctx, fname)
    if item["ret"]:
        rm, rt = parse_type(item["ret"], ctx, fname)
        if rm == "mut" and rt == ctx.self_type:
            rt = ("selfref",)
        elif rm != "val":
            broken(f"{fname}: reference return types other than `&mut Self` are not understood")
    else:
        rt = ("unit",)
    b = Body(fname, ctx, table, translated, reexports)
    sig = []
    outs = []       # names of the variables whose final values are returned
    if recv:
        b.vars["self"] = Var("self_", ctx.self_type, recv == "mut" or recv_mut)
        sig.append(f"(self_ : {lean_type(ctx.self_type)})")
        if recv == "mut":
            outs.append("self")
    for (n, mode, ty, bm) in ps:
        if n in b.vars:
            broken(f"{fname}: duplicate parameter {n}")
        b.vars[n] = Var(lean_name(n), ty, mode == "mut" or (mode == "val" and bm))
        sig.append(f"({lean_name(n)} : {lean_type(ty)})")
        if mode == "mut":
            outs.append(n)
    if rt == ("selfref",) and recv != "mut":
        broken(f"{fname}: returns `&mut Self` without a `&mut self` receiver")

    def finish(body, tail, lines, pad):
        comps = []
        if rt == ("selfref",):
            if tail is None or tail.strip() != "self":
                broken(f"{fname}: a `-> &mut Self` body must end with `self`")
        elif rt == ("unit",):
            if tail is not None:
                broken(f"{fname}: tail expression {tail!r} in a function that returns nothing")
        else:
            if tail is None:
                broken(f"{fname}: no tail expression for return type {show(rt)}")
            v, ty = body.ex(parse(tail, fname), lines, pad, rt)
            if ty != rt:
                broken(f"{fname}: tail expression has type {show(ty)}, the function returns {show(rt)}")
            comps.append(v)
        comps += [body.vars[o].lean for o in outs]
        return [f"{pad}pure " + ("()" if not comps else comps[0] if len(comps) == 1 else "(" + ", ".join(comps) + ")")]

    lines = b.block(parse_stmts(item["body"], fname), "  ", finish)
    rcomps = ([lean_type(rt)] if rt not in (("unit",), ("selfref",)) else []) + [lean_type(b.vars[o].ty) for o in outs]
    rty = "Unit" if not rcomps else "(" + " × ".join(rcomps) + ")" if len(rcomps) > 1 or " " in rcomps[0] else rcomps[0]
    doc = f"/-- `{item['header']}`" + (f" (`impl {trait} for {show(ctx.self_type)}`)" if trait else "") + " -/"
    out = [doc, f"def {lean_fn} {' '.join(sig)} : R {rty} := do".replace("  :", " :")] + lines + [""]
    c = Callable(f"{ns.replace('::', '.')}.{lean_fn} I", recv, ctx.self_type if recv else None,
                 [(mode, ty) for (_, mode, ty, _) in ps], rt, True)
    return out, c


def lean_str_list(xs):
    return "[" + ", ".join('"' + x.replace("\\", "\\\\").replace('"', '\\"') + '"' for x in xs) + "]"


# ------------------------------------------------------------------------------------------------


def gen_traits_file(o, consts, table):
    rel = "src/traits.rs"
    t = blanked(rel)
    items = parse_items(t, 0, len(t), rel)
    for it in items:
        X.record_span(A, rel, it["start"], it["end"])
    uses = [it["text"] for it in items if it["kind"] == "use"]
    impls = [it for it in items if it["kind"] == "impl"]
    for it in items:
        if it["kind"] not in ("use", "impl"):
            broken(f"{rel}: unexpected top-level {it['kind']} {it.get('name', '')}")
    # associated types of the whole file first (Self::OutputSize, Self::Reader are used across impls)
    assoc, assoc_list = {}, []
    parsed = []
    for im in impls:
        if im["trait"] is None:
            broken(f"{rel}: inherent impl of {im['type']} (only trait impls are expected here)")
        if im["type"] not in ("Hasher", "OutputReader"):
            broken(f"{rel}: impl for {im['type']}")
        sub = parse_items(t, im["body"][0], im["body"][1], f"impl {im['trait']} for {im['type']}")
        for s in sub:
            if s["kind"] == "type":
                if s["name"] in assoc:
                    broken(f"{rel}: associated type {s['name']} defined twice")
                assoc[s["name"]] = s["value"]
                assoc_list.append((im["trait"], s["name"], s["value"]))
            elif s["kind"] != "fn":
                broken(f"impl {im['trait']} for {im['type']}: unexpected {s['kind']}")
        parsed.append((im, sub))
    o.append("/-! ### src/traits.rs -/")
    o.append("")
    o.append("/-- the `use` declarations, in source order -/")
    o.append(f"def useDecls : List String := {lean_str_list(uses)}")
    o.append("/-- every `impl Trait for Type` outside `#[cfg(test)]`, in source order (marker traits have empty bodies) -/")
    o.append("def impls : List (String × String) := [" + ", ".join(f'("{im["trait"]}", "{im["type"]}")' for im in impls) + "]")
    o.append("/-- the names of the methods each impl defines -/")
    o.append("def implMethods : List (String × List String) := [" + ", ".join(
        f'("{im["trait"]}", {lean_str_list([s["name"] for s in sub if s["kind"] == "fn"])})' for im, sub in parsed) + "]")
    o.append("/-- associated types: (trait, name, value as written) -/")
    o.append("def assocTypes : List (String × String × String) := [" + ", ".join(f'("{a}", "{b}", "{c}")' for a, b, c in assoc_list) + "]")
    for tr, name, val in assoc_list:
        if re.match(r"^(?:[\w:]+::)?U\d+$", val):
            o.append(f"/-- `type {name} = {val};` (`impl {tr}`): the typenum as a number -/")
            o.append(f"def {name} : Nat := {typenum(val, name)}")
        else:
            ctx = Ctx("traits", ("Hasher",), assoc, consts, {})
            _, ty = parse_type(val, ctx, f"type {name}")
            o.append(f"/-- `type {name} = {val};` (`impl {tr}`) -/")
            o.append(f"abbrev {name} := {lean_type(ty)}")
    o.append("")
    translated = {}
    for im, sub in parsed:
        short = im["trait"].split("::")[-1]
        fns = [s for s in sub if s["kind"] == "fn"]
        if not fns:
            continue
        ctx = Ctx("traits", (im["type"],), assoc, consts, {})
        o.append(f"namespace {short}")
        for f in fns:
            lines, c = translate_fn(f, ctx, table, translated, [], short, lean_name(f["name"]), trait=im["trait"])
            o.extend(lines)
            if (short, f["name"]) in translated:
                broken(f"{rel}: {short}::{f['name']} defined twice")
            translated[(short, f["name"])] = c
        o.append(f"end {short}")
        o.append("")


def gen_guts_file(o, consts, table):
    rel = "src/guts.rs"
    t = blanked(rel)
    items = parse_items(t, 0, len(t), rel)
    for it in items:
        X.record_span(A, rel, it["start"], it["end"])
    o.append("/-! ### src/guts.rs -/")
    o.append("")
    o.append("namespace Guts")
    reexports = []
    structs = [it for it in items if it["kind"] == "struct"]
    if len(structs) != 1 or structs[0]["name"] != "ChunkState":
        broken(f"{rel}: expected exactly the tuple struct ChunkState")
    if structs[0]["inner"] != "crate::ChunkState":
        broken(f"{rel}: guts::ChunkState wraps `{structs[0]['inner']}`, not `crate::ChunkState` "
               f"(the translation treats the newtype as its field of that type)")
    for it in items:
        if it["kind"] == "use":
            m = re.match(r"^pub use crate::\{([\w\s,]+)\}$", it["text"]) or re.match(r"^pub use crate::(\w+)$", it["text"])
            if not m:
                broken(f"{rel}: `{it['text']}` is not understood")
            for n in [x.strip() for x in m.group(1).split(",") if x.strip()]:
                if n not in consts:
                    broken(f"{rel}: re-export of {n}, which is not a known constant of src/lib.rs")
                reexports.append(n)
                o.append(f"/-- `{it['text']}` -/")
                o.append(f"def {n} : Nat := Gen.Rs.{n}")
    o.append("/-- `pub struct ChunkState(crate::ChunkState);`: what the newtype wraps -/")
    o.append(f'def wraps : String := "{structs[0]["inner"]}"')
    o.append("/-- the names of the items defined, in source order -/")
    names = []
    for it in items:
        if it["kind"] == "impl":
            if it["trait"] is not None or it["type"] != "ChunkState":
                broken(f"{rel}: impl {it['trait']} for {it['type']}")
            sub = parse_items(t, it["body"][0], it["body"][1], "impl ChunkState")
            for s in sub:
                if s["kind"] != "fn":
                    broken(f"{rel}: impl ChunkState: unexpected {s['kind']}")
                names.append("ChunkState::" + s["name"])
        elif it["kind"] == "fn":
            names.append(it["name"])
    o.append(f"def items : List String := {lean_str_list(names)}")
    o.append("")
    translated = {}
    for it in items:
        if it["kind"] == "impl":
            ctx = Ctx("guts", ("Guts",), {}, consts, {})
            sub = parse_items(t, it["body"][0], it["body"][1], "impl ChunkState")
            o.append("namespace ChunkState")
            for s in sub:
                lines, c = translate_fn(s, ctx, table, translated, reexports, "Guts::ChunkState", lean_name(s["name"]))
                o.extend(lines)
                translated[("ChunkState", s["name"])] = c
            o.append("end ChunkState")
            o.append("")
        elif it["kind"] == "fn":
            ctx = Ctx("guts", None, {}, consts, {})
            lines, c = translate_fn(it, ctx, table, translated, reexports, "Guts", lean_name(it["name"]))
            o.extend(lines)
    o.append("end Guts")
    o.append("")


def gen_rs_traits():
    _checked.clear()
    _blank_cache.clear()
    consts = dict(X.rust_consts())
    table = api_table(consts)
    o = ["/- GENERATED by gen/ext_traits.py from /repo/src/traits.rs and /repo/src/guts.rs -- do not edit.",
         "   Every function body outside #[cfg(test)] is translated statement by statement over the inherent operations",
         "   collected in `RsApi.Api` (Model/TraitsApi.lean); `debug_assert!` lines are dropped; `&mut` receivers and",
         "   arguments are returned: (return value, self, &mut parameters). -/",
         "import B3.Gen.Consts", "import B3.Model.TraitsApi", "namespace B3.Gen.RsTraits", "open B3 B3.RsApi", "",
         "variable (I : Api)", ""]
    try:
        gen_traits_file(o, consts, table)
        gen_guts_file(o, consts, table)
    except TB:
        raise
    except ValueError as ex:
        raise TB(A, f"{ex}")
    o.append("end B3.Gen.RsTraits")
    return "\n".join(o) + "\n"


ARTEFACTS = [("RsTraits.lean", A, gen_rs_traits)]
