"""G37-asm-sse41-compress-msvc: the MSVC (MASM / ml64 syntax) flavour of `blake3_compress_in_place_sse41`,
`blake3_compress_xof_sse41` (c/blake3_sse41_x86-64_windows_msvc.asm) -> lean/B3/Gen/AsmSse41Msvc.lean, over the
instruction type `WInstr` of lean/B3/Asm/WinSem.lean, like gen/ext_asm_wgnu.py.

Front end: every line of the MASM source is rewritten, by itself, into the GNU-as Intel syntax that the parser of
gen/ext_asm_sem.py / gen/ext_asm_wgnu.py reads (same number of lines, so line numbers and spans are those of the source);
that parser then does all the checking (mnemonic table, operand shapes, labels, data directives) and refuses what it does
not know.  The rewriting:
  * `; comment` removed;
  * `name PROC` -> `name:`; `name ENDP` -> nothing (PROC/ENDP must nest properly; no `FRAME`, no arguments);
  * `@@:` -> `9:`, `@F` -> `9f`, `@B` -> `9b` (MASM's anonymous label = GNU-as local label: nearest following / preceding);
  * numbers `0A0H` -> `0xA0`;
  * `xmmword ptr [LABEL]` -> `xmmword ptr [LABEL+rip]` (ml64 encodes a direct symbol reference RIP-relative);
  * `movd xmmN, r64` -> `movq xmmN, r64` (ml64 assembles `movd` with a 64-bit register as 66 REX.W 0F 6E = MOVQ);
  * outside the routines: `public name`, `_TEXT SEGMENT ALIGN(16) 'CODE'`, `ALIGN 16`, `_TEXT ENDS`, `_RDATA ENDS`, `END` -> nothing;
    `_RDATA SEGMENT READONLY PAGE ALIAS(".rdata") 'CONST'` -> `.section .rdata`; in that segment `ALIGN n` -> `.balign n`,
    `dd a, b, ..` -> `.long a, b, ..`, `db ..` -> `.byte ..`, with `n dup (v)` expanded.
Any other directive reaches the GNU parser as an unknown mnemonic / statement and raises TranslationBroken there
(e.g. `ALIGN` inside a routine)."""
import os
import re
import sys

import extract as X

sys.path.insert(0, os.path.dirname(os.path.abspath(__file__)))
try:
    import ext_asm_sem as A
    import ext_asm_wgnu as W
finally:
    sys.path.pop(0)

HEX_RE = re.compile(r"(?<![\w.$@])([0-9][0-9A-Fa-f]*)[Hh](?![\w.$@])")
IDENT = r"[A-Za-z_$?][\w$?@]*"


def masm_num(m):
    return "0x%X" % int(m.group(1), 16)


class MasmFile(W.WinAsmFile):
    """c/blake3_*_x86-64_windows_msvc.asm, normalised line by line to GNU-as Intel syntax"""

    def __init__(self, art, rel):
        self.art = art
        self.rel = rel
        raw = X.src(rel)
        self.raw_lines = raw.split("\n")
        self.line_start = [0]
        for ln in self.raw_lines:
            self.line_start.append(self.line_start[-1] + len(ln) + 1)
        self.open_procs = []
        self.segment = None
        self.text_line = None
        self.ended = False
        self.lines = [self._normalise(k, ln) for k, ln in enumerate(self.raw_lines)]
        if self.open_procs:
            self.broken(f"{rel}: PROC without ENDP: {self.open_procs}")
        if self.segment is not None:
            self.broken(f"{rel}: segment {self.segment} not closed")
        if not self.ended:
            self.broken(f"{rel}: no END")
        if self.text_line is None:
            self.broken(f"{rel}: no `_TEXT SEGMENT`")
        self.syntax_line = self.text_line
        self._parse_rodata()

    def _normalise(self, k, line):
        where = f"{self.rel}:{k+1}"
        s = line.split(";", 1)[0].rstrip()
        t = s.split()
        if not t:
            return ""
        if self.ended:
            self.broken(f"{where}: statement after END")
        if '"' in s or "'" in s:
            if t == ["_TEXT", "SEGMENT", "ALIGN(16)", "'CODE'"] and self.segment is None and self.text_line is None:
                self.segment = "_TEXT"
                self.text_line = k
                return ""
            if t == ["_RDATA", "SEGMENT", "READONLY", "PAGE", 'ALIAS(".rdata")', "'CONST'"] and self.segment is None:
                self.segment = "_RDATA"
                return ".section .rdata"
            self.broken(f"{where}: unexpected statement `{s.strip()}`")
        if self.segment is None:
            if len(t) == 2 and t[0] == "public" and re.fullmatch(IDENT, t[1]):
                return ""
            if t == ["END"]:
                self.ended = True
                return ""
            self.broken(f"{where}: statement outside of a segment: `{s.strip()}`")
        if len(t) == 2 and t[1] == "ENDS":
            if t[0] != self.segment or self.open_procs:
                self.broken(f"{where}: `{s.strip()}` does not close the open segment")
            self.segment = None
            return ""
        if self.segment == "_RDATA":
            return self._normalise_data(where, s)
        # ---- _TEXT
        if len(t) == 2 and t[1] == "PROC" and re.fullmatch(IDENT, t[0]):
            self.open_procs.append(t[0])
            return t[0] + ":"
        if len(t) >= 2 and t[1] == "PROC":
            self.broken(f"{where}: PROC with attributes: `{s.strip()}`")
        if len(t) == 2 and t[1] == "ENDP":
            if not self.open_procs or self.open_procs[-1] != t[0]:
                self.broken(f"{where}: `{s.strip()}` does not close the innermost PROC")
            self.open_procs.pop()
            return ""
        if not self.open_procs:
            if t[0] == "ALIGN" and len(t) == 2 and t[1].isdigit():
                return ""
            self.broken(f"{where}: statement between routines: `{s.strip()}`")
        # ---- inside a routine: a label or an instruction
        if re.search(r"(?<![\w$?@])\d+[bf](?![\w$?@])|^\s*\d+\s*:", s):
            self.broken(f"{where}: GNU-style local label in a MASM file")
        if s.strip() == "@@:":
            return "9:"
        s = re.sub(r"@F(?![\w$?@])", "9f", s)
        s = re.sub(r"@B(?![\w$?@])", "9b", s)
        if "@" in s:
            self.broken(f"{where}: `@` in `{s.strip()}`")
        s = HEX_RE.sub(masm_num, s)

        def rip(m):
            inner = m.group(1).strip()
            if re.fullmatch(IDENT, inner) and inner not in A.REGS and not re.fullmatch(r"xmm\d+", inner):
                return f"[{inner}+rip]"
            return m.group(0)
        s = re.sub(r"\[([^\[\]]*)\]", rip, s)
        if "rip" in re.sub(r"\+rip\]", "", s).split():
            self.broken(f"{where}: explicit rip in a MASM file")
        m = re.fullmatch(r"(\s*)movd(\s+xmm\d+\s*,\s*)(\w+)\s*", s)
        if m and m.group(3) in A.REGS and A.REGS[m.group(3)][1] == "q64":
            s = f"{m.group(1)}movq{m.group(2)}{m.group(3)}"
        return s

    def _normalise_data(self, where, s):
        t = s.split(None, 1)
        if t[0] == "ALIGN" and len(t) == 2 and t[1].strip().isdigit():
            return f".balign {t[1].strip()}"
        if re.fullmatch(IDENT + r"\s*:", s.strip()):
            return s.strip()
        if t[0] in ("dd", "db") and len(t) == 2:
            vals = []
            for item in t[1].split(","):
                item = item.strip()
                m = re.fullmatch(r"(\d+)\s+dup\s*\(\s*([0-9][0-9A-Fa-f]*[Hh]?)\s*\)", item)
                rep, v = (int(m.group(1)), m.group(2)) if m else (1, item)
                if not re.fullmatch(r"[0-9]+|[0-9][0-9A-Fa-f]*[Hh]", v):
                    self.broken(f"{where}: data item `{item}` not understood")
                v = "0x%X" % int(v[:-1], 16) if v[-1] in "Hh" else v
                vals += [v] * rep
            return {"dd": ".long", "db": ".byte"}[t[0]] + " " + ", ".join(vals)
        self.broken(f"{where}: unexpected statement in _RDATA: `{s.strip()}`")


NOTE = """
Front end: the MASM source is rewritten line by line to GNU-as Intel syntax before parsing (see gen/ext_asm_msvc.py):
`name PROC` = label, `@@:`/`@F`/`@B` = local label 9, `0A0H` = 0xA0, `[LABEL]` = `[LABEL+rip]`, `movd xmm, r64` = `movq`
(the comments below show the rewritten statements)."""


def gen_sse41():
    return W.gen_file("G37-asm-sse41-compress-msvc", "c/blake3_sse41_x86-64_windows_msvc.asm", "AsmSse41Msvc",
                      [("compress_in_place", "blake3_compress_in_place_sse41"), ("compress_xof", "blake3_compress_xof_sse41")],
                      "SSE4.1", cls=MasmFile, flavour="MSVC / MASM", me="gen/ext_asm_msvc.py", note=NOTE)


ARTEFACTS = [("AsmSse41Msvc.lean", "G37-asm-sse41-compress-msvc", gen_sse41)]
