"""G34-asm-sse41-hash-many: the hand-written assembly routine `blake3_hash_many_sse41`
(c/blake3_sse41_x86-64_unix.S) -> lean/B3/Gen/AsmSse41Many.lean: the WHOLE routine (prologue, the 4-way loop with
its seven written-out rounds, the 2-input and 1-input tails, epilogue) as ONE instruction list over the instruction
type of lean/B3/Asm/ManySem.lean (which gives it a machine semantics), and the file's `.rodata` section as a byte list.

Everything is read from the source text (GNU assembler, `.intel_syntax noprefix`, run through cpp); the file parser
(`.rodata`, comment stripping, syntax checks) is the one of gen/ext_asm_sem.py, the routine parser is new:
  * the routine = the statements from its label to the next NAMED (non-numeric) label of the file, i.e. to the start
    of the next function -- NOT to the first `ret` (the tails follow the `ret`); one `Instr` per instruction statement,
    in source order; the last instruction must be a `jmp` or a `ret` (control cannot fall out of the list);
  * GNU-as local labels `N:` / `Nb` / `Nf` (here `2: 3: 4: 9:`, several definitions of each) are resolved to instruction
    indices: `Nb` = the nearest definition of `N` at or before the jump, `Nf` = the nearest one after it;
  * `.p2align N` lines inside the routine are padding (the assembler fills them with multi-byte NOPs, which change no
    architectural state); they produce no instruction.  Every other directive inside the routine is refused;
  * `_CET_ENDBR` (a macro that is either `endbr64` or empty) -> `endbr64`, architecturally a NOP;
  * operands: `xmmN`; general purpose registers of width 8 (low byte) / 32 / 64; memory operands
    `<size> ptr [base]`, `[base+disp]`, `[base-disp]`, `[base+index+disp]`, `[base+index-disp]` (scale 1 only) with
    size `byte`/`dword`/`qword`/`xmmword`, or no size at all (`prefetcht0 [..]`); `<size> ptr [LABEL+rip]`
    -> `.rip <size> <offset of LABEL in the .rodata section>`; immediates (decimal / 0x hex); jump targets;
  * each mnemonic has a table of admissible operand shapes (`SIGS`); immediates must be encodable for the operand width
    (a 64-bit operation takes a sign-extended 32-bit immediate: `and rsp, 0xFFFFFFFFFFFFFFC0` is `and rsp, -64`).
Anything else (unknown mnemonic, operand shape not in the table, scaled index, directive or preprocessor line inside the
routine, label not found, jump that does not resolve inside the routine, `blendvps` with a third operand other than
`xmm0`, ...) raises TranslationBroken.  Nothing but the padding directives is dropped.
"""
import re

import extract as X
import ext_asm_sem as S

ART = "G34-asm-sse41-hash-many"

# operand kinds:
#   x = xmm register; X0 = the register xmm0 (implicit operand of blendvps, written explicitly in Intel syntax)
#   mx / mq / md / mb = memory operand of 16 / 8 / 4 / 1 bytes (register-based or [LABEL+rip]); mu = memory operand without size
#   r8 / r32 / r64 = gpr of that width, r = gpr of any width, rr = gpr of the same width as the first operand
#   i8 = immediate 0..255, i = immediate encodable for the width of the first operand, t = jump target
V_X_XM = [("x", "x"), ("x", "mx")]
V_X_XM_I = [("x", "x", "i8"), ("x", "mx", "i8")]
MOV128 = [("x", "x"), ("x", "mx"), ("mx", "x")]
ALU = [("r", "rr"), ("r", "i")]
JCC = [("t",)]
SIGS = {
    "endbr64": [()],
    "movups": MOV128, "movdqu": MOV128, "movaps": MOV128, "movdqa": MOV128,
    "movd": [("x", "r32"), ("x", "md")],
    "pinsrd": [("x", "r32", "i8"), ("x", "md", "i8")],
    "paddd": V_X_XM, "psubd": V_X_XM, "pxor": V_X_XM, "por": V_X_XM, "pand": V_X_XM, "pshufb": V_X_XM, "pcmpgtd": V_X_XM,
    "punpckldq": V_X_XM, "punpckhdq": V_X_XM, "punpcklqdq": V_X_XM, "punpckhqdq": V_X_XM,
    "pslld": [("x", "i8")], "psrld": [("x", "i8")],
    "pshufd": V_X_XM_I, "shufps": V_X_XM_I, "pblendw": V_X_XM_I,
    "blendvps": [("x", "x", "X0"), ("x", "mx", "X0")],
    "prefetcht0": [("mu",)],
    "push": [("r64",)], "pop": [("r64",)],
    "mov": [("r", "rr"), ("r", "i"), ("r64", "mq"), ("r32", "md")],
    "movzx": [("r32", "r8"), ("r32", "mb")],
    "add": ALU, "sub": ALU, "and": ALU, "or": ALU, "xor": ALU, "cmp": ALU, "test": ALU,
    "neg": [("r",)], "dec": [("r",)],
    "shl": [("r", "i8")], "shr": [("r", "i8")],
    "cmovne": [("r32", "r32"), ("r64", "r64")],
    "jz": JCC, "je": JCC, "jnz": JCC, "jne": JCC, "jc": JCC, "jb": JCC, "jnc": JCC, "jae": JCC, "jmp": JCC,
    "ret": [()],
}
# several spellings of one instruction
MN_ALIAS = {"je": "jz", "jne": "jnz", "jb": "jc", "jae": "jnc", "cmovnz": "cmovne"}
SIZES = {"byte": "b", "dword": "d", "qword": "q", "xmmword": "x", "": "u"}
SIZE_LEAN = {"b": ".byte", "d": ".dword", "q": ".qword", "x": ".xmmword", "u": ".unsized"}


class ManyFile(S.AsmFile):
    def routine_to_next_label(self, name):
        """-> list of (mnemonic, [operand Lean text], source text, line no), labels resolved"""
        starts = [k for k, ln in enumerate(self.lines) if re.fullmatch(rf"\s*{re.escape(name)}\s*:\s*", ln)]
        if len(starts) != 1:
            self.broken(f"{name}: label not found in {self.rel}" if not starts else f"{name}: label defined {len(starts)} times")
        k0 = starts[0]
        if not (self.syntax_line < k0 < self.rodata_line):
            self.broken(f"{name}: not between `.intel_syntax noprefix` and the .rodata section")
        stmts = []      # (mnemonic, operand strings, line index)
        local = {}      # numeric label -> [instruction indices]
        k = k0 + 1
        end = None
        while k < self.rodata_line:
            s = self.lines[k].strip()
            ln = k
            k += 1
            if not s:
                continue
            if ";" in s:
                self.broken(f"{name}: line {ln+1}: `;` statement separator")
            m = S.LABEL_RE.match(s) if not s.startswith(".") and not s.startswith("#") else None
            named = False
            while m:
                lab, s = m.group(1), m.group(2).strip()
                if lab.isdigit():
                    local.setdefault(lab, []).append(len(stmts))
                else:
                    named = True
                    break
                m = S.LABEL_RE.match(s) if s else None
            if named:
                end = ln
                break
            if not s:
                continue
            if s.startswith("#"):
                self.broken(f"{name}: line {ln+1}: preprocessor line inside the routine: `{s}`")
            if s.startswith("."):
                parts = s.split()
                if parts[0] == ".p2align" and len(parts) == 2 and re.fullmatch(r"[0-9]+", parts[1]):
                    continue        # padding: NOPs, no architectural effect
                self.broken(f"{name}: line {ln+1}: directive inside the routine: `{s}`")
            parts = s.split(None, 1)
            mn = parts[0]
            ops = self._split_operands(parts[1], name, ln) if len(parts) > 1 else []
            if mn == "_CET_ENDBR":
                if ops:
                    self.broken(f"{name}: line {ln+1}: `_CET_ENDBR` with operands")
                mn = "endbr64"
            stmts.append((mn, ops, ln))
        if end is None:
            self.broken(f"{name}: no named label (start of the next function) after the routine")
        if not stmts:
            self.broken(f"{name}: empty routine")
        if stmts[-1][0] not in ("jmp", "ret"):
            self.broken(f"{name}: the last instruction `{stmts[-1][0]}` is neither `jmp` nor `ret` (control would fall into the next function)")
        self.span(k0, stmts[-1][2])
        out = []
        n = len(stmts)
        for idx, (mn, ops, ln) in enumerate(stmts):
            where = f"{name}: line {ln+1} `{self.lines[ln].strip()}`"
            if mn not in SIGS:
                self.broken(f"{where}: unknown mnemonic `{mn}`")
            parsed = [self._operand2(o, where, idx, local, n) for o in ops]
            ok = False
            for sig in SIGS[mn]:
                if len(sig) == len(parsed) and all(self._fits2(p, sg, parsed) for p, sg in zip(parsed, sig)):
                    ok = True
                    break
            if not ok:
                self.broken(f"{where}: operand shapes {tuple(p[0] + ':' + str(p[2]) for p in parsed)} are not among the modelled forms of `{mn}`")
            if mn in ("shl", "shr") and parsed[0][2] == "b8":
                self.broken(f"{where}: 8-bit shift is not modelled")
            if mn == "mov" and parsed[1][0] == "i" and parsed[0][2] == "q64" and parsed[1][2] >= 2 ** 31:
                # `mov r64, imm32` sign-extends; a larger value would need the imm64 form, which is not modelled
                self.broken(f"{where}: immediate does not fit `mov r64, imm32` without sign extension")
            lean_ops = [p[1] for p in parsed]
            if mn == "blendvps":
                lean_ops = lean_ops[:2]      # the mask register xmm0 is implicit in the semantics (checked above: X0)
            out.append((MN_ALIAS.get(mn, mn), lean_ops, self.lines[ln].strip(), ln + 1))
        return out

    @staticmethod
    def _fits2(p, sig, parsed):
        kind, _, extra = p
        if sig == "x":
            return kind == "x"
        if sig == "X0":
            return kind == "x" and extra == 0
        if sig in ("mx", "mq", "md", "mb", "mu"):
            return kind == "m" and extra == sig[1]
        if sig == "r":
            return kind == "r"
        if sig == "rr":
            return kind == "r" and parsed[0][0] == "r" and extra == parsed[0][2]
        if sig in ("r8", "r32", "r64"):
            return kind == "r" and extra == {"r8": "b8", "r32": "d32", "r64": "q64"}[sig]
        if sig == "i8":
            return kind == "i" and extra < 256
        if sig == "i":
            if kind != "i" or parsed[0][0] != "r":
                return False
            w = parsed[0][2]
            if w == "b8":
                return extra < 2 ** 8
            if w == "d32":
                return extra < 2 ** 32
            return extra < 2 ** 31 or 2 ** 64 - 2 ** 31 <= extra < 2 ** 64      # sign-extended imm32
        if sig == "t":
            return kind == "t"
        return False

    def _operand2(self, o, where, idx, local, n):
        """-> (kind, Lean text, extra)"""
        m = re.fullmatch(r"xmm(\d+)", o)
        if m:
            r = int(m.group(1))
            if r > 15:
                self.broken(f"{where}: no register {o}")
            return ("x", f".xmm {r}", r)
        if o in S.REGS:
            r, w = S.REGS[o]
            return ("r", f".gpr {S.GPR64[r]} .{w}", w)
        if re.fullmatch(r"0[xX][0-9a-fA-F]+|[0-9]+", o):
            v = S.parse_int(o, self.art, where)
            if v >= 2 ** 64:
                self.broken(f"{where}: immediate `{o}` does not fit 64 bits")
            return ("i", f".imm {v}", v)
        m = re.fullmatch(r"(\d+)([bf])", o)
        if m:
            defs = local.get(m.group(1), [])
            if m.group(2) == "b":
                cands = [d for d in defs if d <= idx]
                tgt = max(cands) if cands else None
            else:
                cands = [d for d in defs if d > idx]
                tgt = min(cands) if cands else None
            if tgt is None or tgt >= n:
                self.broken(f"{where}: local label `{o}` does not resolve inside the routine")
            return ("t", f".target {tgt}", tgt)
        m = re.fullmatch(r"(?:(\w+)\s+ptr\s*)?\[([^\[\]]*)\]", o, flags=re.I)
        if m:
            size = (m.group(1) or "").lower()
            if size not in SIZES:
                self.broken(f"{where}: memory operand `{o}`: size `{size}` is not modelled")
            sz = SIZES[size]
            inner = m.group(2).replace(" ", "").replace("\t", "")
            if "*" in inner:
                self.broken(f"{where}: memory operand `{o}`: scaled index is not modelled")
            if not inner:
                self.broken(f"{where}: memory operand `{o}`")
            # split into signed terms
            terms = re.findall(r"([+-]?)([^+-]+)", inner)
            if "".join(sg + t for sg, t in terms) != inner:
                self.broken(f"{where}: memory operand `{o}`")
            regs, disp, labels = [], 0, []
            for sg, t in terms:
                if t in S.REGS or t == "rip":
                    if sg == "-":
                        self.broken(f"{where}: memory operand `{o}`: subtracted register")
                    regs.append(t)
                elif re.fullmatch(r"0[xX][0-9a-fA-F]+|[0-9]+", t):
                    v = S.parse_int(t, self.art, where)
                    disp += -v if sg == "-" else v
                elif re.fullmatch(r"[A-Za-z_.$][\w.$]*", t):
                    if sg == "-":
                        self.broken(f"{where}: memory operand `{o}`: subtracted label")
                    labels.append(t)
                else:
                    self.broken(f"{where}: memory operand `{o}`: term `{t}`")
            if not (-2 ** 31 <= disp < 2 ** 31):
                self.broken(f"{where}: displacement out of range")
            if "rip" in regs or labels:
                if regs != ["rip"] or len(labels) != 1 or disp != 0:
                    self.broken(f"{where}: memory operand `{o}`: expected [LABEL+rip]")
                lab = labels[0]
                if lab not in self.ro_labels:
                    self.broken(f"{where}: label {lab} is not defined in the .rodata section")
                off = self.ro_labels[lab]
                need = {"b": 1, "d": 4, "q": 8, "x": 16, "u": 0}[sz]
                if off + need > len(self.rodata):
                    self.broken(f"{where}: fewer than {need} bytes of .rodata after {lab}")
                self.used_labels.add(lab)
                return ("m", f".rip {SIZE_LEAN[sz]} {off}", sz)
            if not 1 <= len(regs) <= 2 or any(S.REGS[r][1] != "q64" for r in regs):
                self.broken(f"{where}: memory operand `{o}`: expected [reg64], [reg64+disp] or [reg64+reg64+disp]")
            if len(regs) == 2 and regs[1] == "rsp":
                self.broken(f"{where}: memory operand `{o}`: rsp cannot be an index register")
            idxr = f"(some {regs[1]})" if len(regs) == 2 else "none"
            d = f"({disp})" if disp < 0 else f"{disp}"
            return ("m", f".mem {SIZE_LEAN[sz]} {regs[0]} {idxr} {d}", sz)
        self.broken(f"{where}: operand `{o}` not understood")


def gen_many():
    rel = "c/blake3_sse41_x86-64_unix.S"
    f = ManyFile(ART, rel)
    f.used_labels = set()
    sym = "blake3_hash_many_sse41"
    ins = f.routine_to_next_label(sym)
    out = []
    out.append(f"""/- GENERATED by gen/ext_asm_many.py from {rel} -- do not edit.

The SSE4.1 assembly routine `{sym}` as DATA: one `Instr` per instruction of the source, in source
order, from the routine's label to the start of the next function (the comment on each line is the
source statement and its index; jump operands are instruction indices, the GNU-as local labels
`2: 3: 4: 9:` resolved by the translator; `_CET_ENDBR` -> `endbr64`; je/jne/jb/jae are spelled
jz/jnz/jc/jnc; the third operand `xmm0` of `blendvps` is implicit), and the `.rodata` section of
the file as a byte list with the offsets of its labels.  `.p2align` padding lines inside the routine
produce no instruction (NOP padding); nothing else is dropped.  The meaning of the instructions is
given by `B3/Asm/ManySem.lean` (`exec`, `step`, `run`); nothing here is executable by itself. -/
import B3.Asm.ManySem
namespace B3.Gen.AsmSse41Many
open B3 B3.Simd B3.AsmSem.Many
open B3.AsmSem (rax rcx rdx rbx rsp rbp rsi rdi r8 r9 r10 r11 r12 r13 r14 r15)

/-- alignment of the start of the `.rodata` section (its first directive) -/
def rodataAlign : Nat := {f.ro_align}

/-- the `.rodata` section, from its alignment directive to the end of the file ({len(f.rodata)} bytes) -/
def rodata : List UInt8 := {S.lean_bytes(f.rodata, f.ro_marks, f.ro_labels)}
""")
    out.append("/-! offsets of the labels of the section -/")
    for name in f.ro_label_order:
        out.append(f"def off_{name} : Nat := {f.ro_labels[name]}")
    out.append("")
    out.append("/-- the 16 bytes at offset `o` of the section as four little-endian doublewords -/")
    out.append("def tableAt (o : Nat) : V4 :=")
    out.append("  #v[le32 (rodata.getD o 0) (rodata.getD (o + 1) 0) (rodata.getD (o + 2) 0) (rodata.getD (o + 3) 0),")
    out.append("     le32 (rodata.getD (o + 4) 0) (rodata.getD (o + 5) 0) (rodata.getD (o + 6) 0) (rodata.getD (o + 7) 0),")
    out.append("     le32 (rodata.getD (o + 8) 0) (rodata.getD (o + 9) 0) (rodata.getD (o + 10) 0) (rodata.getD (o + 11) 0),")
    out.append("     le32 (rodata.getD (o + 12) 0) (rodata.getD (o + 13) 0) (rodata.getD (o + 14) 0) (rodata.getD (o + 15) 0)]")
    out.append("")
    out.append("/-! the 16-byte tables the routine reads (`[LABEL+rip]`), as lanes -/")
    for name in f.ro_label_order:
        if name not in f.used_labels:
            continue
        off = f.ro_labels[name]
        words = [int.from_bytes(bytes(f.rodata[off + 4 * i: off + 4 * i + 4]), "little") for i in range(4)]
        out.append(f"def {name} : V4 := #v[" + ", ".join(f"0x{w:08X}" for w in words) + "]")
        out.append(f"example : tableAt off_{name} = {name} := by decide")
    out.append("")
    out.append(f"/-- `{sym}` ({len(ins)} instructions, {rel} lines {ins[0][3]}-{ins[-1][3]}) -/")
    out.append("def hash_many : List Instr := [")
    rows = []
    for idx, (mn, ops, text, ln) in enumerate(ins):
        rows.append((f"  I .{mn} [{', '.join(ops)}]", f"-- {idx:4d}: {text}"))
    width = min(max(len(r[0]) for r in rows) + 1, 64)
    for idx, (a, b) in enumerate(rows):
        sep = "," if idx + 1 < len(rows) else ""
        out.append((a + sep).ljust(width + 1) + b)
    out.append("]")
    out.append("")
    out.append("end B3.Gen.AsmSse41Many")
    return "\n".join(out) + "\n"


ARTEFACTS = [("AsmSse41Many.lean", ART, gen_many)]
