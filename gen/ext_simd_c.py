"""
G18-c-sse41 / G19-c-sse2 / G20-c-avx2: the C intrinsics kernels c/blake3_sse41.c, c/blake3_sse2.c, c/blake3_avx2.c
translated statement by statement into Lean over the lane model B3/Simd/Prim.lean + PrimC.lean (+ Prim256C.lean):

    lean/B3/Gen/CSse41.lean   lean/B3/Gen/CSse2.lean   lean/B3/Gen/CAvx2.lean

Everything comes from the source text: shift counts, shuffle immediates and byte-shuffle tables, the order of the
g1/g2 calls, load/store offsets, loop bounds and conditions, counter increments.  Anything the translator does not
understand raises TranslationBroken(<artefact>, "<function>: <what>").

Modelling conventions (also written into the header of the generated files):
  __m128i / __m256i            -> V4 / V8 (32-bit lanes, lane 0 = bits 31:0)
  uint8_t/uint16_t/uint32_t/uint64_t -> UInt8/UInt16/UInt32/UInt64 (C unsigned arithmetic = wrapping);
  int32_t / int16_t / char     -> the bit pattern (UInt32 / UInt16 / UInt8); `(int32_t)b` of a bool is 0 or 1 and its
                                  negation 0 or 0xFFFFFFFF
  size_t                       -> Nat; `+` and `*` do not wrap (bounded by the size of real memory), `-` is
                                  Arith.w64sub (wraps modulo 2^64 as in C)
  T *p (pointer to one object) -> the function takes the object and returns the updated object
  T a[N] parameters            -> Vector; `const` or never written: input only; otherwise taken and returned
  const uint32_t cv[8], const uint8_t block[64], uint8_t out[64] -> Vector UInt32 n (little-endian words; loads and
                                  stores at constant offsets that are multiples of 4, anything else is refused)
  const uint8_t *p             -> Mem (byte addressed, offset 0 = the pointer), `&p[k]` = Mem.add p k
  const uint8_t *const *inputs -> PtrArr (Nat -> Mem), `inputs + k` = PtrArr.add
  uint8_t *out                 -> BytePtr (memory + offset); stores change the memory, `&out[k]` the offset
  uninitialised locals         -> `uninit` (opaque) when their address / the array is handed to a callee
  for (size_t i = 0; i < n; i++) -> List.foldl over List.range n carrying the variables the body assigns
  while (x > c) / (x >= c)     -> Simd.whileFuel with fuel x + 1 (the theorems prove the bound suffices)
  _mm_prefetch loop            -> no architectural effect: dropped (recognised explicitly)
  #if !defined(BLAKE3_NO_SSE41) -> the default build: the macro is not defined
"""
import os
import re
import sys

import extract as X

sys.path.insert(0, os.path.dirname(os.path.abspath(__file__)))
from extract_simd import atom, proj, expr_vars, split_top   # noqa: E402  (pure helpers)

TranslationBroken = X.TranslationBroken


class Ctx:
    art = "G18-c-sse41"


def broken(fn, why):
    raise TranslationBroken(Ctx.art, f"{fn}: {why}")


# ------------------------------------------------------------------------------------------------
# tokens and expressions

TOK = re.compile(r"""\s*(?:
    (?P<num>0[xX][0-9a-fA-F]+|\d+)(?P<suf>[uUlL]*)
  | (?P<id>[A-Za-z_]\w*)
  | (?P<op>\+\+|--|<<=|>>=|<<|>>|<=|>=|==|!=|&&|\|\||[-+*/%&|^]=|[-+*/%&|^~!<>=?:;,.(){}\[\]])
)""", re.X)

TYPE_WORDS = {"const", "uint8_t", "uint16_t", "uint32_t", "uint64_t", "int32_t", "int16_t", "int8_t", "size_t", "bool",
              "void", "char", "int", "unsigned", "__m128i", "__m256i"}
SIZEOF = {"__m128i": 16, "__m256i": 32, "uint8_t": 1, "uint32_t": 4, "uint64_t": 8}


def tokenize(s):
    out, i = [], 0
    s = s.rstrip()
    while i < len(s):
        m = TOK.match(s, i)
        if not m or m.end() == i:
            if s[i:].strip() == "":
                break
            raise ValueError(f"cannot tokenize at {s[i:i + 30]!r}")
        i = m.end()
        if m.group("num") is not None:
            out.append(("num", int(m.group("num"), 0)))
        elif m.group("id") is not None:
            out.append(("id", m.group("id")))
        else:
            out.append(("op", m.group("op")))
    return out


BINP = {"||": 1, "&&": 2, "|": 3, "^": 4, "&": 5, "==": 6, "!=": 6, "<": 7, ">": 7, "<=": 7, ">=": 7,
        "<<": 8, ">>": 8, "+": 9, "-": 9, "*": 10, "/": 10, "%": 10}


class CP:
    """Pratt parser for the C expression subset; the AST is the one of gen/extract_simd.py:
    num var ref deref neg not bnot bin cast index call array paren"""

    def __init__(self, toks):
        self.t, self.i = toks, 0

    def peek(self, k=0):
        return self.t[self.i + k] if self.i + k < len(self.t) else ("eof", None)

    def next(self):
        x = self.peek()
        self.i += 1
        return x

    def at(self, op):
        return self.peek() == ("op", op)

    def expect(self, op):
        x = self.next()
        if x != ("op", op):
            raise ValueError(f"expected {op!r}, got {x[1]!r}")

    def args(self, close):
        a = []
        while not self.at(close):
            a.append(self.expr())
            if self.at(","):
                self.next()
            elif not self.at(close):
                raise ValueError(f"expected ',' or {close!r}, got {self.peek()[1]!r}")
        self.expect(close)
        return a

    def type_text(self):
        """after '(' when a type starts: words and '*'s up to ')'"""
        parts = []
        while not self.at(")"):
            k, v = self.next()
            if k == "id" and v in TYPE_WORDS:
                parts.append(v)
            elif (k, v) == ("op", "*"):
                parts.append("*")
            else:
                raise ValueError(f"unexpected {v!r} in a type")
        self.expect(")")
        return " ".join(parts)

    def primary(self):
        k, v = self.next()
        if k == "num":
            return ("num", v)
        if k == "id":
            if v == "sizeof":
                self.expect("(")
                ty = self.type_text()
                if ty not in SIZEOF:
                    raise ValueError(f"sizeof({ty})")
                return ("num", SIZEOF[ty])
            if v in ("true", "false"):
                return ("boollit", v == "true")
            if self.at("("):
                self.next()
                return ("call", v, self.args(")"))
            return ("var", v)
        if (k, v) == ("op", "("):
            p = self.peek()
            if p[0] == "id" and p[1] in TYPE_WORDS:
                ty = self.type_text()
                return ("cast", self.unary(), ty)
            e = self.expr()
            self.expect(")")
            return ("paren", e)
        if (k, v) == ("op", "{"):
            return ("array", self.args("}"))
        raise ValueError(f"unexpected token {v!r}")

    def unary(self):
        for op, tag in (("&", "ref"), ("*", "deref"), ("-", "neg"), ("!", "not"), ("~", "bnot")):
            if self.at(op):
                self.next()
                return (tag, self.unary())
        return self.postfix()

    def postfix(self):
        e = self.primary()
        while True:
            if self.at("["):
                self.next()
                idx = self.expr()
                self.expect("]")
                e = ("index", e, idx)
            else:
                return e

    def expr(self, minp=0):
        lhs = self.unary()
        while True:
            k, v = self.peek()
            if k == "op" and v in BINP and BINP[v] >= minp:
                self.next()
                rhs = self.expr(BINP[v] + 1)
                lhs = ("bin", v, lhs, rhs)
            else:
                return lhs


def parse_toks(toks):
    p = CP(toks)
    e = p.expr()
    if p.peek()[0] != "eof":
        raise ValueError(f"trailing tokens after expression: {p.peek()[1]!r}")
    return e


def parse_expr(s):
    return parse_toks(tokenize(s))


# ------------------------------------------------------------------------------------------------
# source access: preprocessing, macros, functions


class CSource:
    def __init__(self, repo, rel):
        self.repo, self.rel = repo, rel
        path = os.path.join(repo, rel)
        try:
            with open(path, encoding="utf-8") as f:
                raw = f.read()
        except OSError as ex:
            raise TranslationBroken(Ctx.art, f"cannot read {path}: {ex}")
        self.consts, self.fmacros = {}, {}
        for hdr, names in (("c/blake3.h", ("BLAKE3_KEY_LEN", "BLAKE3_OUT_LEN", "BLAKE3_BLOCK_LEN")),):
            with open(os.path.join(repo, hdr), encoding="utf-8") as f:
                h = f.read()
            for n in names:
                m = re.search(rf"^\s*#\s*define\s+{n}\s+(\d+)\s*$", h, re.M)
                if not m:
                    raise TranslationBroken(Ctx.art, f"constant {n} not found in {hdr}")
                self.consts[n] = int(m.group(1))
        with open(os.path.join(repo, "c/blake3_impl.h"), encoding="utf-8") as f:
            impl = f.read()
        m = re.search(r"MSG_SCHEDULE\s*\[\s*(\d+)\s*\]\s*\[\s*(\d+)\s*\]", impl)
        if not m:
            raise TranslationBroken(Ctx.art, "MSG_SCHEDULE declaration not found in c/blake3_impl.h")
        self.nsched = int(m.group(1))
        self.text = self.preprocess(raw)

    def preprocess(self, raw):
        """conditionals (nothing is defined on the command line), #define; directive lines become blank lines"""
        raw = re.sub(r"\\\n", "  ", raw)
        out, stack = [], []
        for line in raw.split("\n"):
            s = line.strip()
            if not s.startswith("#"):
                out.append(line if all(stack) else " " * len(line))     # (lengths are kept: positions = positions in the file)
                continue
            out.append(" " * len(line))
            d = re.sub(r"^#\s*", "", X.strip_comments(s)).strip()
            m = re.match(r"^if\s+(!?)\s*defined\s*\(\s*(\w+)\s*\)$", d)
            if m:
                stack.append((m.group(2) in self.consts or m.group(2) in self.fmacros) != bool(m.group(1)))
            elif re.match(r"^ifdef\s+(\w+)$", d):
                n = d.split()[1]
                stack.append(n in self.consts or n in self.fmacros)
            elif re.match(r"^ifndef\s+(\w+)$", d):
                n = d.split()[1]
                stack.append(not (n in self.consts or n in self.fmacros))
            elif d == "else":
                if not stack:
                    raise TranslationBroken(Ctx.art, "#else without #if")
                stack[-1] = not stack[-1]
            elif d == "endif":
                if not stack:
                    raise TranslationBroken(Ctx.art, "#endif without #if")
                stack.pop()
            elif not all(stack):
                continue
            elif d.startswith("include"):
                continue
            elif d.startswith("define"):
                m = re.match(r"^define\s+(\w+)\(([^)]*)\)\s*(.*)$", d)
                if m:
                    self.fmacros[m.group(1)] = ([p.strip() for p in m.group(2).split(",") if p.strip()], m.group(3).strip())
                    continue
                m = re.match(r"^define\s+(\w+)\s+(.+)$", d)
                if not m:
                    raise TranslationBroken(Ctx.art, f"unsupported directive {s!r}")
                try:
                    v = const_value(parse_expr(m.group(2)), self.consts)
                except Exception:
                    v = None
                if v is None:
                    raise TranslationBroken(Ctx.art, f"#define {m.group(1)}: not an integer constant")
                self.consts[m.group(1)] = v
            else:
                raise TranslationBroken(Ctx.art, f"unsupported directive {s!r}")
        if stack:
            raise TranslationBroken(Ctx.art, "unterminated #if")
        return "\n".join(out)

    def find_fn(self, name, want_body=True):
        """-> (return type text, [parameter texts], raw body with comments | None for a prototype)"""
        for m in re.finditer(rf"\b{name}\s*\(", self.text):
            p0 = self.text.index("(", m.start())
            p1 = X.match_brace(self.text, p0, "(", ")")
            rest = self.text[p1:]
            k = len(rest) - len(rest.lstrip())
            nxt = rest[k:k + 1]
            if (nxt == "{") != want_body or (not want_body and nxt != ";"):
                continue
            j = m.start()
            while j > 0 and self.text[j - 1] not in ";}":
                j -= 1
            head = X.strip_comments(self.text[j:m.start()])
            words = [w for w in head.split() if w not in ("INLINE", "static", "inline")]
            ret = " ".join(words)
            if not ret or any(w not in TYPE_WORDS for w in words):
                continue      # a call, not a definition
            params = [" ".join(p.split()) for p in split_top(X.strip_comments(self.text[p0 + 1:p1 - 1]), ",") if p.strip()]
            if not want_body:
                return ret, params, None
            b0 = p1 + k
            b1 = X.match_brace(self.text, b0)
            X.record_span(Ctx.art, self.rel, j, b1)
            return ret, params, self.text[b0 + 1:b1 - 1]
        broken(name, f"function {'definition' if want_body else 'prototype'} not found in {self.rel}")

    def expand_macros(self, fn, text):
        """textual expansion of the file's own function-like macros"""
        for _ in range(10000):
            best = None
            for name in self.fmacros:
                for m in re.finditer(rf"\b{name}\s*\(", text):
                    if best is None or m.start() > best[1].start():
                        best = (name, m)
            if best is None:
                return text
            name, m = best
            p0 = text.index("(", m.start())
            p1 = X.match_brace(text, p0, "(", ")")
            args = [a.strip() for a in split_top(text[p0 + 1:p1 - 1], ",") if a.strip()]
            params, body = self.fmacros[name]
            if len(args) != len(params):
                broken(fn, f"macro {name} used with {len(args)} arguments")
            exp = body
            for p, a in zip(params, args):
                exp = re.sub(rf"\b{p}\b", lambda _m, a=a: "(" + a + ")", exp)
            text = text[:m.start()] + "(" + exp + ")" + text[p1:]
        broken(fn, "macro expansion does not terminate")


PY_BIN = {"|": lambda a, b: a | b, "^": lambda a, b: a ^ b, "&": lambda a, b: a & b, "<<": lambda a, b: a << b,
          ">>": lambda a, b: a >> b, "+": lambda a, b: a + b, "-": lambda a, b: a - b, "*": lambda a, b: a * b,
          "/": lambda a, b: a // b, "%": lambda a, b: a % b}


def const_value(e, consts):
    if e[0] == "num":
        return e[1]
    if e[0] == "var" and e[1] in consts:
        return consts[e[1]]
    if e[0] == "paren":
        return const_value(e[1], consts)
    if e[0] == "bin" and e[1] in PY_BIN:
        a, b = const_value(e[2], consts), const_value(e[3], consts)
        if a is None or b is None or (e[1] in "/%" and b == 0):
            return None
        v = PY_BIN[e[1]](a, b)
        return v if v >= 0 else None
    return None


# ------------------------------------------------------------------------------------------------
# statements -> IR
#   ("decl", name, ctype) ("let", name, ctype, e) ("assign", lhs, op, rhs) ("expr", e) ("marker", k)
#   ("for", var, lo, hi, body) ("while", cond, body) ("if", cond, body) ("return", e)
# ctype = (base word, pointer depth text, array length expr | None, const?)


def split_block(fn, text):
    """-> list of ("simple", text) | ("for"/"while"/"if", header, body text)"""
    items, i, n = [], 0, len(text)
    while True:
        while i < n and text[i].isspace():
            i += 1
        if i >= n:
            return items
        m = re.match(r"(for|while|if)\b", text[i:])
        if m:
            p0 = text.find("(", i)
            if p0 < 0 or text[i + len(m.group(1)):p0].strip():
                broken(fn, f"no '(' after {m.group(1)}")
            p1 = X.match_brace(text, p0, "(", ")")
            rest = text[p1:]
            k = len(rest) - len(rest.lstrip())
            if rest[k:k + 1] != "{":
                broken(fn, f"{m.group(1)} without a braced body")
            b1 = X.match_brace(text, p1 + k)
            if re.match(r"\s*else\b", text[b1:]):
                broken(fn, "if/else is not supported")
            items.append((m.group(1), text[p0 + 1:p1 - 1].strip(), text[p1 + k + 1:b1 - 1]))
            i = b1
            continue
        if text[i] == "{":
            broken(fn, "nested block")
        j, depth = i, 0
        while j < n and not (text[j] == ";" and depth == 0):
            depth += text[j] in "([{"
            depth -= text[j] in ")]}"
            j += 1
        if j >= n:
            broken(fn, f"statement without ';': {text[i:i + 40]!r}")
        items.append(("simple", text[i:j].strip()))
        i = j + 1


ASSIGN_OPS = {"=": "", "|=": "|", "+=": "+", "^=": "^", "&=": "&", "-=": "-"}


def top_level_index(toks, pred):
    depth = 0
    for k, t in enumerate(toks):
        if t[0] == "op" and t[1] in "([{":
            depth += 1
        elif t[0] == "op" and t[1] in ")]}":
            depth -= 1
        elif depth == 0 and pred(t):
            return k
    return None


def split_toks(toks, sep):
    out, cur, depth = [], [], 0
    for t in toks:
        if t[0] == "op" and t[1] in "([{":
            depth += 1
        elif t[0] == "op" and t[1] in ")]}":
            depth -= 1
        if depth == 0 and t == ("op", sep):
            out.append(cur)
            cur = []
        else:
            cur.append(t)
    out.append(cur)
    return out


def parse_decl_toks(fn, toks):
    """declaration tokens (without ';') -> [(name, ctype, init expr | None)]"""
    const = False
    i = 0
    words = []
    while i < len(toks) and toks[i][0] == "id" and toks[i][1] in TYPE_WORDS:
        if toks[i][1] == "const":
            const = True
        else:
            words.append(toks[i][1])
        i += 1
    if len(words) != 1:
        raise ValueError(f"unsupported type {' '.join(words)!r}")
    out = []
    for d in split_toks(toks[i:], ","):
        eq = top_level_index(d, lambda t: t == ("op", "="))
        lhs, init = (d, None) if eq is None else (d[:eq], parse_toks(d[eq + 1:]))
        ptr = ""
        while lhs and lhs[0] == ("op", "*"):
            ptr += "*"
            lhs = lhs[1:]
            if lhs and lhs[0] == ("id", "const"):
                ptr += "c"
                lhs = lhs[1:]
        if not lhs or lhs[0][0] != "id":
            raise ValueError("unsupported declarator")
        name, dim = lhs[0][1], None
        if len(lhs) > 1:
            if lhs[1] != ("op", "[") or lhs[-1] != ("op", "]"):
                raise ValueError("unsupported declarator")
            dim = parse_toks(lhs[2:-1])
        out.append((name, (words[0], ptr, dim, const), init))
    return out


def parse_simple(fn, s):
    try:
        toks = tokenize(s)
        if not toks:
            return []
        if toks[0][0] == "id" and toks[0][1] in TYPE_WORDS:
            return [("decl", n, ct) if init is None else ("let", n, ct, init) for n, ct, init in parse_decl_toks(fn, toks)]
        if toks[0] == ("id", "return"):
            return [("return", parse_toks(toks[1:]))]
        k = top_level_index(toks, lambda t: t[0] == "op" and t[1] in ASSIGN_OPS)
        if k is not None:
            return [("assign", parse_toks(toks[:k]), ASSIGN_OPS[toks[k][1]], parse_toks(toks[k + 1:]))]
        e = parse_toks(toks)
        if e[0] == "call" and e[1] == "__segment__":
            return [("marker", e[2][0][1])]
        return [("expr", e)]
    except TranslationBroken:
        raise
    except Exception as ex:
        broken(fn, f"statement {s!r}: {ex}")


def parse_for_header(fn, head):
    parts = [p.strip() for p in split_top(head, ";")]
    if len(parts) != 3:
        broken(fn, f"for header {head!r}")
    m = re.match(r"^size_t\s+(\w+)\s*=\s*(.+)$", parts[0])
    if not m:
        broken(fn, f"for initialiser {parts[0]!r}: expected `size_t i = e`")
    var = m.group(1)
    m2 = re.match(rf"^{var}\s*<\s*(.+)$", parts[1])
    if not m2:
        broken(fn, f"for condition {parts[1]!r}: expected `{var} < e`")
    if re.sub(r"\s+", "", parts[2]) not in (f"{var}++", f"++{var}", f"{var}+=1"):
        broken(fn, f"for step {parts[2]!r}: expected `{var}++`")
    try:
        return var, parse_expr(m.group(2)), parse_expr(m2.group(1))
    except Exception as ex:
        broken(fn, f"for header {head!r}: {ex}")


def parse_body(fn, text):
    out = []
    for it in split_block(fn, text):
        if it[0] == "simple":
            out.extend(parse_simple(fn, it[1]))
            continue
        kind, head, body = it
        inner = parse_body(fn, body)
        if any(s[0] == "return" for s in inner):
            broken(fn, f"return inside a {kind} block")
        try:
            if kind == "for":
                var, lo, hi = parse_for_header(fn, head)
                out.append(("for", var, lo, hi, inner))
            elif kind == "while":
                out.append(("while", parse_expr(head), inner))
            else:
                out.append(("if", parse_expr(head), inner))
        except TranslationBroken:
            raise
        except Exception as ex:
            broken(fn, f"{kind} ({head}): {ex}")
    return out


def prepare_body(src, fn, raw, segment_markers=False):
    """-> (statements, tail expression of a final `return e;` or None)"""
    if segment_markers == "blank":
        cnt = [1]

        def mark(m):
            cnt[0] += 1
            return f";\n__segment__({cnt[0]});\n"
        raw = re.sub(r";[ \t]*\n(?:[ \t]*\n)+", mark, raw)
    elif segment_markers:
        raw = re.sub(r"//[ \t]*Round[ \t]+(\d+)\b[^\n]*", r"__segment__(\1);", raw)
    text = src.expand_macros(fn, X.strip_comments(raw))
    stmts = parse_body(fn, text)
    tail = None
    if stmts and stmts[-1][0] == "return":
        tail = stmts[-1][1]
        stmts = stmts[:-1]
    if any(s[0] == "return" for s in stmts):
        broken(fn, "return that is not the last statement")
    return stmts, tail


# ------------------------------------------------------------------------------------------------
# types
#   "V4" "V8" "u8" "u16" "u32" "u64" "usize" "bool" "prop" "lit" "mem" "ptrs" "outptr"
#   ("fin", n)  ("words", n, eb)  ("vec", elem, n)
#   ("ptr", kind, base, offset, x): a pointer value inside an expression
#        kind "words": into the word array variable `base`, byte offset (int), x = element size
#        kind "vecarr": &base[offset] for a Vector variable (offset int), x = element type
#        kind "mem" / "out": into the Mem / BytePtr `base` (lean text), byte offset (int or lean text)
#        kind "scalar": &base for a local scalar

SCALARS = {"V4": "V4", "V8": "V8", "u8": "UInt8", "u16": "UInt16", "u32": "UInt32", "u64": "UInt64", "usize": "Nat",
           "bool": "Bool", "mem": "Mem", "ptrs": "PtrArr", "outptr": "BytePtr"}
BASE = {"__m128i": "V4", "__m256i": "V8", "uint8_t": "u8", "uint16_t": "u16", "int16_t": "u16", "uint32_t": "u32",
        "int32_t": "u32", "uint64_t": "u64", "size_t": "usize", "bool": "bool"}
LIMIT = {"u8": 2 ** 8, "u16": 2 ** 16, "u32": 2 ** 32, "u64": 2 ** 64, "usize": 2 ** 64}


def lean_ty(fn, t):
    if t in SCALARS:
        return SCALARS[t]
    if isinstance(t, tuple):
        if t[0] == "fin":
            return f"Fin {t[1]}"
        if t[0] == "words":
            return {8: "CV", 16: "St"}.get(t[1], f"Vector UInt32 {t[1]}")
        if t[0] == "vec":
            inner = lean_ty(fn, t[1])
            return f"Vector {inner if ' ' not in inner else '(' + inner + ')'} {t[2]}"
    broken(fn, f"no Lean type for {t!r}")


def tuple_ty(fn, tys):
    return " × ".join(lean_ty(fn, t) for t in tys)


# name: (argument kinds, result).  v/w = V4/V8, i = immediate, s = 32-bit scalar, h = 16-bit scalar, b = byte constant
INTRINSICS = {
    "_mm_add_epi32": ("vv", "V4"), "_mm_sub_epi32": ("vv", "V4"), "_mm_xor_si128": ("vv", "V4"),
    "_mm_or_si128": ("vv", "V4"), "_mm_and_si128": ("vv", "V4"), "_mm_andnot_si128": ("vv", "V4"),
    "_mm_cmpgt_epi32": ("vv", "V4"), "_mm_cmpeq_epi16": ("vv", "V4"),
    "_mm_srli_epi32": ("vi", "V4"), "_mm_slli_epi32": ("vi", "V4"),
    "_mm_set1_epi32": ("s", "V4"), "_mm_setr_epi32": ("ssss", "V4"), "_mm_set_epi32": ("ssss", "V4"),
    "_mm_set_epi8": ("b" * 16, "V4"), "_mm_set_epi16": ("h" * 8, "V4"), "_mm_set1_epi16": ("h", "V4"),
    "_mm_shuffle_epi8": ("vv", "V4"), "_mm_shufflelo_epi16": ("vi", "V4"), "_mm_shufflehi_epi16": ("vi", "V4"),
    "_mm_shuffle_epi32": ("vi", "V4"), "_mm_shuffle_ps": ("vvi", "V4"), "_mm_blend_epi16": ("vvi", "V4"),
    "_mm_castps_si128": ("v", "V4"), "_mm_castsi128_ps": ("v", "V4"),
    "_mm_unpacklo_epi32": ("vv", "V4"), "_mm_unpackhi_epi32": ("vv", "V4"),
    "_mm_unpacklo_epi64": ("vv", "V4"), "_mm_unpackhi_epi64": ("vv", "V4"),
    "_mm256_add_epi32": ("ww", "V8"), "_mm256_sub_epi32": ("ww", "V8"), "_mm256_xor_si256": ("ww", "V8"),
    "_mm256_or_si256": ("ww", "V8"), "_mm256_and_si256": ("ww", "V8"), "_mm256_cmpgt_epi32": ("ww", "V8"),
    "_mm256_srli_epi32": ("wi", "V8"), "_mm256_slli_epi32": ("wi", "V8"),
    "_mm256_set1_epi32": ("s", "V8"), "_mm256_set_epi32": ("s" * 8, "V8"), "_mm256_set_epi8": ("b" * 32, "V8"),
    "_mm256_shuffle_epi8": ("ww", "V8"),
    "_mm256_unpacklo_epi32": ("ww", "V8"), "_mm256_unpackhi_epi32": ("ww", "V8"),
    "_mm256_unpacklo_epi64": ("ww", "V8"), "_mm256_unpackhi_epi64": ("ww", "V8"),
    "_mm256_permute2x128_si256": ("wwi", "V8"),
}

LEAN_BIN = {"|": "|||", "^": "^^^", "&": "&&&", "<<": "<<<", ">>": ">>>", "+": "+", "-": "-", "*": "*", "/": "/",
            "%": "%", "==": "=", "!=": "≠", "<": "<", ">": ">", "<=": "≤", ">=": "≥", "&&": "∧", "||": "∨"}


class Sig:
    def __init__(self, name, params, ret, inout, lean_name=None):
        # params: [(name, type)]; inout: indices of the parameters that are returned (after the result, if any)
        self.name, self.params, self.ret, self.inout = name, params, ret, inout
        self.lean_name = lean_name or name


def is_ptr(t, kind=None):
    return isinstance(t, tuple) and t[0] == "ptr" and (kind is None or t[1] == kind)


# ------------------------------------------------------------------------------------------------
# one function


class CFn:
    def __init__(self, gen, name):
        self.gen, self.fn = gen, name
        self.env = {}        # variable -> type | ("uninit", type)
        self.order = []
        self.lines = []
        self.ntmp = 0
        self.nloop = 0
        self.pscalars = set()   # parameters declared `T *p` (pointer to one object)
        self.pending = []

    # -------- helpers
    def bad(self, why):
        broken(self.fn, why)

    def fresh(self, stem):
        while True:
            self.ntmp += 1
            n = f"{stem}{self.ntmp}"
            if n not in self.env:
                return n

    def declare(self, name, ty):
        if name not in self.env:
            self.order.append(name)
        self.env[name] = ty

    def out(self, line):
        self.lines.append(line)

    def vtype(self, name):
        t = self.env.get(name)
        if isinstance(t, tuple) and t and t[0] == "uninit":
            return t[1]
        return t

    def is_uninit(self, name):
        t = self.env.get(name)
        return isinstance(t, tuple) and bool(t) and t[0] == "uninit"

    def mat(self, name):
        """an uninitialised local whose storage is handed out / partly assigned gets the arbitrary value `uninit`"""
        if self.is_uninit(name):
            ty = self.env[name][1]
            self.out(f"let {name} : {lean_ty(self.fn, ty)} := uninit")
            self.env[name] = ty

    def const(self, e, what):
        s, ty, val = self.emit(e)
        if val is None:
            self.bad(f"{what} is not a compile-time constant: {s}")
        return val

    def ctype(self, ct, what):
        """declared C type -> (type descriptor, "val" | "cand" (may be written through))"""
        base, ptr, dim, const = ct
        if ptr == "" and dim is None:
            if base not in BASE:
                self.bad(f"{what}: unsupported type {base}")
            return BASE[base], "val"
        if ptr == "" and dim is not None:
            n = self.const(dim, f"array length of {what}")
            mode = "val" if const else "cand"
            if base in ("__m128i", "__m256i"):
                return ("vec", BASE[base], n), mode
            if base == "uint32_t":
                return ("words", n, 4), mode
            if base == "uint8_t":
                if n % 4:
                    self.bad(f"{what}: byte array of {n} bytes is not a whole number of words")
                return ("words", n // 4, 1), mode
            self.bad(f"{what}: unsupported array element type {base}")
        if dim is not None:
            self.bad(f"{what}: array of pointers")
        if ptr == "*" and base in ("__m128i", "__m256i") and not const:
            return ("pscalar", BASE[base]), "cand"
        if ptr == "*" and base == "uint8_t":
            return ("mem", "val") if const else ("outptr", "cand")
        if ptr == "*c*" and base == "uint8_t" and const:
            return "ptrs", "val"
        self.bad(f"{what}: unsupported pointer type {'const ' if const else ''}{base} {ptr}")

    def coerce(self, s, ty, val, target, what):
        if ty == target:
            return s
        if ty == "lit":
            if target in LIMIT:
                if val is not None and val >= LIMIT[target]:
                    self.bad(f"{what}: constant {val} does not fit {target}")
                return s
            if isinstance(target, tuple) and target[0] == "fin":
                if val is None or val >= target[1]:
                    self.bad(f"{what}: must be a constant below {target[1]}")
                return s
            self.bad(f"{what}: integer constant where {target!r} is expected")
        conv = {("u8", "u32"): ".toUInt32", ("u16", "u32"): ".toUInt32", ("u8", "u64"): ".toUInt64",
                ("u32", "u64"): ".toUInt64", ("u8", "u16"): ".toUInt16"}
        if (ty, target) in conv:
            return atom(s) + conv[(ty, target)]
        self.bad(f"{what}: no implicit conversion from {ty!r} to {target!r}")

    # -------- expressions: -> (lean text, type, constant value or None)
    def emit(self, e):
        k = e[0]
        if k == "num":
            return str(e[1]), "lit", e[1]
        if k == "boollit":
            return ("true" if e[1] else "false"), "bool", None
        if k == "var":
            return self.emit_var(e[1])
        if k == "paren":
            s, ty, val = self.emit(e[1])
            return (s if is_ptr(ty) else atom(s)), ty, val
        if k == "neg":
            x = e[1]
            if x[0] == "cast" and x[2] == "int32_t":
                s, ty, _ = self.emit(x[1])
                if ty == "bool":
                    # (int32_t)b is 0 or 1; its negation (no overflow) is 0 or -1 = 0xFFFFFFFF
                    return f"(0 - (if {s} then 1 else 0))", "u32", None
            self.bad("unary minus on something other than `(int32_t)<bool>`")
        if k == "bnot":
            s, ty, _ = self.emit(e[1])
            if ty not in ("u8", "u16", "u32", "u64"):
                self.bad(f"~ at type {ty!r}")
            return f"(~~~ {atom(s)})", ty, None
        if k == "not":
            self.bad("logical not")
        if k == "deref":
            if e[1][0] == "var" and e[1][1] in self.pscalars:
                return self.emit_var(e[1][1], deref=True)
            self.bad(f"unsupported dereference {e[1]!r}")
        if k == "ref":
            return self.emit_ref(e[1])
        if k == "bin":
            return self.emit_bin(e)
        if k == "index":
            return self.emit_index(e)
        if k == "cast":
            return self.emit_cast(e)
        if k == "call":
            return self.emit_call(e)
        if k == "array":
            self.bad("initialiser list outside an array declaration")
        self.bad(f"unsupported expression {e!r}")

    def emit_var(self, name, deref=False):
        if name in self.env:
            if self.is_uninit(name):
                self.bad(f"variable {name} is read before it is assigned")
            if name in self.pscalars and not deref:
                self.bad(f"pointer parameter {name} used without dereference")
            return name, self.env[name], None
        c = self.gen.src.consts
        if name in c:
            return str(c[name]), "lit", c[name]
        if name == "IV":
            return "IV", ("words", 8, 4), None
        if name == "MSG_SCHEDULE":
            return "MSG_SCHEDULE", ("vec", ("vec", ("fin", 16), 16), self.gen.src.nsched), None
        self.bad(f"unknown identifier {name}")

    def unify(self, a, av, b, bv, what):
        if a == "lit" and b == "lit":
            return "lit"
        if a == "lit":
            self.coerce("", a, av, b, what)
            return b
        if b == "lit":
            self.coerce("", b, bv, a, what)
            return a
        if a != b:
            self.bad(f"{what}: operands of different types {a!r} and {b!r}")
        return a

    def emit_bin(self, e):
        op = e[1]
        a, aty, av = self.emit(e[2])
        b, bty, bv = self.emit(e[3])
        if op in ("&&", "||"):
            if aty not in ("prop", "bool") or bty not in ("prop", "bool"):
                self.bad(f"operator {op} on non-boolean operands")
            return f"({a} {LEAN_BIN[op]} {b})", "prop", None
        if op in ("==", "!=", "<", ">", "<=", ">="):
            ty = self.unify(aty, av, bty, bv, f"comparison {op}")
            if ty not in ("u8", "u16", "u32", "u64", "usize", "lit"):
                self.bad(f"comparison {op} at type {ty!r}")
            return f"({a} {LEAN_BIN[op]} {b})", "prop", None
        if op in ("<<", ">>"):
            ty = aty
            if bv is None:
                self.bad("shift by a non-constant amount")
            if ty in ("u8", "u16"):
                self.bad(f"shift at type {ty} (integer promotion)")
        else:
            ty = self.unify(aty, av, bty, bv, f"operator {op}")
        if ty == "lit":
            if av is None or bv is None:
                self.bad("untyped non-constant expression")
            if op in ("/", "%") and bv == 0:
                self.bad("division by zero in a constant")
            v = PY_BIN[op](av, bv)
            if v < 0:
                self.bad("negative constant")
            return str(v), "lit", v
        if ty in ("u8", "u16"):
            if op not in ("|", "^", "&"):
                self.bad(f"operator {op} at type {ty} (integer promotion is not modelled)")
        elif ty not in ("u32", "u64", "usize"):
            self.bad(f"operator {op} at type {ty!r}")
        if op in ("/", "%") and bv == 0:
            self.bad("division by zero")
        if ty == "usize" and op == "-":
            return f"(Arith.w64sub {atom(a)} {atom(b)})", ty, None
        return f"({a} {LEAN_BIN[op]} {b})", ty, None

    def emit_index(self, e):
        a, aty, _ = self.emit(e[1])
        i, ity, iv = self.emit(e[2])
        if aty == "ptrs":
            if ity not in ("lit", "usize"):
                self.bad(f"index of type {ity!r} into the pointer array {a}")
            return f"({atom(a)} {atom(i)})", "mem", None
        if not isinstance(aty, tuple) or aty[0] not in ("words", "vec"):
            self.bad(f"indexing into {a} : {aty!r} (only `&p[i]` is supported for byte pointers)")
        if aty[0] == "words":
            n, elem = aty[1], "u32"
            if aty[2] != 4:
                self.bad(f"reading one byte of the byte array {a}")
        else:
            n, elem = aty[2], aty[1]
        if iv is not None:
            if not 0 <= iv < n:
                self.bad(f"constant index {iv} out of bounds (length {n})")
            return f"({atom(a)}[{iv}]'(by decide))", elem, None
        if ity == ("fin", n):
            return f"{atom(a)}[{i}]", elem, None
        self.bad(f"index {i} of type {ity!r} into an array of length {n}")

    def emit_ref(self, x):
        while x[0] == "paren":
            x = x[1]
        if x[0] == "var":
            name = x[1]
            ty = self.vtype(name)
            if ty in ("V4", "V8") and name not in self.pscalars:
                return name, ("ptr", "scalar", name, 0, ty), None
            self.bad(f"address of {name} : {ty!r}")
        if x[0] != "index":
            self.bad(f"address of {x!r}")
        i, ity, iv = self.emit(x[2])
        if ity not in ("lit", "usize"):
            self.bad(f"index of type {ity!r} under &")
        if x[1][0] == "var" and isinstance(self.vtype(x[1][1]), tuple) and self.vtype(x[1][1])[0] in ("words", "vec"):
            name = x[1][1]
            ty = self.vtype(name)
            if iv is None:
                self.bad(f"&{name}[{i}]: the index is not a constant")
            if ty[0] == "words":
                if not 0 <= iv * ty[2] < 4 * ty[1]:
                    self.bad(f"&{name}[{iv}] is outside the array")
                return name, ("ptr", "words", name, iv * ty[2], ty[2]), None
            if not 0 <= iv < ty[2]:
                self.bad(f"&{name}[{iv}] is outside the array")
            return name, ("ptr", "vecarr", name, iv, ty[1]), None
        a, aty, _ = self.emit(x[1])
        off = iv if iv is not None else i
        if aty == "mem":
            return a, ("ptr", "mem", atom(a), off, 1), None
        if aty == "outptr":
            return a, ("ptr", "out", a, off, 1), None
        self.bad(f"address of an element of {a} : {aty!r}")

    def emit_cast(self, e):
        s, ty, val = self.emit(e[1])
        target = e[2]
        if "*" in target:
            if not is_ptr(ty):
                self.bad(f"pointer cast of the non-pointer {s}")
            if target in ("uint8_t *", "const uint8_t *", "const void *"):
                return s, ("ptr", ty[1], ty[2], ty[3], 1), None
            self.bad(f"unsupported pointer cast to ({target})")
        if target not in BASE:
            self.bad(f"unsupported cast to ({target})")
        t = BASE[target]
        if ty == "lit":
            if val is not None and val >= LIMIT[t]:
                self.bad(f"constant {val} does not fit {target}")
            return s, "lit", val
        if ty == t:
            return s, t, None
        if target == "int32_t" and ty == "bool":
            return f"(if {s} then 1 else 0)", "u32", None
        if t == "u32" and ty in ("u8", "u16", "u64"):
            return f"{atom(s)}.toUInt32", "u32", None      # u64 -> 32 bits: truncation
        if t == "usize" and isinstance(ty, tuple) and ty[0] == "fin":
            return s, ty, None                               # table entry used as an index
        self.bad(f"unsupported cast of {s} : {ty!r} to ({target})")

    def emit_call(self, e):
        name, args = e[1], e[2]
        if name in self.gen.sigs:
            sig = self.gen.sigs[name]
            if sig.inout or sig.ret is None:
                self.bad(f"{name} does not return a value / writes through its parameters, and is used as a value")
            texts = [self.bind_arg(sig, k, a)[0] for k, a in self.zip_args(sig, args)]
            return f"({sig.lean_name} {' '.join(texts)})", sig.ret, None
        if name in INTRINSICS:
            kinds, ret = INTRINSICS[name]
            if len(args) != len(kinds):
                self.bad(f"{name} called with {len(args)} arguments")
            out = []
            for kd, a in zip(kinds, args):
                if kd in "ib":
                    v = self.const(a, f"argument of {name}")
                    if not 0 <= v < 256:
                        self.bad(f"constant {v} of {name} does not fit 8 bits")
                    out.append(str(v))
                else:
                    s, ty, val = self.emit(a)
                    want = {"v": "V4", "w": "V8", "s": "u32", "h": "u16"}[kd]
                    out.append(atom(self.coerce(s, ty, val, want, f"argument of {name}")))
            return f"({name} {' '.join(out)})", ret, None
        if name == "_MM_SHUFFLE":
            # xmmintrin.h: #define _MM_SHUFFLE(fp3,fp2,fp1,fp0) (((fp3) << 6) | ((fp2) << 4) | ((fp1) << 2) | (fp0))
            if len(args) != 4:
                self.bad("_MM_SHUFFLE arity")
            vs = [self.const(a, "argument of _MM_SHUFFLE") for a in args]
            v = (vs[0] << 6) | (vs[1] << 4) | (vs[2] << 2) | vs[3]
            return str(v), "lit", v
        if name == "loadu":
            if len(args) != 1:
                self.bad("loadu arity")
            s, ty, _ = self.emit(args[0])
            V = self.gen.V
            if ty == "mem":
                ty = ("ptr", "mem", atom(s), 0, 1)
            if not is_ptr(ty) or ty[4] != 1:
                self.bad(f"loadu of {s}: not a byte pointer")
            _, kind, base, off, _ = ty
            if kind == "words":
                if V != "V4":
                    self.bad("256-bit load from a word array")
                if off % 4:
                    self.bad(f"loadu from the word array {base} at byte offset {off}: not a multiple of 4")
                return f"(loadu_words {base} {off // 4})", V, None
            if kind == "mem":
                return f"({'loadu_mem' if V == 'V4' else 'loadu256_mem'} {base} {atom(str(off))})", V, None
            self.bad(f"loadu through a pointer of kind {kind}")
        self.bad(f"unknown function {name}")

    # -------- calls of translated functions
    def zip_args(self, sig, args):
        if len(args) != len(sig.params):
            self.bad(f"{sig.name} called with {len(args)} arguments")
        return list(enumerate(args))

    def bind_arg(self, sig, k, arg):
        """-> (lean text of the argument, write-back: new value text -> [lines], or None)"""
        pname, pty = sig.params[k]
        io = k in sig.inout
        what = f"argument {pname} of {sig.name}"
        a = arg
        while a[0] == "paren":
            a = a[1]
        if pty in ("V4", "V8") and io:
            s, ty, _ = self.emit(a)
            if is_ptr(ty, "scalar") and ty[4] == pty:
                self.mat(ty[2])
                return ty[2], (lambda new, n=ty[2]: [f"let {n} := {new}"])
            if is_ptr(ty, "vecarr") and ty[4] == pty:
                arr, idx = ty[2], ty[3]
                self.mat(arr)
                return f"({arr}[{idx}]'(by decide))", (lambda new, arr=arr, idx=idx: [f"let {arr} := {arr}.set {idx} {atom(new)} (by decide)"])
            self.bad(f"{what}: expected the address of a {pty} object")
        if isinstance(pty, tuple) and pty[0] == "vec":
            if a[0] == "var" and self.vtype(a[1]) == pty:
                if io:
                    self.mat(a[1])
                    return a[1], (lambda new, n=a[1]: [f"let {n} := {new}"])
                return self.emit(a)[0], None
            s, ty, _ = self.emit(a)
            if is_ptr(ty, "vecarr") and ty[4] == pty[1] and pty[2] in (4, 8):
                arr, idx, n = ty[2], ty[3], pty[2]
                if idx + n > self.vtype(arr)[2]:
                    self.bad(f"{what}: {n} elements at &{arr}[{idx}] run past the end of the array")
                if not io:
                    if self.is_uninit(arr):
                        self.bad(f"{arr} is read before it is assigned")
                    return f"(slice{n} {arr} {idx})", None
                self.mat(arr)
                return f"(slice{n} {arr} {idx})", (lambda new, arr=arr, idx=idx, n=n: [f"let {arr} := setSlice{n} {arr} {idx} {atom(new)}"])
            self.bad(f"{what}: expected an array of {pty[2]} vectors")
        if isinstance(pty, tuple) and pty[0] == "words":
            n = pty[1]
            if a[0] == "var" and isinstance(self.vtype(a[1]), tuple) and self.vtype(a[1])[0] == "words":
                if self.vtype(a[1])[1] != n:
                    self.bad(f"{what}: array of {self.vtype(a[1])[1]} words passed for {n} words")
                if io:
                    self.mat(a[1])
                    return a[1], (lambda new, nm=a[1]: [f"let {nm} := {new}"])
                return self.emit(a)[0], None
            s, ty, _ = self.emit(a)
            if ty == "mem":
                ty = ("ptr", "mem", atom(s), 0, 1)
            if ty == "outptr":
                ty = ("ptr", "out", s, 0, 1)
            if is_ptr(ty, "mem"):
                if io:
                    self.bad(f"{what}: the callee writes through a pointer to const data")
                return f"(Mem.words {n} {ty[2]} {atom(str(ty[3]))})", None
            if is_ptr(ty, "out"):
                base, off = ty[2], atom(str(ty[3]))
                if not io:
                    return f"(BytePtr.readWords {base} {off} {n})", None
                return (f"(BytePtr.readWords {base} {off} {n})",
                        (lambda new, base=base, off=off: [f"let {base} := BytePtr.writeWords {base} {off} {atom(new)}"]))
            self.bad(f"{what}: expected {4 * n} bytes")
        if pty == "mem":
            s, ty, _ = self.emit(a)
            if ty == "mem":
                return atom(s), None
            if is_ptr(ty, "mem"):
                return f"(Mem.add {ty[2]} {atom(str(ty[3]))})", None
            self.bad(f"{what}: expected a const byte pointer")
        if pty == "ptrs":
            s, ty, _ = self.emit(a)
            if ty != "ptrs":
                self.bad(f"{what}: expected a pointer to byte pointers")
            return atom(s), None
        if pty == "outptr":
            s, ty, _ = self.emit(a)
            if ty == "outptr":
                return s, ((lambda new, n=s: [f"let {n} := BytePtr.back {n} {atom(new)}"]) if io else None)
            if is_ptr(ty, "out"):
                base = ty[2]
                return (f"(BytePtr.add {base} {atom(str(ty[3]))})",
                        ((lambda new, n=base: [f"let {n} := BytePtr.back {n} {atom(new)}"]) if io else None))
            self.bad(f"{what}: expected a writable byte pointer")
        s, ty, val = self.emit(a)
        if is_ptr(ty):
            self.bad(f"{what}: pointer passed for a value")
        return atom(self.coerce(s, ty, val, pty, what)), None

    # -------- statements
    def base_var(self, e):
        while e[0] in ("ref", "deref", "paren", "cast"):
            e = e[1]
        if e[0] == "var":
            return e[1]
        if e[0] == "index":
            return self.base_var(e[1])
        return None

    def assigned(self, stmts):
        """variables (declared outside) that a statement list assigns or writes through, in order"""
        out, local = [], set()

        def add(v):
            if v is not None and v not in out:
                out.append(v)
        for s in stmts:
            if s[0] in ("let", "decl"):
                local.add(s[1])
            elif s[0] == "assign":
                add(self.base_var(s[1]))
            elif s[0] == "expr" and s[1][0] == "call":
                name, args = s[1][1], s[1][2]
                if name in self.gen.sigs:
                    for i in self.gen.sigs[name].inout:
                        if i < len(args):
                            add(self.base_var(args[i]))
                elif name == "storeu" and len(args) == 2:
                    add(self.base_var(args[1]))
                elif name == "memcpy" and len(args) == 3:
                    add(self.base_var(args[0]))
                elif name != "_mm_prefetch":
                    self.bad(f"call of unknown function {name} as a statement")
            elif s[0] == "for":
                for v in self.assigned(s[4]):
                    add(v)
            elif s[0] in ("while", "if"):
                for v in self.assigned(s[2]):
                    add(v)
        return [v for v in out if v not in local]

    def stmt(self, s):
        k = s[0]
        if k == "decl":
            ty, _ = self.ctype(s[2], s[1])
            if isinstance(ty, tuple) and ty[0] == "pscalar" or ty in ("mem", "ptrs", "outptr"):
                self.bad(f"uninitialised pointer variable {s[1]}")
            if s[1] in self.env:
                self.bad(f"{s[1]} declared twice")
            self.declare(s[1], ("uninit", ty))
        elif k == "let":
            self.stmt_let(s)
        elif k == "assign":
            self.stmt_assign(s)
        elif k == "expr":
            self.stmt_expr(s[1])
        elif k == "for":
            self.stmt_for(s)
        elif k == "if":
            self.stmt_if(s)
        elif k == "while":
            self.stmt_while(s)
        elif k == "marker":
            self.bad("segment marker in a function that is not split")
        else:
            self.bad(f"unsupported statement kind {k}")

    def stmt_let(self, s):
        _, name, ct, e = s
        ty, _ = self.ctype(ct, name)
        if name in self.env:
            self.bad(f"{name} declared twice (shadowing is not supported)")
        if isinstance(ty, tuple) and ty[0] == "pscalar" or ty in ("mem", "ptrs", "outptr"):
            self.bad(f"pointer stored in the local variable {name}")
        if e[0] == "array":
            if not (isinstance(ty, tuple) and ty[0] == "vec"):
                self.bad(f"initialiser list for {name} : {ty!r}")
            if len(e[1]) != ty[2]:
                self.bad(f"{len(e[1])} initialisers for the {ty[2]} elements of {name} (the rest would be zero)")
            parts = []
            for x in e[1]:
                t, tt, tv = self.emit(x)
                parts.append(self.coerce(t, tt, tv, ty[1], f"initialiser of {name}"))
            self.out(f"let {name} := #v[{', '.join(parts)}]")
            self.declare(name, ty)
            return
        txt, ety, val = self.emit(e)
        if is_ptr(ety):
            self.bad(f"pointer stored in the local variable {name}")
        txt = self.coerce(txt, ety, val, ty, f"initialiser of {name}")
        if ety == "lit":
            self.out(f"let {name} : {lean_ty(self.fn, ty)} := {txt}")
        else:
            self.out(f"let {name} := {txt}")
        self.declare(name, ty)

    def stmt_assign(self, s):
        _, lhs, op, rhs = s
        while lhs[0] == "paren":
            lhs = lhs[1]
        if lhs[0] == "deref":
            if lhs[1][0] != "var" or lhs[1][1] not in self.pscalars:
                self.bad(f"assignment through {lhs[1]!r}")
            lhs = lhs[1]
        elif lhs[0] == "var" and lhs[1] in self.pscalars:
            self.bad(f"the pointer parameter {lhs[1]} is reassigned")
        if lhs[0] == "var":
            name = lhs[1]
            if name not in self.env:
                self.bad(f"assignment to unknown variable {name}")
            ty = self.vtype(name)
            if ty in ("mem", "ptrs", "outptr"):
                fn = {"mem": "Mem.add", "ptrs": "PtrArr.add", "outptr": "BytePtr.add"}[ty]
                if op == "+":
                    t, tt, tv = self.emit(rhs)
                    self.out(f"let {name} := {fn} {name} {atom(self.coerce(t, tt, tv, 'usize', f'{name} +='))}")
                    return
                if op == "":
                    t, tt, _ = self.emit(rhs)
                    kind = {"mem": "mem", "outptr": "out"}.get(ty)
                    if kind and is_ptr(tt, kind) and tt[2] == name:
                        self.out(f"let {name} := {fn} {name} {atom(str(tt[3]))}")
                        return
                self.bad(f"unsupported assignment to the pointer {name}")
            txt, ety, val = self.emit(rhs)
            if is_ptr(ety):
                self.bad(f"pointer assigned to {name}")
            if op:
                if self.is_uninit(name):
                    self.bad(f"{name} {op}= before assignment")
                if ty in ("u8", "u16") and op not in ("|", "^", "&"):
                    self.bad(f"{name} {op}= at type {ty} (integer promotion is not modelled)")
                if ty not in ("u8", "u16", "u32", "u64", "usize"):
                    self.bad(f"{name} {op}= at type {ty!r}")
                txt = self.coerce(txt, ety, val, ty, f"{name} {op}=")
                if ty == "usize" and op == "-":
                    txt = f"Arith.w64sub {name} {atom(txt)}"
                else:
                    txt = f"({name} {LEAN_BIN[op]} {txt})"
            else:
                txt = self.coerce(txt, ety, val, ty, f"assignment to {name}")
                if ety == "lit":
                    txt = f"({txt} : {lean_ty(self.fn, ty)})"
            self.env[name] = ty
            self.out(f"let {name} := {txt}")
            return
        if lhs[0] == "index" and lhs[1][0] == "var":
            name = lhs[1][1]
            aty = self.vtype(name)
            if not (isinstance(aty, tuple) and aty[0] == "vec"):
                self.bad(f"indexed assignment into {name} : {aty!r}")
            if op:
                self.bad(f"{name}[..] {op}=")
            i = self.const(lhs[2], f"index in assignment to {name}[..]")
            if not 0 <= i < aty[2]:
                self.bad(f"index {i} out of bounds in assignment to {name}")
            txt, ety, val = self.emit(rhs)
            txt = self.coerce(txt, ety, val, aty[1], f"assignment to {name}[{i}]")
            self.mat(name)
            self.out(f"let {name} := {name}.set {i} {atom(txt)} (by decide)")
            return
        self.bad(f"unsupported assignment target {lhs!r}")

    def stmt_expr(self, e):
        if e[0] != "call":
            self.bad(f"expression statement {e!r}")
        name, args = e[1], e[2]
        if name == "storeu":
            if len(args) != 2:
                self.bad("storeu arity")
            v, vty, _ = self.emit(args[0])
            V = self.gen.V
            if vty != V:
                self.bad("storeu of something that is not a vector")
            p, pty, _ = self.emit(args[1])
            if pty == "outptr":
                pty = ("ptr", "out", p, 0, 1)
            if not is_ptr(pty) or pty[4] != 1:
                self.bad("storeu destination is not a byte pointer")
            _, kind, base, off, _ = pty
            if kind == "words":
                if V != "V4":
                    self.bad("256-bit store into a word array")
                if off % 4:
                    self.bad(f"storeu at byte offset {off} of {base}: not a multiple of 4")
                if base not in self.env:
                    self.bad(f"storeu into {base}")
                self.mat(base)
                self.out(f"let {base} := storeu_words {atom(v)} {base} {off // 4}")
                return
            if kind == "out":
                self.out(f"let {base} := {'storeu_ptr' if V == 'V4' else 'storeu256_ptr'} {atom(v)} {base} {atom(str(off))}")
                return
            self.bad(f"storeu through a pointer of kind {kind}")
        if name == "memcpy":
            if len(args) != 3:
                self.bad("memcpy arity")
            n = self.const(args[2], "memcpy length")
            d, s = args[0], args[1]
            if d[0] == "var" and s[0] == "var":
                dt, st = self.vtype(d[1]), self.vtype(s[1])
                if (isinstance(dt, tuple) and dt[0] == "words" and isinstance(st, tuple) and st[0] == "words"
                        and dt[1] == st[1] and n == 4 * dt[1]):
                    src, _, _ = self.emit(s)
                    self.env[d[1]] = dt
                    self.out(f"let {d[1]} := {src}")
                    return
            self.bad("memcpy other than a whole word array onto a whole word array of the same size")
        if name not in self.gen.sigs:
            self.bad(f"call of unknown function {name} as a statement")
        sig = self.gen.sigs[name]
        if not sig.inout:
            self.bad(f"result of {name} is discarded")
        if sig.ret is not None:
            self.bad(f"{name} returns a value and writes through its parameters")
        texts, backs = [], []
        for k, a in self.zip_args(sig, args):
            t, wb = self.bind_arg(sig, k, a)
            texts.append(t)
            if k in sig.inout:
                if wb is None:
                    self.bad(f"argument {sig.params[k][0]} of {name}: nowhere to write back")
                backs.append(wb)
        call = f"{sig.lean_name} {' '.join(texts)}"
        if len(backs) == 1:
            for l in backs[0](call):
                self.out(l)
        else:
            t = self.fresh("r")
            self.out(f"let {t} := {call}")
            for i, wb in enumerate(backs):
                for l in wb(proj(t, i, len(backs))):
                    self.out(l)

    def carried(self, body):
        vs = self.assigned(body)
        for v in vs:
            if v not in self.env:
                self.bad(f"loop assigns the unknown variable {v}")
            if self.is_uninit(v):
                self.bad(f"loop assigns {v}, which has no value before the loop")
        return vs

    def cond_text(self, cond):
        c, cty, _ = self.emit(cond)
        if cty not in ("prop", "bool"):
            self.bad(f"condition of type {cty!r} (implicit comparison with 0 is not supported)")
        return c

    def closure(self, used_in, exclude):
        used = expr_vars(used_in, [])
        return [v for v in self.order if v in used and v not in exclude and v in self.env and not self.is_uninit(v)]

    def stmt_for(self, s):
        _, var, lo, hi, body = s
        if body and all(b[0] == "expr" and b[1][0] == "call" and b[1][1] == "_mm_prefetch" for b in body):
            self.out("-- for … { _mm_prefetch(…) }: prefetch hints have no architectural effect")
            return
        lo_s, lo_t, lo_v = self.emit(lo)
        hi_s, hi_t, hi_v = self.emit(hi)
        if lo_t not in ("lit", "usize") or hi_t not in ("lit", "usize"):
            self.bad("for bounds that are not size_t")
        rng = f"List.range {atom(hi_s)}" if lo_v == 0 else f"List.range' {atom(lo_s)} ({hi_s} - {lo_s})"
        if var in self.env:
            self.bad(f"loop variable {var} shadows another variable")
        vs = self.carried(body)
        if not vs:
            self.bad("for loop without effect on any variable")
        if var in self.assigned(body):
            self.bad(f"the loop variable {var} is assigned in the body")
        lname, clos, tup = self.lift("loop", body, vs, f" ({var} : Nat)", body, bound=(var, "usize"))
        t = self.fresh("loop")
        self.out(f"let {t} := ({rng}).foldl ({' '.join([lname] + clos)}) {tup}")
        for i, v in enumerate(vs):
            self.out(f"let {v} := {proj(t, i, len(vs))}")

    def stmt_if(self, s):
        _, cond, body = s
        if len(body) != 1 or body[0][0] != "assign":
            self.bad("if statement whose body is not a single assignment")
        c = self.cond_text(cond)
        saved = self.lines
        self.lines = []
        self.stmt_assign(body[0])
        lines, self.lines = self.lines, saved
        if len(lines) != 1:
            self.bad("if statement whose body needs more than one definition")
        m = re.match(r"^let (\w+) := (.*)$", lines[0], re.S)
        self.out(f"let {m.group(1)} := if {c} then {m.group(2)} else {m.group(1)}")

    def lift(self, kind, used_in, vs, binders, body, bound=None, result=None):
        """translate `body` as a separate definition taking the loop state `st` (the tuple of the carried variables)"""
        self.nloop += 1
        lname = f"{self.fn}_{kind}{self.nloop}"
        if "st" in self.env:
            self.bad("variable named st clashes with the loop state")
        closure = self.closure(used_in, vs + ([bound[0]] if bound else []))
        tys = [self.env[v] for v in vs]
        saved_env, saved_order, saved_lines = dict(self.env), list(self.order), self.lines
        self.lines = []
        if bound:
            self.declare(bound[0], bound[1])
        for i, v in enumerate(vs):
            self.out(f"let {v} := {proj('st', i, len(vs))}")
        for b in body:
            self.stmt(b)
        tup = "(" + ", ".join(vs) + ")" if len(vs) > 1 else vs[0]
        sty = tuple_ty(self.fn, tys)
        res, rty = result() if result is not None else (tup, sty)
        inner = self.lines
        pairs = [(v, saved_env[v]) for v in closure]
        self.env, self.order, self.lines = saved_env, saved_order, saved_lines
        self.pending.append((lname, pairs, f"(st : {sty})" + binders, rty, inner, res))
        return lname, closure, tup

    def stmt_while(self, s):
        _, cond, body = s
        vs = self.carried(body)
        if not vs:
            self.bad("while loop without effect on any variable")
        c = cond
        while c[0] == "paren":
            c = c[1]
        if not (c[0] == "bin" and c[1] in (">", ">=") and c[2][0] == "var" and c[2][1] in vs
                and self.vtype(c[2][1]) == "usize"):
            self.bad("while loop whose condition is not `x > c` / `x >= c` for a size_t variable x that the body changes")
        fuel = f"({c[2][1]} + 1)"
        cname, cclos, _ = self.lift("cond", [cond], vs, "", [], result=lambda: ("decide " + atom(self.cond_text(cond)), "Bool"))
        lname, lclos, tup = self.lift("loop", body, vs, "", body)
        t = self.fresh("loop")
        self.out(f"let {t} := whileFuel {fuel} ({' '.join([cname] + cclos)}) ({' '.join([lname] + lclos)}) {tup}")
        for i, v in enumerate(vs):
            self.out(f"let {v} := {proj(t, i, len(vs))}")

    # -------- parameters
    def params(self):
        """-> ([(name, type)], return type | None, [indices of candidate in/out parameters], raw body)"""
        ret, ptexts, raw = self.gen.src.find_fn(self.fn)
        out, cand = [], []
        for i, p in enumerate(ptexts):
            try:
                ds = parse_decl_toks(self.fn, tokenize(p))
            except Exception as ex:
                self.bad(f"parameter {p!r}: {ex}")
            if len(ds) != 1 or ds[0][2] is not None:
                self.bad(f"parameter {p!r}")
            name, ct, _ = ds[0]
            ty, mode = self.ctype(ct, f"parameter {name}")
            if isinstance(ty, tuple) and ty[0] == "pscalar":
                ty = ty[1]
                self.pscalars.add(name)
            out.append((name, ty))
            if mode == "cand":
                cand.append(i)
        rty = None
        if ret != "void":
            if ret not in BASE:
                self.bad(f"unsupported return type {ret}")
            rty = BASE[ret]
        return out, rty, cand, raw


# ------------------------------------------------------------------------------------------------
# one file

HEADER = """/- GENERATED by gen/ext_simd_c.py from {rel} -- do not edit -/
/-
Statement-by-statement translation of the C intrinsics kernels.  Conventions:
  __m128i / __m256i -> V4 / V8 (lane 0 = bits 31:0); uintN_t -> UIntN (wrapping); int32_t / int16_t / char -> their
  bit patterns; size_t -> Nat (`+`, `*` without wrap-around: bounded by the size of real memory; `-` = Arith.w64sub,
  wrapping as in C); `T *p` (one object) and non-const array parameters that the function writes: taken and returned
  (a function returns the tuple of those parameters, in order); const / never written arrays: values;
  uint32_t[n], uint8_t[4n] -> Vector UInt32 n (little-endian words); const uint8_t * -> Mem (byte addressed,
  offset 0 = the pointer); const uint8_t *const * -> PtrArr; uint8_t * -> BytePtr (memory and offset);
  an array parameter that receives a byte pointer is the words read there (Mem.words / BytePtr.readWords) and, if the
  callee writes it, written back (BytePtr.writeWords); uninitialised locals handed to a callee -> `uninit` (opaque);
  `while` -> whileFuel (bounded; see Simd/Prim.lean); a loop body / loop condition is lifted into its own definition
  `<fn>_loopK` / `<fn>_condK` taking the variables it reads and the tuple `st` of the variables the loop assigns;
  _mm_prefetch loops are dropped (no architectural effect).  No debug_assert / assert occurs in the source.
-/
import B3.Prim
import B3.Arith
import B3.Gen.Consts
import B3.Gen.CPortable
import B3.Simd.Prim
import B3.Simd.PrimC
{imports}set_option linter.unusedVariables false
namespace B3.Gen.{ns}
open B3 B3.Simd B3.Simd.CI
open B3.Gen.C (IV MSG_SCHEDULE counter_low counter_high)

"""

WRAPPERS = {
    "V4": (("__m128i", ["const uint8_t src[16]"], "return_mm_loadu_si128((const__m128i*)src);"),
           ("void", ["__m128i src", "uint8_t dest[16]"], "_mm_storeu_si128((__m128i*)dest,src);")),
    "V8": (("__m256i", ["const uint8_t src[32]"], "return_mm256_loadu_si256((const__m256i*)src);"),
           ("void", ["__m256i src", "uint8_t dest[16]"], "_mm256_storeu_si256((__m256i*)dest,src);")),
}


class Generator:
    def __init__(self, repo, rel, ns, V, imports=()):
        self.src = CSource(repo, rel)
        self.rel, self.ns, self.V, self.imports = rel, ns, V, list(imports)
        self.sigs = {}
        self.defs = []
        for name, pty in (("counter_low", "u64"), ("counter_high", "u64")):
            self.sigs[name] = Sig(name, [("counter", pty)], "u32", [])
        self.check_counter_fns(repo)

    def check_counter_fns(self, repo):
        """counter_low / counter_high are the functions of c/blake3_impl.h that G-c-portable translates (Gen.C)"""
        with open(os.path.join(repo, "c/blake3_impl.h"), encoding="utf-8") as f:
            impl = f.read()
        for n in ("counter_low", "counter_high"):
            if not re.search(rf"\bINLINE\s+uint32_t\s+{n}\s*\(\s*uint64_t\s+counter\s*\)", impl):
                raise TranslationBroken(Ctx.art, f"{n}: not `INLINE uint32_t {n}(uint64_t counter)` in c/blake3_impl.h")

    # the two pointer-cast wrappers are checked, not translated: they are the memory model of Simd/Prim*.lean
    def check_wrappers(self):
        for name, (ret, params, body) in zip(("loadu", "storeu"), WRAPPERS[self.V]):
            r, ps, raw = self.src.find_fn(name)
            got = re.sub(r"\s+", "", X.strip_comments(raw))
            if r != ret or ps != params or got != body:
                broken(name, f"no longer the plain unaligned load/store wrapper: {r} {ps} {got!r}")

    def start(self, name):
        tr = CFn(self, name)
        params, rty, cand, raw = tr.params()
        params = [(n, ("fin", self.src.nsched) if t == "usize" and re.search(rf"MSG_SCHEDULE\s*\[\s*{n}\s*\]", raw) else t)
                  for n, t in params]
        for n, t in params:
            tr.declare(n, t)
        return tr, params, rty, cand, raw

    def inout_of(self, tr, params, cand, stmts):
        written = tr.assigned(stmts)
        return [i for i in cand if params[i][0] in written]

    def ret_and_final(self, tr, params, rty, inout, tail):
        names = [params[i][0] for i in inout]
        tys = [params[i][1] for i in inout]
        if tail is not None:
            if rty is None:
                tr.bad("value returned from a void function")
            if inout:
                tr.bad("a function that both returns a value and writes through its parameters")
            s, ty, val = tr.emit(tail)
            return lean_ty(tr.fn, rty), tr.coerce(s, ty, val, rty, "returned value")
        if rty is not None:
            tr.bad("no return statement in a function with a return type")
        if not inout:
            tr.bad("void function that writes through none of its parameters")
        for n in names:
            if tr.is_uninit(n):
                tr.bad(f"{n} is returned uninitialised")
        return tuple_ty(tr.fn, tys), ("(" + ", ".join(names) + ")" if len(names) > 1 else names[0])

    def render(self, tr, name, pairs, ret, lines, final, extra=""):
        body = "".join("  " + l + "\n" for l in lines)
        b = " ".join(x for x in (" ".join(f"({n} : {lean_ty(tr.fn, t)})" for n, t in pairs), extra) if x)
        return f"def {name} {b} : {ret} :=\n{body}  {final}\n"

    def flush_pending(self, tr):
        for lname, pairs, extra, ty, lines, tup in tr.pending:
            self.defs.append(self.render(tr, lname, pairs, ty, lines, tup, extra))
        tr.pending = []

    def translate(self, name):
        tr, params, rty, cand, raw = self.start(name)
        stmts, tail = prepare_body(self.src, name, raw)
        inout = self.inout_of(tr, params, cand, stmts)
        for s in stmts:
            tr.stmt(s)
        ret, final = self.ret_and_final(tr, params, rty, inout, tail)
        self.flush_pending(tr)
        self.defs.append(self.render(tr, name, params, ret, tr.lines, final))
        self.sigs[name] = Sig(name, params, rty, inout)

    def translate_split(self, name, mode="rounds"):
        """like translate, but the body is cut into separately defined pieces, by position: at the `// Round k` comments
        (mode "rounds": pieces init, round1, ...) or at blank lines (mode "blank": pieces part1, part2, ...).  The
        parameters / results of a piece are the variables live at its boundaries.  (One definition with more than a
        hundred `let`s is very slow to elaborate.)"""
        tr, params, rty, cand, raw = self.start(name)
        stmts, tail = prepare_body(self.src, name, raw, segment_markers=(True if mode == "rounds" else "blank"))
        inout = self.inout_of(tr, params, cand, [s for s in stmts if s[0] != "marker"])
        segs = [("init" if mode == "rounds" else "part1", [])]
        for s in stmts:
            if s[0] == "marker":
                label = f"round{s[1]}" if mode == "rounds" else f"part{s[1]}"
                if any(l == label for l, _ in segs):
                    tr.bad(f"two `// Round {s[1]}` comments")
                segs.append((label, []))
            else:
                segs[-1][1].append(s)
        if len(segs) == 1:
            tr.bad("no `// Round k` comments / blank lines found to split at")
        info = []
        for label, ss in segs:
            use, dfn = [], []
            for s in ss:
                if s[0] == "decl":
                    continue
                if s[0] == "let":
                    u, d = expr_vars(s[3], []), [s[1]]
                elif s[0] == "assign":
                    lhs = s[1]
                    while lhs[0] in ("deref", "paren"):
                        lhs = lhs[1]
                    if lhs[0] == "index" and lhs[1][0] == "var":
                        u, d = [lhs[1][1]] + expr_vars(lhs[2], []) + expr_vars(s[3], []), [lhs[1][1]]
                    elif lhs[0] != "var":
                        tr.bad("unsupported assignment target in a split function")
                    else:
                        u, d = expr_vars(s[3], []) + ([lhs[1]] if s[2] else []), [lhs[1]]
                elif s[0] == "expr" and s[1][0] == "call" and s[1][1] in self.sigs:
                    sig = self.sigs[s[1][1]]
                    u = expr_vars(s[1][2], [])
                    d = [tr.base_var(s[1][2][i]) for i in sig.inout if i < len(s[1][2])]
                else:
                    tr.bad(f"statement kind {s[0]} in a split function")
                for v in u:
                    if v not in dfn and v not in use:
                        use.append(v)
                for v in d:
                    if v not in dfn:
                        dfn.append(v)
            info.append((use, dfn))
        # an uninitialised local array that is only assigned element by element counts as used (its old value flows on)
        pieces = []
        for label, ss in segs:
            tr.lines = []
            tr.ntmp = 0
            for s in ss:
                tr.stmt(s)
            pieces.append(tr.lines)
        tr.lines = []
        ret, final = self.ret_and_final(tr, params, rty, inout, tail)
        known = lambda v: v in tr.env
        live = [v for v in expr_vars(tail, []) if known(v)] if tail is not None else [params[i][0] for i in inout]
        live_out = [None] * len(segs)
        live_in = [None] * len(segs)
        for k in range(len(segs) - 1, -1, -1):
            live_out[k] = sorted(set(live), key=tr.order.index)
            use, dfn = info[k]
            live = [v for v in use if known(v)] + [v for v in live if v not in dfn]
            live_in[k] = sorted(set(live), key=tr.order.index)
        pnames = [n for n, _ in params]
        for v in live_in[0]:
            if v not in pnames:
                tr.bad(f"{v} is read before it is assigned")
        main, defined, prev = [], set(), None
        for k, (label, _) in enumerate(segs):
            defined.update(info[k][1])
            outs = [v for v in live_out[k] if v in defined]
            if not outs:
                tr.bad(f"piece {label} computes nothing that is used")
            oty = tuple_ty(tr.fn, [tr.vtype(v) for v in outs])
            otup = "(" + ", ".join(outs) + ")" if len(outs) > 1 else outs[0]
            if prev is not None and len(prev[1]) > 1:
                pv, pnames_prev = prev
                pty = tuple_ty(tr.fn, [tr.vtype(v) for v in pnames_prev])
                others = [v for v in live_in[k] if v not in pnames_prev]
                unpack = [f"let {v} := {proj('s', i, len(pnames_prev))}" for i, v in enumerate(pnames_prev)]
                if "s" in tr.env:
                    tr.bad("variable named s clashes with the piece parameter")
                self.defs.append(self.render(tr, f"{name}_{label}", [(v, tr.vtype(v)) for v in others], oty,
                                             unpack + pieces[k], otup, extra=f"(s : {pty})"))
                call = f"{name}_{label} " + " ".join(others + [pv])
            else:
                self.defs.append(self.render(tr, f"{name}_{label}", [(v, tr.vtype(v)) for v in live_in[k]], oty, pieces[k], otup))
                call = f"{name}_{label} " + " ".join(live_in[k])
            if len(outs) == 1:
                main.append(f"let {outs[0]} := {call}")
                prev = (outs[0], outs)
            else:
                t = f"s{k}"
                main.append(f"let {t} := {call}")
                prev = (t, outs)
        if prev is not None and len(prev[1]) > 1:
            for i, v in enumerate(prev[1]):
                main.append(f"let {v} := {proj(prev[0], i, len(prev[1]))}")
        if tr.pending:
            tr.bad("loop inside a split function")
        self.defs.append(self.render(tr, name, params, ret, main, final))
        self.sigs[name] = Sig(name, params, rty, inout)

    def finish(self):
        imports = "".join(f"import {i}\n" for i in self.imports)
        return HEADER.format(rel=self.rel, ns=self.ns, imports=imports) + "\n".join(self.defs) + f"\nend B3.Gen.{self.ns}\n"


def run_sse(repo, rel, ns, isa, extra=()):
    g = Generator(repo, rel, ns, "V4")
    g.check_wrappers()
    for f in ["addv", "xorv", "set1", "set4", "rot16", "rot12", "rot8", "rot7", "g1", "g2", "diagonalize", "undiagonalize"] + list(extra):
        g.translate(f)
    g.translate_split("compress_pre")
    for f in [f"blake3_compress_in_place_{isa}", f"blake3_compress_xof_{isa}"]:
        g.translate(f)
    g.translate_split("round_fn", mode="blank")
    for f in ["transpose_vecs", "transpose_msg_vecs", "load_counters", f"blake3_hash4_{isa}", f"hash_one_{isa}",
              f"blake3_hash_many_{isa}"]:
        g.translate(f)
    return g


def run_avx2(repo):
    sse = run_sse(repo, "c/blake3_sse41.c", "CSse41", "sse41")
    g = Generator(repo, "c/blake3_avx2.c", "CAvx2", "V8", imports=["B3.Simd.Prim256C", "B3.Gen.CSse41"])
    g.check_wrappers()
    for f in ["addv", "xorv", "set1", "rot16", "rot12", "rot8", "rot7"]:
        g.translate(f)
    g.translate_split("round_fn", mode="blank")
    for f in ["transpose_vecs", "transpose_msg_vecs", "load_counters", "blake3_hash8_avx2"]:
        g.translate(f)
    # the tail of blake3_hash_many_avx2 is handed to blake3_hash_many_sse41 (default build: BLAKE3_NO_SSE41 is not
    # defined); its prototype in blake3_avx2.c must be the definition of c/blake3_sse41.c
    ext = "blake3_hash_many_sse41"
    r1, p1, _ = g.src.find_fn(ext, want_body=False)
    r2, p2, _ = sse.src.find_fn(ext)
    if (r1, p1) != (r2, p2):
        broken(ext, f"the prototype in c/blake3_avx2.c differs from the definition in c/blake3_sse41.c: {r1} {p1} / {r2} {p2}")
    sig = sse.sigs[ext]
    g.sigs[ext] = Sig(ext, sig.params, sig.ret, sig.inout, lean_name="B3.Gen.CSse41." + ext)
    g.translate("blake3_hash_many_avx2")
    return g


def wrap(art, f):
    def go():
        Ctx.art = art
        try:
            return f()
        except TranslationBroken as ex:
            raise TranslationBroken(art, str(getattr(ex, "reason", ex)))
    return go


def gen_c_sse41():
    return run_sse(X.REPO, "c/blake3_sse41.c", "CSse41", "sse41").finish()


def gen_c_sse2():
    return run_sse(X.REPO, "c/blake3_sse2.c", "CSse2", "sse2", extra=["blend_epi16"]).finish()


def gen_c_avx2():
    return run_avx2(X.REPO).finish()


ARTEFACTS = [("CSse41.lean", "G18-c-sse41", wrap("G18-c-sse41", gen_c_sse41)),
             ("CSse2.lean", "G19-c-sse2", wrap("G19-c-sse2", gen_c_sse2)),
             ("CAvx2.lean", "G20-c-avx2", wrap("G20-c-avx2", gen_c_avx2))]
