"""
G12-io: src/io.rs (copy_wide, maybe_mmap_file) and the io-facing methods of src/lib.rs (Hasher::update_reader, update_mmap,
update_mmap_rayon, impl std::io::Write for Hasher, impl std::io::Read for OutputReader)  ->  lean/B3/Gen/RsIo.lean.

Statement-level translation of imperative Rust with io effects into the panic monad `R` of B3/Arith.lean.  The translation is in
continuation-passing style: the code that follows a statement is inlined at every point where control can reach it (after an
`if` without `else`, after each arm of a `match`, after the failing branch of `if let` / `let ... else`, at a `break`), so mutable
variables are plain shadowing `let`s and no join points are needed.  `loop { .. }` becomes a fuel loop whose result is the
result of the function; `return`, `continue`, `break`, `?`, `match` with literal / binding / wildcard patterns and `if` guards (arms
are tried in source order), `if let`, `let .. else`, checked u64 arithmetic, `as` casts, slices with their bounds checks,
`assert_eq!` are all represented.  What the translator does not understand raises TranslationBroken("G12-io", "<fn>: <what>").

The only fixed text is PRELUDE: the types and the primitive operations the source calls into (Read::read on the model's
scripted reader, File::seek / rewind / stream_position with an explicit cursor, MmapOptions::len / map, slices, integer casts).
"""
import re

import extract as X

A = "G12-io"
IO_RS = "src/io.rs"
LIB_RS = "src/lib.rs"


class Broken(Exception):
    pass


# ------------------------------------------------------------------------------------------------
# fixed text: types and primitives (trusted mapping; everything after it is derived from the source text)

PRELUDE = r'''
/-! ### primitives (fixed text of gen/ext_io.py; the abstraction is the one of `B3.Io.Model`) -/

/-- `std::io::ErrorKind`, as far as the code distinguishes kinds -/
inductive ErrorKind where
  | Interrupted
  | Other (name : String)
  deriving DecidableEq, Repr

/-- `std::io::Error`; `e.kind()` is the field -/
structure IoError where
  kind : ErrorKind
  deriving DecidableEq, Repr

/-- `std::io::Result<α>` -/
abbrev IoResult (α : Type) := Except IoError α

/-- an `impl Read`: the model's script of future `read` results -/
abbrev Reader := List ReadEvent

/-- `reader.read(&mut buffer)`: the `io::Result<usize>`, the buffer afterwards (the bytes read are written to its front), and
the reader afterwards.  `readCall` is the model's scripted reader. -/
def Reader.read (reader : Reader) (buffer : List UInt8) : (IoResult Nat × List UInt8) × Reader :=
  match readCall buffer.length reader with
  | (.ok bs, rest) => ((.ok bs.length, bs ++ buffer.drop bs.length), rest)
  | (.interrupted, rest) => ((.error ⟨.Interrupted⟩, buffer), rest)
  | (.err k, rest) => ((.error ⟨.Other k⟩, buffer), rest)

/-- `&l[a..b]` (`&l[..b]` has `a = 0`, `&l[a..]` has `b = l.len()`): panics when `a > b` or `b > l.len()` -/
def slice (l : List UInt8) (a b : Nat) : R (List UInt8) :=
  if a ≤ b ∧ b ≤ l.length then .ok ((l.take b).drop a) else .panic

/-- `x as i64` for `x : u64` (two's complement reinterpretation, never panics) -/
def asI64 (x : Nat) : Int :=
  if x < 9223372036854775808 then (x : Int) else (x : Int) - 18446744073709551616

/-- unary `-` on `i64` (overflow checks on: `-i64::MIN` panics) -/
def cnegI64 (x : Int) : R Int := if x = -9223372036854775808 then .panic else .ok (-x)

/-- `x as usize` for `x : u64` on a target whose `isize::MAX` is `isizeMax` (truncates) -/
def asUsize (isizeMax x : Nat) : Nat := if x ≤ 2 * isizeMax + 1 then x else x % (2 * isizeMax + 2)

/-- `std::io::SeekFrom` -/
inductive SeekFrom where
  | Start (n : Nat)
  | End (off : Int)
  | Current (off : Int)

/-- what the operating system answers for one open file (the model's `FileEnv`, with the seek offset made a parameter) -/
structure FileSys where
  /-- does `file.stream_position()` succeed (it then returns the cursor) -/
  streamPositionOk : Bool := true
  /-- `file.seek(SeekFrom::End(off))`; on `ok p` the cursor is moved to `p`, on `err` it is left alone -/
  seekEnd : Int → SeekResult
  /-- does `MmapOptions::new().len(len).map(&file)` succeed -/
  mapOk : Nat → Bool
  /-- `file.rewind()`: `none` = success (cursor := 0), `some kind` = the error (cursor left alone) -/
  rewindErr : Option String := none
  /-- `isize::MAX` of the target -/
  isizeMax : Nat := 2 ^ 63 - 1

/-- an open `std::fs::File`: the file-system behaviour, the bytes a mapping shows, what ordinary reads starting at a given
cursor deliver (the model's `OpenFile`), and **the cursor** -/
structure File where
  sys : FileSys
  contents : List UInt8
  readerAt : Nat → List ReadEvent
  cursor : Nat

/-- `&file` used as `impl Read`: ordinary reads start at the current cursor -/
def File.reader (f : File) : Reader := f.readerAt f.cursor

/-- `file.stream_position()` -/
def File.stream_position (f : File) : IoResult Nat :=
  if f.sys.streamPositionOk then .ok f.cursor else .error ⟨.Other "stream_position"⟩

/-- `file.seek(pos)`; only `SeekFrom::End` is modelled (anything else counts as a failure of the proof obligation) -/
def File.seek (f : File) : SeekFrom → R (IoResult Nat × File)
  | .End off =>
    match f.sys.seekEnd off with
    | .ok p => .ok (.ok p, { f with cursor := p })
    | .err => .ok (.error ⟨.Other "seek"⟩, f)
  | _ => .panic

/-- `file.rewind()` -/
def File.rewind (f : File) : IoResult Unit × File :=
  match f.sys.rewindErr with
  | none => (.ok (), { f with cursor := 0 })
  | some k => (.error ⟨.Other k⟩, f)

/-- `memmap2::Mmap`: `&mmap` derefs to `bytes` -/
structure Mmap where
  len : Nat
  bytes : List UInt8

/-- `memmap2::MmapOptions` -/
structure MmapOptions where
  len : Option Nat

/-- `MmapOptions::new()` -/
def MmapOptions.new : MmapOptions := ⟨none⟩

/-- `mmap_options.len(n)` -/
def MmapOptions.setLen (o : MmapOptions) (n : Nat) : MmapOptions := { o with len := some n }

/-- `mmap_options.map(&*file)`; mapping without an explicit length is not modelled (counts as a failure of the proof
obligation).  The cursor is not moved. -/
def MmapOptions.map (o : MmapOptions) (f : File) : R (IoResult Mmap) :=
  match o.len with
  | none => .panic
  | some n => .ok (if f.sys.mapOk n then .ok ⟨n, f.contents.take n⟩ else .error ⟨.Other "mmap"⟩)
'''

# ------------------------------------------------------------------------------------------------
# block structure of a Rust function body


def hide_strings(text):
    """string literals may contain brackets / semicolons; none of the translated statements needs their content"""
    return re.sub(r'"(?:[^"\\]|\\.)*"', '"_"', text)


def skip_ws(t, i):
    while i < len(t) and t[i].isspace():
        i += 1
    return i


def scan(t, i, stops, braces=True):
    """index of the first occurrence at bracket depth 0 of one of the strings in `stops`, from i (len(t) if none);
    with braces=False a `{` at depth 0 is not entered (it is typically one of the stops)"""
    depth = 0
    n = len(t)
    while i < n:
        if depth == 0:
            for s in stops:
                if t.startswith(s, i):
                    return i
        ch = t[i]
        if ch in "([" or (ch == "{" and braces):
            depth += 1
        elif ch in ")]" or (ch == "}" and braces):
            depth -= 1
            if depth < 0:
                raise Broken("unbalanced brackets")
        i += 1
    return n


def split2(s, op):
    """split s at the first occurrence of `op` at bracket depth 0, or None"""
    k = scan(s, 0, [op])
    return None if k >= len(s) else (s[:k], s[k + len(op):])


def parse_block(t):
    """nodes: ('loop', nodes) | ('match', scrutinee, [(pattern, guard|None, nodes)]) | ('if', cond, nodes, nodes|None) |
    ('stmt', text) | ('tail', text)"""
    out = []
    i, n = 0, len(t)
    while True:
        i = skip_ws(t, i)
        if i >= n:
            return out
        m = re.match(r"#\[[^\]]*\]", t[i:])
        if m:
            i += m.end()
            continue
        m = re.match(r"loop\s*\{", t[i:])
        if m:
            b0 = i + m.end() - 1
            b1 = X.match_brace(t, b0)
            out.append(("loop", parse_block(t[b0 + 1:b1 - 1])))
            i = b1
            continue
        m = re.match(r"match\b", t[i:])
        if m:
            b0 = scan(t, i + m.end(), ["{"], braces=False)
            if b0 >= n:
                raise Broken("match without a body")
            b1 = X.match_brace(t, b0)
            out.append(("match", t[i + m.end():b0].strip(), parse_arms(t[b0 + 1:b1 - 1])))
            i = b1
            continue
        m = re.match(r"if\b", t[i:])
        if m:
            node, i = parse_if(t, i)
            out.append(node)
            continue
        m = re.match(r"(while|for)\b", t[i:])
        if m:
            raise Broken(f"`{m.group(1)}` loops are not supported here")
        k = scan(t, i, [";"])
        if k >= n:
            out.append(("tail", t[i:].strip()))
            return out
        out.append(("stmt", t[i:k].strip()))
        i = k + 1


def parse_if(t, i):
    m = re.match(r"if\b", t[i:])
    b0 = scan(t, i + m.end(), ["{"], braces=False)
    while b0 < len(t) and re.search(r"\bunsafe\s*$", t[:b0]):      # `if let P = unsafe { .. } {`
        b0 = scan(t, X.match_brace(t, b0), ["{"], braces=False)
    if b0 >= len(t):
        raise Broken("if without a block")
    b1 = X.match_brace(t, b0)
    cond = t[i + m.end():b0].strip()
    then = parse_block(t[b0 + 1:b1 - 1])
    els = None
    j = skip_ws(t, b1)
    m2 = re.match(r"else\b", t[j:])
    if m2:
        j = skip_ws(t, j + m2.end())
        if t.startswith("{", j):
            e1 = X.match_brace(t, j)
            els = parse_block(t[j + 1:e1 - 1])
            b1 = e1
        elif re.match(r"if\b", t[j:]):
            node, b1 = parse_if(t, j)
            els = [node]
        else:
            raise Broken("else without a block")
    return ("if", cond, then, els), b1


def parse_arms(t):
    arms = []
    i, n = 0, len(t)
    while True:
        i = skip_ws(t, i)
        if i >= n:
            return arms
        k = scan(t, i, ["=>"])
        if k >= n:
            raise Broken(f"match arm without `=>`: {t[i:].strip()!r}")
        head = t[i:k].strip()
        g = scan(head, 0, [" if ", "\nif "])
        pat, guard = (head[:g].strip(), head[g + 4:].strip()) if g < len(head) else (head, None)
        j = skip_ws(t, k + 2)
        if t.startswith("{", j):
            e = X.match_brace(t, j)
            body = parse_block(t[j + 1:e - 1])
            j = skip_ws(t, e)
            if t.startswith(",", j):
                j += 1
        else:
            e = scan(t, j, [","])
            body = parse_block(t[j:e])
            j = e + 1
        arms.append((pat, guard, body))
        i = j


# ------------------------------------------------------------------------------------------------
# the translator

LEAN_TY = {"u64": "Nat", "usize": "Nat", "lit": "Nat", "i64": "Int", "isize": "Nat", "bytes": "List UInt8", "Reader": "Reader",
           "File": "File", "Hasher": "H", "Mmap": "Mmap", "MmapOptions": "MmapOptions", "IoError": "IoError",
           "SeekFrom": "SeekFrom", "OutputReader": "Rd", "unit": "Unit"}
UINT = ("u64", "usize", "lit")


def lean_ty(t):
    if isinstance(t, tuple):
        k, a = t
        return f"(IoResult {lean_ty(a)})" if k == "Result" else f"(Option {lean_ty(a)})"
    return LEAN_TY[t]


class Ctx:
    """variables in scope (in declaration order) with their types, and the enclosing loop (if any)"""

    def __init__(self, types=None, loop=None):
        self.types = dict(types or {})
        self.loop = loop

    def copy(self):
        return Ctx(self.types, self.loop)

    def bind(self, name, ty):
        c = self.copy()
        c.types.pop(name, None)
        c.types[name] = ty
        return c

    def the(self, ty):
        vs = [v for v, t in self.types.items() if t == ty]
        if len(vs) != 1:
            raise Broken(f"need exactly one variable of type {ty} in scope, found {vs}")
        return vs[0]


class IoTr:
    """cfg: name; generics (Lean binders before the colon); gargs (their names, passed on to loops / callees);
    ret(res, ctx) -> the Lean term returned for the Rust value `res`; self_name (what `self` is called); fuel (Lean term, for `loop`);
    ok_self (may `Ok(self)` / `self` be returned: the state is carried separately)"""

    def __init__(self, cfg, consts):
        self.cfg, self.consts = cfg, consts
        self.defs = []
        self.notes = []
        self.n = 0
        self.nloops = 0
        self.njoins = 0

    def fresh(self, p="t"):
        self.n += 1
        return f"{p}{self.n}"

    def note(self, s):
        if s not in self.notes:
            self.notes.append(s)

    def norm(self, t):
        t = t.strip()
        if self.cfg.get("self_name"):
            t = re.sub(r"\bself\b", self.cfg["self_name"], t)
        return t

    # ---- integer expressions ------------------------------------------------------------------
    def iexpr(self, e, ctx, lines, pad):
        """(term, type) for the integer expression AST e; checked operations are appended to `lines`"""
        c = X.const_eval(e)
        if c is not None:
            if c < 0:
                raise Broken("negative literal")
            return str(c), "lit"
        k = e[0]
        if k == "paren":
            return self.iexpr(e[1], ctx, lines, pad)
        if k == "var":
            v = e[1]
            if v in self.consts:
                return str(self.consts[v][0]), self.consts[v][1]
            if v == "isize::MAX":
                return f"{ctx.the('File')}.sys.isizeMax", "isize"
            if v in ctx.types and ctx.types[v] in ("u64", "usize", "i64", "lit"):
                return v, ctx.types[v]
            raise Broken(f"`{v}` is not an integer in scope")
        if k == "cast":
            a, ta = self.iexpr(e[1], ctx, lines, pad)
            ty = e[2]
            if ty == "u64" and ta in ("u64", "usize", "lit", "isize"):
                return a, "u64"       # widening / same width / non-negative constant
            if ty == "usize" and ta in ("usize", "lit"):
                return a, "usize"
            if ty == "usize" and ta == "u64":
                return f"(asUsize {ctx.the('File')}.sys.isizeMax {a})", "usize"
            if ty == "i64" and ta in ("u64", "lit"):
                return f"(asI64 {a})", "i64"
            raise Broken(f"cast from {ta} to {ty} is not supported")
        if k == "neg":
            a, ta = self.iexpr(e[1], ctx, lines, pad)
            if ta != "i64":
                raise Broken(f"unary minus on {ta}")
            v = self.fresh()
            lines.append(f"{pad}let {v} ← cnegI64 {a}")
            return v, "i64"
        if k == "bin":
            (a, ta), (b, tb) = self.iexpr(e[2], ctx, lines, pad), self.iexpr(e[3], ctx, lines, pad)
            ty = self.unify(ta, tb)
            if ty not in UINT:
                raise Broken(f"arithmetic on {ty}")
            f = {"+": "Arith.cadd", "-": "Arith.csub", "*": "Arith.cmul", "/": "Arith.cdiv", "%": "Arith.cmod"}.get(e[1])
            if not f:
                raise Broken(f"operator {e[1]}")
            v = self.fresh()
            lines.append(f"{pad}let {v} ← {f} {a} {b}")
            return v, ty
        if k == "method" and e[2] == "len" and not e[3] and e[1][0] == "var" and ctx.types.get(e[1][1]) == "bytes":
            return f"{e[1][1]}.length", "usize"
        raise Broken(f"integer expression not understood: {e}")

    def unify(self, ta, tb):
        if ta == "lit":
            return tb
        if tb == "lit" or ta == tb:
            return ta
        raise Broken(f"mixed integer types {ta} / {tb}")

    def itext(self, s, ctx, lines, pad):
        try:
            e = X.parse_expr(s)
        except Exception as ex:
            raise Broken(f"expression {s!r}: {ex}")
        return self.iexpr(e, ctx, lines, pad)

    # ---- other values ---------------------------------------------------------------------------
    def vexpr(self, s, ctx, lines, pad):
        """(term, type) of a value expression: a byte slice, a constructor, an integer"""
        s = s.strip()
        m = re.match(r"^\[\s*0\s*;\s*(\d[\d_]*)\s*\]$", s)
        if m:
            return f"(List.replicate {int(m.group(1).replace('_', ''))} (0 : UInt8))", "bytes"
        if re.match(r"^memmap2::MmapOptions::new\(\s*\)$", s):
            return "MmapOptions.new", "MmapOptions"
        m = re.match(r"^(?:std::)?io::SeekFrom::(Start|End|Current)\((.*)\)$", s, re.S)
        if m:
            a, ta = self.itext(m.group(2), ctx, lines, pad)
            want = "u64" if m.group(1) == "Start" else "i64"
            if self.unify(ta, want) != want:
                raise Broken(f"SeekFrom::{m.group(1)} of a {ta}")
            return f"(SeekFrom.{m.group(1)} {a})", "SeekFrom"
        if s.startswith("&") or (s in ctx.types and ctx.types[s] in ("bytes", "Mmap")):
            return self.bytes_expr(s, ctx, lines, pad), "bytes"
        if s in ctx.types:
            return s, ctx.types[s]
        return self.itext(s, ctx, lines, pad)

    def bytes_expr(self, s, ctx, lines, pad):
        """`&buf[a..b]`, `&buf[..b]`, `&buf[a..]`, `&buf`, `buf`, `&mmap`: the bytes; range checks are appended to `lines`"""
        s = re.sub(r"^&\s*(mut\s+)?", "", s.strip())
        m = re.match(r"^(\w+)\s*\[(.*)\]$", s, re.S)
        if m:
            v, rng = m.group(1), m.group(2)
            if ctx.types.get(v) != "bytes":
                raise Broken(f"slice of `{v}`, which is not a byte buffer in scope")
            if "..=" in rng:
                raise Broken("inclusive ranges are not supported")
            parts = split2(rng, "..")
            if parts is None:
                raise Broken(f"index expression `{s}` is not a range")
            lo, hi = parts[0].strip(), parts[1].strip()
            a = self.itext(lo, ctx, lines, pad) if lo else ("0", "lit")
            b = self.itext(hi, ctx, lines, pad) if hi else (f"{v}.length", "usize")
            for _, t in (a, b):
                if t not in ("usize", "lit"):
                    raise Broken(f"slice bound of type {t}")
            r = self.fresh()
            lines.append(f"{pad}let {r} ← slice {v} {a[0]} {b[0]}")
            return r
        if s in ctx.types and ctx.types[s] == "bytes":
            return s
        if s in ctx.types and ctx.types[s] == "Mmap":
            return f"{s}.bytes"
        raise Broken(f"byte-slice expression not understood: {s!r}")

    # ---- conditions -----------------------------------------------------------------------------
    def cond(self, s, ctx, lines, pad):
        s = s.strip()
        while s.startswith("(") and X.match_brace(s, 0, "(", ")") == len(s):
            s = s[1:-1].strip()
        for op, lean in (("||", "∨"), ("&&", "∧")):
            parts = split2(s, op)
            if parts:
                a = self.cond(parts[0], ctx, lines, pad)
                extra = []
                b = self.cond(parts[1], ctx, extra, pad)
                if extra:
                    raise Broken(f"`{op}` whose right operand can panic (short-circuit evaluation is not represented)")
                return f"({a} {lean} {b})"
        if re.match(r"^cfg!\(\s*debug_assertions\s*\)$", s):
            return "debug_assertions = true"
        if s.startswith("!"):
            return f"¬ ({self.cond(s[1:], ctx, lines, pad)})"
        m = re.match(r"^(\w+)\.kind\(\)\s*(==|!=)\s*(?:std::)?io::ErrorKind::(\w+)$", s)
        if m:
            if ctx.types.get(m.group(1)) != "IoError":
                raise Broken(f"`{m.group(1)}.kind()` on a non-error")
            kind = "ErrorKind.Interrupted" if m.group(3) == "Interrupted" else f'ErrorKind.Other "{m.group(3)}"'
            return f"{m.group(1)}.kind {'=' if m.group(2) == '==' else '≠'} {kind}"
        m = re.match(r"^(\w+)\.is_empty\(\)$", s)
        if m and ctx.types.get(m.group(1)) == "bytes":
            return f"{m.group(1)}.isEmpty = true"
        for op, lean in ((">=", "≥"), ("<=", "≤"), ("==", "="), ("!=", "≠"), (">", ">"), ("<", "<")):
            parts = X.split_top(s, op)
            if parts:
                (a, ta), (b, tb) = self.itext(parts[0], ctx, lines, pad), self.itext(parts[1], ctx, lines, pad)
                self.unify(ta if ta != "isize" else "u64", tb if tb != "isize" else "u64")
                return f"{a} {lean} {b}"
        raise Broken(f"condition not understood: {s!r}")

    # ---- calls with effects: (lines, result variable, result type, new ctx) ---------------------
    def effect(self, s, ctx, pad):
        s = s.strip()
        m = re.match(r"^unsafe\s*\{(.*)\}$", s, re.S)
        if m:
            s = m.group(1).strip()
        r = self.fresh("r")

        def ty(v):
            return ctx.types.get(v)
        m = re.match(r"^(\w+)\.read\(\s*&mut\s+(\w+)\s*\)$", s)
        if m and ty(m.group(1)) == "Reader" and ty(m.group(2)) == "bytes":
            rd, buf = m.groups()
            return [f"{pad}let (({r}, {buf}), {rd}) := Reader.read {rd} {buf}"], r, ("Result", "usize"), ctx
        m = re.match(r"^(\w+)\.stream_position\(\s*\)$", s)
        if m and ty(m.group(1)) == "File":
            return [f"{pad}let {r} := File.stream_position {m.group(1)}"], r, ("Result", "u64"), ctx
        m = re.match(r"^(\w+)\.seek\(\s*(\w+)\s*\)$", s)
        if m and ty(m.group(1)) == "File" and ty(m.group(2)) == "SeekFrom":
            f = m.group(1)
            return [f"{pad}let ({r}, {f}) ← File.seek {f} {m.group(2)}"], r, ("Result", "u64"), ctx
        m = re.match(r"^(\w+)\.rewind\(\s*\)$", s)
        if m and ty(m.group(1)) == "File":
            f = m.group(1)
            return [f"{pad}let ({r}, {f}) := File.rewind {f}"], r, ("Result", "unit"), ctx
        m = re.match(r"^(\w+)\.map\(\s*&\s*\*\s*(\w+)\s*\)$", s)
        if m and ty(m.group(1)) == "MmapOptions" and ty(m.group(2)) == "File":
            return [f"{pad}let {r} ← MmapOptions.map {m.group(1)} {m.group(2)}"], r, ("Result", "Mmap"), ctx
        m = re.match(r"^io::maybe_mmap_file\(\s*&mut\s+(\w+)\s*\)$", s)
        if m and ty(m.group(1)) == "File" and "maybe_mmap_file" in self.cfg.get("callees", ()):
            f = m.group(1)
            return [f"{pad}let ({r}, {f}) ← maybe_mmap_file debug_assertions {f}"], r, ("Result", ("Option", "Mmap")), ctx
        m = re.match(r"^io::copy_wide\(\s*(&?\s*\w+)\s*,\s*(\w+)\s*\)$", s)
        if m and "copy_wide" in self.cfg.get("callees", ()):
            a, h = re.sub(r"\s+", "", m.group(1)), m.group(2)
            if ty(h) != "Hasher":
                raise Broken(f"copy_wide: second argument `{h}` is not the hasher")
            if a.startswith("&") and ty(a[1:]) == "File":
                return [f"{pad}let ({h}, {r}, _) ← copy_wide update (File.reader {a[1:]}) {h}"], r, ("Result", "u64"), ctx
            if ty(a) == "Reader":
                return [f"{pad}let ({h}, {r}, {a}) ← copy_wide update {a} {h}"], r, ("Result", "u64"), ctx
            raise Broken(f"copy_wide: first argument `{a}` is neither a reader nor `&file`")
        m = re.match(r"^std::fs::File::open\(\s*(\w+)\.as_ref\(\s*\)\s*\)$", s)
        if m and m.group(1) == self.cfg.get("path_param"):
            return [f"{pad}let {r} := opened"], r, ("Result", "File"), ctx
        return None

    def is_effect(self, s, ctx):
        n = self.n
        try:
            return self.effect(self.norm(s), ctx, "") is not None
        finally:
            self.n = n

    # ---- returning ------------------------------------------------------------------------------
    def value(self, s, ctx, lines, pad):
        """Lean term for the Rust value `s` in return position"""
        s = s.strip()
        m = re.match(r"^(Ok|Err|Some)\((.*)\)$", s, re.S)
        if m and X.match_brace(s, len(m.group(1)), "(", ")") == len(s):
            inner = self.value(m.group(2), ctx, lines, pad)
            return {"Ok": f".ok {inner}", "Err": f".error {inner}", "Some": f"(some {inner})"}[m.group(1)]
        if s == "None":
            return "none"
        if s == "()":
            return "()"
        m = re.match(r"^(\w+)\.into\(\)$", s)
        if m and ctx.types.get(m.group(1)) == "IoError":
            return m.group(1)        # From<io::Error> for io::Error is the identity
        m = re.match(r"^(?:(?:std::)?io::Error::from\(\s*)?(?:std::)?io::ErrorKind::(\w+)(?:\s*\)|\.into\(\))$", s)
        if m:                        # an io::Error made from a kind
            kind = "ErrorKind.Interrupted" if m.group(1) == "Interrupted" else f'ErrorKind.Other "{m.group(1)}"'
            return f"(⟨{kind}⟩ : IoError)"
        if s == self.cfg.get("self_name") and self.cfg.get("ok_self"):
            return "()"              # `&mut Self`: the state is returned separately
        if s in ctx.types and ctx.types[s] in ("IoError", "Mmap"):
            return s
        a, ta = self.itext(s, ctx, lines, pad)
        return a if re.match(r"^[\w.]+$", a) else f"({a})"

    def ret(self, s, ctx, pad):
        lines = []
        v = self.value(s, ctx, lines, pad)
        return lines + [f"{pad}pure {self.cfg['ret'](v, ctx)}"]

    # ---- patterns -------------------------------------------------------------------------------
    def cascade(self, sv, sty, arms, fallback, ctx, pad, rest):
        """`match sv { arms }` (arms tried in source order; `fallback` is what happens when none matches - None for a `match`,
        which must be exhaustive).  Every arm body falls through to `rest`."""
        if not isinstance(sty, tuple):
            raise Broken(f"match / if let on a value of type {sty}")
        kind, inner = sty
        ctors = [("Ok", ".ok", inner), ("Err", ".error", "IoError")] if kind == "Result" else [("Some", "some", inner), ("None", "none", None)]
        lines = [f"{pad}match {sv} with"]
        for cname, lc, cty in ctors:
            if cty is None:
                v = None
                lines.append(f"{pad}| {lc} => do")
            else:
                v = self.fresh("v")
                lines.append(f"{pad}| {lc} {v} => do")
            lines += self.chain(cname, v, cty, arms, fallback, ctx, pad + "  ", rest)
        return lines

    def chain(self, cname, v, cty, arms, fallback, ctx, pad, rest):
        if not arms:
            if fallback is None:
                raise Broken(f"match is not exhaustive for `{cname}`")
            return fallback(ctx, pad)
        (pat, guard, body), more = arms[0], arms[1:]
        pat = pat.strip()
        bind, test = None, None
        if pat == "_":
            pass
        else:
            m = re.match(r"^(\w+)\s*(?:\((.*)\))?$", pat, re.S)
            if not m or m.group(1) not in ("Ok", "Err", "Some", "None"):
                raise Broken(f"pattern not understood: `{pat}`")
            if (m.group(1) in ("Ok", "Err")) != (cname in ("Ok", "Err")):
                raise Broken(f"pattern `{pat}` does not fit the type of the scrutinee")
            if m.group(1) != cname:
                return self.chain(cname, v, cty, more, fallback, ctx, pad, rest)
            sub = (m.group(2) or "").strip()
            if (cty is None) != (m.group(2) is None):
                raise Broken(f"pattern `{pat}` has the wrong shape")
            if cty is not None:
                if sub == "_" or (sub == "()" and cty == "unit"):
                    pass
                elif re.match(r"^\d[\d_]*$", sub):
                    if cty not in UINT:
                        raise Broken(f"literal pattern `{pat}` on a {cty}")
                    test = f"{v} = {int(sub.replace('_', ''))}"
                else:
                    mm = re.match(r"^(?:mut\s+)?([a-z_]\w*)$", sub)
                    if not mm:
                        raise Broken(f"pattern not understood: `{pat}`")
                    bind = mm.group(1)
                    if bind in ctx.types:
                        raise Broken(f"pattern variable `{bind}` shadows a variable in scope")
        lines = []
        actx = ctx
        if bind:
            lines.append(f"{pad}let {bind} := {v}")
            actx = ctx.bind(bind, cty)
        tests = [test] if test else []
        if guard:
            g = self.cond(guard, actx, lines, pad)
            tests.append(g)
        if not tests:
            return lines + self.tr(body, actx, rest, pad)
        c = tests[0] if len(tests) == 1 else "(" + " ∧ ".join(tests) + ")"
        return (lines + [f"{pad}if {c} then do"] + self.tr(body, actx, rest, pad + "  ") + [f"{pad}else do"] +
                self.chain(cname, v, cty, more, fallback, ctx, pad + "  ", rest))

    def scrutinee(self, s, ctx, pad, rest_of):
        """evaluate the scrutinee `s` (a call with effects, optionally followed by `?`, or a variable); calls
        rest_of(variable, type, ctx, pad) for the code that uses it"""
        s = self.norm(s)
        q = s.endswith("?")
        if q:
            s = s[:-1].strip()
        eff = self.effect(s, ctx, pad)
        if eff is None:
            if not q and s in ctx.types and isinstance(ctx.types[s], tuple):
                return rest_of(s, ctx.types[s], ctx, pad)
            raise Broken(f"call not understood: `{s}`")
        lines, r, rty, ctx = eff
        if not q:
            return lines + rest_of(r, rty, ctx, pad)
        if rty[0] != "Result":
            raise Broken("`?` on a non-Result")
        v, e = self.fresh("v"), self.fresh("e")
        return (lines + [f"{pad}match {r} with", f"{pad}| .error {e} => do"] +
                [f"{pad}  pure {self.cfg['ret']('.error ' + e, ctx)}", f"{pad}| .ok {v} => do"] +
                rest_of(v, rty[1], ctx, pad + "  "))

    # ---- statements -----------------------------------------------------------------------------
    def tr(self, nodes, ctx, k, pad, top=False):
        """lines for `nodes` followed by the continuation k(ctx, pad)"""
        if not nodes:
            return k(ctx, pad)
        node, more = nodes[0], nodes[1:]

        def rest(c, p):
            return self.tr(more, c, k, p, top)
        kind = node[0]
        if kind == "loop":
            return self.loop(node[1], ctx, rest, pad)
        if kind in ("if", "match") and ctx.loop is None and len(more) >= 3:
            # would the continuation be inlined more than once?  then make it a definition of its own (a join point)
            saved = (self.n, self.nloops, list(self.defs), list(self.notes))
            calls = [0]

            def counting(c, p):
                calls[0] += 1
                return rest(c, p)
            lines = self.branch(node, ctx, counting, pad)
            if calls[0] <= 1:
                return lines
            self.n, self.nloops, self.defs, self.notes = saved
            self.njoins += 1
            jname = f"{self.cfg['name']}_k{self.njoins}"
            vs = list(ctx.types)
            jl = self.tr(more, ctx, k, "  ", top)
            sig = " ".join(f"({v} : {lean_ty(ctx.types[v])})" for v in vs)
            self.defs.append("\n".join([f"/-- the rest of `{self.cfg['name']}` from `{self.first_words(more[0])}` on -/",
                                        f"def {jname} {self.cfg['generics']} {sig} : R {self.cfg['ret_type']} := do"] + jl + [""]))

            def join(c, p):
                for v in vs:
                    if c.types.get(v) != ctx.types[v] and not (c.types.get(v) in UINT and ctx.types[v] in UINT):
                        raise Broken(f"`{v}` changes type in a branch")
                return [f"{p}{jname} {self.cfg.get('gargs', '')} " + " ".join(vs)]
            return self.branch(node, ctx, join, pad)
        if kind in ("if", "match"):
            return self.branch(node, ctx, rest, pad)
        t = self.norm(node[1])
        if kind == "tail":
            if t == "continue" or t == "break" or t.startswith("return"):
                return self.jump(t, ctx, pad)
            if top:
                if more:
                    raise Broken("statements after the tail expression")
                return self.ret(t, ctx, pad)
            raise Broken(f"block ends in the expression `{t}`, whose value would be discarded or used as the block's value")
        return self.stmt(t, ctx, rest, pad)

    def first_words(self, node):
        t = node[1] if isinstance(node[1], str) else node[0]
        t = re.sub(r"\s+", " ", (node[0] + " " + t) if node[0] in ("if", "match") else t)
        return t if len(t) <= 60 else t[:57] + "..."

    def branch(self, node, ctx, rest, pad):
        kind = node[0]
        if kind == "match":
            return self.scrutinee(node[1], ctx, pad, lambda v, ty, c, p: self.cascade(v, ty, node[2], None, c, p, rest))
        if kind == "if":
            cond, then, els = node[1], node[2], node[3]
            m = re.match(r"^let\s+(.+?)\s*=(?!=)\s*(.+)$", cond, re.S)
            if m:
                fb = (lambda c, p: self.tr(els or [], c, rest, p))
                return self.scrutinee(m.group(2), ctx, pad,
                                      lambda v, ty, c, p: self.cascade(v, ty, [(m.group(1), None, then)], fb, c, p, rest))
            lines = []
            c = self.cond(self.norm(cond), ctx, lines, pad)
            return (lines + [f"{pad}if {c} then do"] + self.tr(then, ctx, rest, pad + "  ") + [f"{pad}else do"] +
                    self.tr(els or [], ctx, rest, pad + "  "))
        raise Broken(f"not a branching statement: {kind}")

    def jump(self, t, ctx, pad):
        if t == "continue":
            if not ctx.loop:
                raise Broken("continue outside a loop")
            return ctx.loop["continue"](ctx, pad)
        if t == "break":
            if not ctx.loop:
                raise Broken("break outside a loop")
            return ctx.loop["break"](ctx, pad)
        m = re.match(r"^return\b\s*(.*)$", t, re.S)
        return self.ret(m.group(1) or "()", ctx, pad)

    def loop(self, body, ctx, rest, pad):
        self.nloops += 1
        lname = self.cfg["name"] + "_loop" + (str(self.nloops) if self.nloops > 1 else "")
        vs = list(ctx.types)
        gargs = self.cfg.get("gargs", "")
        call = f"{lname} {gargs} fuel " + " ".join(vs)

        def again(c, p):
            for v in vs:
                if c.types.get(v) != ctx.types[v] and not (c.types.get(v) in UINT and ctx.types[v] in UINT):
                    raise Broken(f"`{v}` changes type inside the loop")
            return [f"{p}{call}"]
        inner = Ctx({v: ("u64" if t == "lit" else t) for v, t in ctx.types.items()},
                    {"continue": again, "break": lambda c, p: rest(Ctx(c.types, ctx.loop), p)})
        bl = self.tr(body, inner, again, "    ")
        d = [f"def {lname} {self.cfg['generics']} : Nat → " + " → ".join(lean_ty(ctx.types[v]) for v in vs) + f" → R {self.cfg['ret_type']}",
             "  | 0, " + ", ".join("_" for _ in vs) + " => .panic   -- out of fuel",
             "  | fuel + 1, " + ", ".join(vs) + " => do"] + bl + [""]
        self.defs.append("\n".join(d))
        return [f"{pad}{lname} {gargs} ({self.cfg['fuel']}) " + " ".join(vs)]

    def stmt(self, t, ctx, rest, pad):
        if re.match(r"^use\s+[\w:]+$", t):
            self.note(f"`{t};` (an import: no run-time effect)")
            return rest(ctx, pad)
        if re.match(r"^debug_assert(_eq|_ne)?!\(", t):
            self.note(f"`{t};` dropped (debug assertion)")
            return rest(ctx, pad)
        if t == "continue" or t == "break" or re.match(r"^return\b", t):
            return self.jump(t, ctx, pad)
        lines = []
        m = re.match(r"^assert_eq!\((.*)\)$", t, re.S)
        if m:
            args = X.split_args(m.group(1))
            if len(args) < 2:
                raise Broken("assert_eq! with fewer than two arguments")
            (a, ta), (b, tb) = self.itext(args[0], ctx, lines, pad), self.itext(args[1], ctx, lines, pad)
            self.unify(ta, tb)
            return lines + [f"{pad}Arith.assertEq {a} {b}"] + rest(ctx, pad)
        m = re.match(r"^assert!\((.*)\)$", t, re.S)
        if m:
            c = self.cond(X.split_args(m.group(1))[0], ctx, lines, pad)
            return lines + [f"{pad}Arith.assertTrue (decide ({c}))"] + rest(ctx, pad)
        # let PATTERN = EXPR else { .. }
        m = re.match(r"^let\s+(\w+\s*\(.*?\))\s*=(?!=)\s*(.+?)\s*else\s*\{(.*)\}$", t, re.S)
        if m:
            pat, ex, els = m.group(1), m.group(2), parse_block(m.group(3))

            def diverges(c, p):
                return self.tr(els, c, lambda c2, p2: (_ for _ in ()).throw(Broken("the else block of `let .. else` does not diverge")), p)
            # the bound variable stays in scope for the rest of the block: the arm body is empty and falls through to `rest`
            return self.scrutinee(ex, ctx, pad, lambda v, ty, c, p: self.cascade(v, ty, [(pat, None, [])], diverges, c, p, rest))
        m = re.match(r"^let\s+(?:mut\s+)?(\w+)\s*(?::\s*([\w:<>\[\]; ]+?))?\s*=(?!=)\s*(.+)$", t, re.S)
        if m:
            name, decl, ex = m.group(1), m.group(2), m.group(3).strip()
            if ex.endswith("?") or self.is_effect(ex, ctx):

                def bindit(v, ty, c, p):
                    return [f"{p}let {name} := {v}"] + rest(c.bind(name, ty), p)
                return self.scrutinee(ex, ctx, pad, bindit)
            v, ty = self.vexpr(ex, ctx, lines, pad)
            if decl:
                d = decl.strip()
                if d in ("u64", "usize", "i64"):
                    ty = self.unify(ty, d)
                else:
                    raise Broken(f"type annotation `{d}`")
            ann = f" : {lean_ty(ty)}" if ty in ("lit", "bytes") else ""
            return lines + [f"{pad}let {name}{ann} := {v}"] + rest(ctx.bind(name, ty), pad)
        m = re.match(r"^(\w+)\s*([-+*])=\s*(.+)$", t, re.S)
        if m and ctx.types.get(m.group(1)) in UINT:
            v, ty = self.itext(m.group(3), ctx, lines, pad)
            nty = self.unify(ctx.types[m.group(1)], ty)
            f = {"+": "Arith.cadd", "-": "Arith.csub", "*": "Arith.cmul"}[m.group(2)]
            return lines + [f"{pad}let {m.group(1)} ← {f} {m.group(1)} {v}"] + rest(self.retype(ctx, m.group(1), nty), pad)
        m = re.match(r"^(\w+)\s*=(?!=)\s*(.+)$", t, re.S)
        if m and m.group(1) in ctx.types:
            v, ty = self.vexpr(m.group(2), ctx, lines, pad)
            old = ctx.types[m.group(1)]
            if old in UINT and ty in UINT:
                ty = self.unify(old, ty)
            elif old != ty:
                raise Broken(f"assignment of a {ty} to `{m.group(1)}` : {old}")
            return lines + [f"{pad}let {m.group(1)} := {v}"] + rest(self.retype(ctx, m.group(1), ty), pad)
        # hasher.update(bytes) / hasher.update_rayon(bytes)
        m = re.match(r"^(\w+)\.(update|update_rayon)\((.*)\)$", t, re.S)
        if m and ctx.types.get(m.group(1)) == "Hasher":
            if m.group(2) not in self.cfg.get("updaters", ("update",)):
                raise Broken(f"`{m.group(2)}` is not available in this function")
            b = self.bytes_expr(m.group(3), ctx, lines, pad)
            return lines + [f"{pad}let {m.group(1)} := {m.group(2)} {m.group(1)} {b}"] + rest(ctx, pad)
        # reader.fill(buf)
        m = re.match(r"^(\w+)\.fill\(\s*(\w+)\s*\)$", t)
        if m and ctx.types.get(m.group(1)) == "OutputReader" and ctx.types.get(m.group(2)) == "bytes":
            r, b = m.groups()
            return [f"{pad}let ({r}, {b}) := fill {r} {b}"] + rest(ctx, pad)
        # mmap_options.len(n)
        m = re.match(r"^(\w+)\.len\((.+)\)$", t, re.S)
        if m and ctx.types.get(m.group(1)) == "MmapOptions":
            v, ty = self.itext(m.group(2), ctx, lines, pad)
            if self.unify(ty, "usize") != "usize":
                raise Broken("MmapOptions::len of a non-usize")
            return lines + [f"{pad}let {m.group(1)} := MmapOptions.setLen {m.group(1)} {v}"] + rest(ctx, pad)
        # a call with effects whose value is dropped (`file.rewind()?;`)
        if t.endswith("?"):
            return self.scrutinee(t, ctx, pad, lambda v, ty, c, p: rest(c, p))
        raise Broken(f"statement not understood: `{t}`")

    def retype(self, ctx, name, ty):
        c = ctx.copy()
        c.types[name] = ty
        return c


# ------------------------------------------------------------------------------------------------
# the functions


def check_params(fn, params, expected):
    got = [re.sub(r"\s+", " ", p.strip()) for p in X.split_args(params) if p.strip()]
    if got != expected:
        raise X.TranslationBroken(A, f"{fn}: parameters are {got}, expected {expected}")


def find_fn_in(rel, outer_re, fn_re, what):
    """find_fn restricted to the item (impl block) whose header matches outer_re"""
    text = X.src(rel)
    m = re.search(outer_re, text)
    if not m:
        raise X.TranslationBroken(A, f"{what}: /{outer_re}/ not found in {rel}")
    b0 = text.index("{", m.end() - 1)
    b1 = X.match_brace(text, b0)
    inner = text[b0:b1]
    mf = re.search(fn_re, inner)
    if not mf:
        raise X.TranslationBroken(A, f"{what}: function /{fn_re}/ not found inside it")
    p0 = inner.index("(", mf.start())
    p1 = X.match_brace(inner, p0, "(", ")")
    c0 = inner.index("{", p1)
    c1 = X.match_brace(inner, c0)
    X.record_span(A, rel, b0 + mf.start(), b0 + c1)
    return X.strip_comments(inner[p0 + 1:p1 - 1]), X.strip_comments(inner[c0 + 1:c1 - 1]), re.sub(r"\s+", " ", inner[p1:c0].strip())


def translate(cfg, body, ctx, consts, sig, doc):
    tr = IoTr(cfg, consts)
    try:
        nodes = parse_block(hide_strings(body))
        lines = tr.tr(nodes, ctx, lambda c, p: (_ for _ in ()).throw(Broken("the function body can end without a value")), "  ", top=True)
    except X.TranslationBroken:
        raise
    except Broken as ex:
        raise X.TranslationBroken(A, f"{cfg['name']}: {ex}")
    except Exception as ex:
        raise X.TranslationBroken(A, f"{cfg['name']}: {ex!r}")
    o = list(tr.defs)
    if tr.notes:
        doc += "  Not represented: " + "; ".join(tr.notes) + "."
    o.append(f"/-- {doc} -/")
    o.append(f"def {cfg['name']} {cfg['generics']} {sig} : R {cfg['ret_type']} := do")
    o += lines
    o.append("")
    return o


def gen_io():
    o = ["/- GENERATED by gen/ext_io.py from /repo/src/io.rs and /repo/src/lib.rs -- do not edit -/",
         "import B3.Arith", "import B3.Io.Model", "set_option linter.unusedVariables false", "namespace B3.Gen.RsIo", "open B3 B3.Io"]
    o.append(PRELUDE)
    o.append("/-! ### translated from the source, statement by statement -/\n")
    m = X.find_const(A, IO_RS, r"const\s+MINIMUM_MMAP_SIZE\s*:\s*u64\s*=\s*([^;]+);")
    mms = X.const_eval(X.parse_expr(X.strip_comments(m.group(1))))
    if mms is None:
        raise X.TranslationBroken(A, "MINIMUM_MMAP_SIZE is not a constant expression")
    consts = {"MINIMUM_MMAP_SIZE": (mms, "u64")}
    HG = "{H : Type} (update : H → List UInt8 → H)"

    # ---- src/io.rs: copy_wide
    params, body = X.find_fn(A, IO_RS, r"fn\s+copy_wide\s*\(")
    check_params("copy_wide", params, ["mut reader: impl io::Read", "hasher: &mut crate::Hasher"])
    cfg = dict(name="copy_wide", generics=HG, gargs="update", ret_type="(H × IoResult Nat × Reader)",
               ret=lambda v, c: f"({c.the('Hasher')}, {v}, {c.the('Reader')})", fuel="weight reader + 1")
    o += translate(cfg, body, Ctx({"reader": "Reader", "hasher": "Hasher"}), consts, "(reader : Reader) (hasher : H)",
                   "`io::copy_wide(reader, hasher)`: the hasher afterwards, the `io::Result<u64>`, the reader afterwards.  `loop` is a fuel "
                   "loop (every `read` that does not end it consumes part of the script, so `weight reader + 1` iterations suffice); "
                   "`total` is a `u64` with overflow checks.")

    # ---- src/io.rs: maybe_mmap_file
    params, body = X.find_fn(A, IO_RS, r"fn\s+maybe_mmap_file\s*\(")
    check_params("maybe_mmap_file", params, ["file: &mut File"])
    cfg = dict(name="maybe_mmap_file", generics="(debug_assertions : Bool)", gargs="debug_assertions", ret_type="(IoResult (Option Mmap) × File)",
               ret=lambda v, c: f"({v}, {c.the('File')})", fuel="0")
    o += translate(cfg, body, Ctx({"file": "File"}), consts, "(file : File)",
                   "`io::maybe_mmap_file(&mut file)`: the `io::Result<Option<Mmap>>` and the file afterwards (its cursor is what "
                   "a later `copy_wide(&file, ..)` starts reading at).  `cfg!(debug_assertions)` is the parameter; `isize::MAX` is "
                   "`file.sys.isizeMax`.")

    # ---- src/lib.rs: Hasher::update_reader / update_mmap / update_mmap_rayon
    HRET = dict(ret_type="(H × IoResult Unit)", self_name="hasher", ok_self=True)
    params, body = X.find_fn(A, LIB_RS, r"pub\s+fn\s+update_reader\s*\(")
    check_params("update_reader", params, ["&mut self", "reader: impl std::io::Read"])
    cfg = dict(HRET, name="update_reader", generics=HG, gargs="update", ret=lambda v, c: f"({c.the('Hasher')}, {v})", fuel="0",
               callees=("copy_wide",))
    o += translate(cfg, body, Ctx({"hasher": "Hasher", "reader": "Reader"}), consts, "(reader : Reader) (hasher : H)",
                   "`Hasher::update_reader(&mut self, reader)`: the hasher afterwards and the `io::Result` (`Ok(self)` is `.ok ()`).")
    OP = " (debug_assertions : Bool) (opened : IoResult File)"
    for name, ups, gen, ga in (("update_mmap", ("update",), HG + OP, "update debug_assertions opened"),
                               ("update_mmap_rayon", ("update", "update_rayon"), "{H : Type} (update update_rayon : H → List UInt8 → H)" + OP,
                                "update update_rayon debug_assertions opened")):
        params, body = X.find_fn(A, LIB_RS, rf"pub\s+fn\s+{name}\s*\(")
        check_params(name, params, ["&mut self", "path: impl AsRef<std::path::Path>"])
        cfg = dict(HRET, name=name, generics=gen, gargs=ga, ret=lambda v, c: f"({c.the('Hasher')}, {v})", fuel="0",
                   callees=("copy_wide", "maybe_mmap_file"), updaters=ups, path_param="path")
        o += translate(cfg, body, Ctx({"hasher": "Hasher"}), consts, "(hasher : H)",
                       f"`Hasher::{name}(&mut self, path)`; `opened` is the result of `std::fs::File::open(path.as_ref())`.")

    # ---- src/lib.rs: impl std::io::Write for Hasher
    W = r"impl\s+std::io::Write\s+for\s+Hasher\s*\{"
    params, body, rty = find_fn_in(LIB_RS, W, r"fn\s+write\s*\(", "impl std::io::Write for Hasher")
    check_params("write", params, ["&mut self", "input: &[u8]"])
    cfg = dict(name="write", generics=HG, gargs="update", ret_type="(H × IoResult Nat)", self_name="hasher",
               ret=lambda v, c: f"({c.the('Hasher')}, {v})", fuel="0")
    o += translate(cfg, body, Ctx({"hasher": "Hasher", "input": "bytes"}), consts, "(hasher : H) (input : List UInt8)",
                   "`<Hasher as std::io::Write>::write(&mut self, input)`")
    params, body, rty = find_fn_in(LIB_RS, W, r"fn\s+flush\s*\(", "impl std::io::Write for Hasher")
    check_params("flush", params, ["&mut self"])
    cfg = dict(name="flush", generics="{H : Type}", gargs="", ret_type="(H × IoResult Unit)", self_name="hasher",
               ret=lambda v, c: f"({c.the('Hasher')}, {v})", fuel="0")
    o += translate(cfg, body, Ctx({"hasher": "Hasher"}), consts, "(hasher : H)", "`<Hasher as std::io::Write>::flush(&mut self)`")

    # ---- src/lib.rs: impl std::io::Read for OutputReader
    RD = r"impl\s+std::io::Read\s+for\s+OutputReader\s*\{"
    params, body, rty = find_fn_in(LIB_RS, RD, r"fn\s+read\s*\(", "impl std::io::Read for OutputReader")
    check_params("read", params, ["&mut self", "buf: &mut [u8]"])
    cfg = dict(name="read", generics="{Rd : Type} (fill : Rd → List UInt8 → Rd × List UInt8)", gargs="fill", ret_type="(Rd × List UInt8 × IoResult Nat)",
               self_name="output_reader", ret=lambda v, c: f"({c.the('OutputReader')}, {c.the('bytes')}, {v})", fuel="0")
    o += translate(cfg, body, Ctx({"output_reader": "OutputReader", "buf": "bytes"}), consts, "(output_reader : Rd) (buf : List UInt8)",
                   "`<OutputReader as std::io::Read>::read(&mut self, buf)`: the reader afterwards, the buffer afterwards, the result.  "
                   "`fill r buf` is `OutputReader::fill` (the reader and the buffer afterwards).")
    o.append("end B3.Gen.RsIo")
    return "\n".join(o) + "\n"


ARTEFACTS = [("RsIo.lean", A, gen_io)]
