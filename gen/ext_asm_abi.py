#!/usr/bin/env python3
"""
G26-asm-abi: assembler front end for the calling-convention clause of C07.

For every global routine of every hand-written assembly file
    c/blake3_{sse2,sse41,avx2,avx512}_x86-64_{unix.S, windows_gnu.S, windows_msvc.asm}
extract the control-flow graph (basic blocks; named, numeric `1:`/`2b`/`3f` and MASM `@@:`/`@F`/`@B` labels; fall-through, `jmp`,
`jcc`, `ret`) and abstract every instruction to what matters for the ABI (constructors of `B3.Asm.Instr`, lean/B3/Asm/Machine.lean):

    push r / pop r                                   -> .push / .pop
    sub rsp,k / add rsp,k / mov r64,r64 / lea r,[r+k] -> .lea dst base k
    and rsp, -2^n                                    -> .andRsp 2^n
    <any instruction> [rsp+k] / [rbp+k], ...         -> .store base k width (some r | none)      (destination in the frame)
    mov r64, qword ptr [rsp|rbp+k]; (v)mov{dqa,dqu,aps,ups,...} xmmN, xmmword ptr [rsp|rbp+k]    -> .load
    std / cld                                        -> .std / .cld
    everything else                                  -> .havoc [every register it may write]      (`.havoc []` = writes none)

Everything is read from the source text, instruction by instruction, in order; nothing is assumed about what a prologue "should" look
like.  An instruction whose mnemonic or operand shape is not in the tables below raises TranslationBroken (never skipped).  `call`, indirect
jumps, indexed stores into the frame, a frame address escaping into a general register other than rbp, code inside preprocessor
conditionals and jumps that leave the routine are refused.  Cosmetic variation (whitespace, comments, upper/lower case of mnemonics,
registers and `PTR` keywords, number radix) does not change the output.

Mask registers k0-k7 and the upper halves of ymm/zmm registers are not part of any calling convention's callee-saved set and are not
represented; `ymmN`/`zmmN` as a destination is reported as a write of `Reg.x N`.
"""
import os
import re

import extract as X

ART = "G26-asm-abi"
ISAS = ["sse2", "sse41", "avx2", "avx512"]
FLAVOURS = [("unix", "unix.S", "sysv"), ("wgnu", "windows_gnu.S", "win64"), ("msvc", "windows_msvc.asm", "win64")]
if os.environ.get("ASMABI_NO_MSVC"):
    FLAVOURS = FLAVOURS[:2]


def broken(where, what):
    raise X.TranslationBroken(ART, f"{where}: {what}")


# ------------------------------------------------------------------------------------------------
# registers

GPR64 = ["rax", "rcx", "rdx", "rbx", "rsp", "rbp", "rsi", "rdi"] + [f"r{i}" for i in range(8, 16)]
GPR = {}  # name -> (number, bits)
for _i, _n in enumerate(GPR64):
    GPR[_n] = (_i, 64)
for _i, _n in enumerate(["eax", "ecx", "edx", "ebx", "esp", "ebp", "esi", "edi"]):
    GPR[_n] = (_i, 32)
for _i, _n in enumerate(["ax", "cx", "dx", "bx", "sp", "bp", "si", "di"]):
    GPR[_n] = (_i, 16)
for _i, _n in enumerate(["al", "cl", "dl", "bl", "spl", "bpl", "sil", "dil"]):
    GPR[_n] = (_i, 8)
for _i, _n in enumerate(["ah", "ch", "dh", "bh"]):
    GPR[_n] = (_i, 8)
for _i in range(8, 16):
    GPR[f"r{_i}d"] = (_i, 32)
    GPR[f"r{_i}w"] = (_i, 16)
    GPR[f"r{_i}b"] = (_i, 8)


class Op:
    """operand: kind in reg (g/x/k), mem, imm, sym"""

    def __init__(self, kind, **kw):
        self.kind = kind
        self.__dict__.update(kw)


def parse_reg(tok):
    t = tok.lower()
    if t in GPR:
        n, bits = GPR[t]
        return Op("reg", cls="g", n=n, bits=bits)
    m = re.fullmatch(r"([xyz])mm(\d+)", t)
    if m and int(m.group(2)) < 32:
        return Op("reg", cls="x", n=int(m.group(2)), bits={"x": 128, "y": 256, "z": 512}[m.group(1)])
    m = re.fullmatch(r"k([0-7])", t)
    if m:
        return Op("reg", cls="k", n=int(m.group(1)), bits=64)
    return None


def parse_num(tok, where):
    t = tok.strip().lower().replace("_", "")
    if re.fullmatch(r"0x[0-9a-f]+", t):
        return int(t, 16)
    if re.fullmatch(r"[0-9][0-9a-f]*h", t):
        return int(t[:-1], 16)
    if re.fullmatch(r"[0-9]+", t):
        return int(t, 10)
    return None


SIZES = {"byte": 1, "word": 2, "dword": 4, "qword": 8, "xmmword": 16, "ymmword": 32, "zmmword": 64}


def parse_mem(text, where):
    """[ term (+|-) term ... ] ; term = reg | num | num*num | num*reg | reg*num | symbol"""
    inner = text.strip()[1:-1]
    toks = re.findall(r"[+-]|[^+-]+", inner.replace(" ", "").replace("\t", ""))
    sign = 1
    base = None
    index = None
    disp = 0
    sym = False
    expect_term = True
    for t in toks:
        if t in "+-":
            if expect_term and t == "-":
                sign = -sign
                continue
            if expect_term:
                continue
            sign = 1 if t == "+" else -1
            expect_term = True
            continue
        expect_term = False
        factors = t.split("*")
        regs = [parse_reg(f) for f in factors]
        if len(factors) == 1:
            r = regs[0]
            if r is not None:
                if r.cls != "g" or r.bits != 64 or sign < 0:
                    broken(where, f"address register {t!r} in {text!r}")
                if base is None:
                    base = r.n
                elif index is None:
                    index = r.n
                else:
                    broken(where, f"three registers in address {text!r}")
            else:
                v = parse_num(t, where)
                if v is not None:
                    disp += sign * v
                elif t.lower() == "rip" or re.fullmatch(r"[A-Za-z_][A-Za-z_0-9]*", t):
                    sym = True  # rip-relative / absolute symbol
                else:
                    broken(where, f"address term {t!r} in {text!r}")
        elif len(factors) == 2:
            a, b = regs
            if a is None and b is None:
                va, vb = parse_num(factors[0], where), parse_num(factors[1], where)
                if va is None or vb is None:
                    broken(where, f"address term {t!r} in {text!r}")
                disp += sign * va * vb
            else:
                r = a if a is not None else b
                sc = parse_num(factors[1] if a is not None else factors[0], where)
                if r.cls != "g" or r.bits != 64 or sc not in (1, 2, 4, 8) or sign < 0 or index is not None:
                    broken(where, f"scaled index {t!r} in {text!r}")
                index = r.n
        else:
            broken(where, f"address term {t!r} in {text!r}")
        sign = 1
    return Op("mem", base=base, index=index, disp=disp, sym=sym, size=None)


def split_operands(s):
    out, depth, cur = [], 0, ""
    for ch in s:
        if ch in "[{(":
            depth += 1
        elif ch in "]})":
            depth -= 1
        if ch == "," and depth == 0:
            out.append(cur.strip())
            cur = ""
        else:
            cur += ch
    if cur.strip():
        out.append(cur.strip())
    return out


def parse_operand(text, where):
    t = text.strip()
    # AVX-512 decorations: {k1} {z} {1to16}
    masked = False
    while True:
        m = re.search(r"\{\s*([^}]*)\}\s*$", t)
        if not m:
            break
        d = m.group(1).strip().lower()
        if re.fullmatch(r"k[0-7]", d) or d == "z":
            masked = True
        elif re.fullmatch(r"1to(2|4|8|16)", d):
            pass
        else:
            broken(where, f"decoration {{{d}}} in {text!r}")
        t = t[:m.start()].strip()
    r = parse_reg(t)
    if r is not None:
        r.masked = masked
        return r
    m = re.fullmatch(r"(?:([A-Za-z]+)\s+ptr\s*)?(\[.*\])", t, flags=re.I)
    if m:
        op = parse_mem(m.group(2), where)
        if m.group(1):
            sz = SIZES.get(m.group(1).lower())
            if sz is None:
                broken(where, f"size keyword {m.group(1)!r}")
            op.size = sz
        op.masked = masked
        return op
    prod = [parse_num(f, where) for f in t.split("*")]
    if all(v is not None for v in prod):
        v = 1
        for f in prod:
            v *= f
        return Op("imm", value=v)
    if re.fullmatch(r"[A-Za-z_@.$][A-Za-z_0-9@.$]*", t) or re.fullmatch(r"\d+[fb]", t):
        return Op("sym", name=t)
    broken(where, f"operand {text!r}")


# ------------------------------------------------------------------------------------------------
# mnemonic tables.  Intel syntax: the FIRST operand is the (only) destination for every mnemonic in DEST_FIRST.

NO_WRITE = {"cmp", "test", "prefetcht0", "prefetcht1", "prefetcht2", "prefetchnta", "nop", "endbr64", "_cet_endbr", "vzeroupper",
            "lfence", "mfence", "sfence", "pause", "ptest", "vptest", "comiss", "ucomiss", "bt"}
# vzeroupper zeroes bits 128.. of ymm0-ymm15 and leaves the low 128 bits (the part Win64 preserves) alone.

GPR_DEST_FIRST = {"mov", "movzx", "movsx", "movsxd", "add", "sub", "and", "or", "xor", "shl", "shr", "sar", "sal", "rol", "ror",
                  "neg", "not", "dec", "inc", "lea", "adc", "sbb", "bswap", "popcnt", "lzcnt", "tzcnt", "bsf", "bsr", "andn",
                  "shlx", "shrx", "sarx", "rorx", "bzhi", "pext", "pdep"}
CMOV = {"cmov" + c for c in ["a", "ae", "b", "be", "c", "e", "g", "ge", "l", "le", "na", "nae", "nb", "nbe", "nc", "ne", "ng", "nge",
                             "nl", "nle", "no", "np", "ns", "nz", "o", "p", "pe", "po", "s", "z"]}
SETCC = {"set" + c[4:] for c in CMOV}
JCC = {"j" + c[4:] for c in CMOV} | {"jrcxz", "jecxz"}

SSE_DEST_FIRST = {
    "movdqa", "movdqu", "movaps", "movups", "movapd", "movupd", "movd", "movq", "movss", "movsd", "movlps", "movhps", "movlhps", "movhlps",
    "paddd", "paddq", "psubd", "pxor", "por", "pand", "pandn", "psrld", "pslld", "psrlq", "psllq", "psrldq", "pslldq", "pshufd", "pshuflw",
    "pshufhw", "pshufb", "shufps", "shufpd", "punpcklqdq", "punpckhqdq", "punpckldq", "punpckhdq", "punpcklwd", "punpckhwd", "unpcklps",
    "unpckhps", "unpcklpd", "unpckhpd", "pcmpgtd", "pcmpeqd", "pblendw", "pblendvb", "blendvps", "blendps", "pinsrd", "pinsrq", "pextrd",
    "pextrq", "insertps", "palignr", "xorps", "andps", "orps",
}
AVX_DEST_FIRST = {
    "vmovdqa", "vmovdqu", "vmovaps", "vmovups", "vmovapd", "vmovupd", "vmovd", "vmovq", "vmovdqa32", "vmovdqu32", "vmovdqa64", "vmovdqu64",
    "vmovdqu8", "vmovdqu16",
    "vpaddd", "vpaddq", "vpsubd", "vpxor", "vpxord", "vpxorq", "vpor", "vpord", "vpand", "vpandd", "vpandn", "vpsrld", "vpslld", "vpsrlq",
    "vpsllq", "vprord", "vprold", "vprorq", "vpshufd", "vpshufb", "vpshuflw", "vpshufhw", "vshufps", "vshufpd", "vshufi32x4", "vshufi64x2",
    "vshuff32x4", "vpunpcklqdq", "vpunpckhqdq", "vpunpckldq", "vpunpckhdq", "vunpcklps", "vunpckhps", "vunpcklpd", "vunpckhpd",
    "vpbroadcastd", "vpbroadcastq", "vbroadcasti128", "vbroadcasti32x4", "vbroadcastf128", "vbroadcastss", "vinsertf128", "vinserti128",
    "vinserti64x4", "vinserti32x4", "vinsertf64x4", "vextracti128", "vextractf128", "vextracti32x4", "vextracti64x4", "vperm2f128",
    "vperm2i128", "vpermq", "vpermd", "vpermt2d", "vpermi2d", "vpermt2q", "vpermi2q", "vpblendd", "vpblendmd", "vpblendmq", "vblendps",
    "vblendvps", "vpblendvb", "vpblendw", "vpinsrd", "vpinsrq", "vpextrd", "vpextrq", "vpcmpgtd", "vpcmpeqd", "vpcmpltud", "vpcmpud",
    "vpcmpd", "vpcmpeqq", "vpternlogd", "vpalignr", "valignd", "kmovw", "kmovb", "kmovd", "kmovq", "knotw", "korw", "kandw", "kxorw",
    "kxnorw", "kshiftlw", "kshiftrw",
}
DEST_FIRST = GPR_DEST_FIRST | CMOV | SETCC | SSE_DEST_FIRST | AVX_DEST_FIRST

# full-width register moves: (mnemonic) -> bytes moved when both sides are the whole register
FULL_MOVES_X = {"movdqa", "movdqu", "movaps", "movups", "movapd", "movupd", "vmovdqa", "vmovdqu", "vmovaps", "vmovups", "vmovapd", "vmovupd",
                "vmovdqa32", "vmovdqu32", "vmovdqa64", "vmovdqu64", "vmovdqu8", "vmovdqu16"}

REFUSED = {"call", "syscall", "sysenter", "int", "int3", "iret", "iretq", "leave", "enter", "pushf", "pushfq", "popf", "popfq", "xchg",
           "cmpxchg", "xadd", "mul", "imul", "div", "idiv", "cpuid", "xgetbv", "rdtsc", "movsb", "movsw", "movsd_string", "movsq", "stosb",
           "stosw", "stosd", "stosq", "lodsb", "lodsq", "scasb", "cmpsb", "rep", "repe", "repne", "lock", "loop", "hlt", "ud2"}


def reg_lean(cls, n):
    return f".{cls} {n}"


class Abstractor:
    def __init__(self, where):
        self.where = where

    def written(self, op):
        """register written when `op` is a register destination"""
        if op.cls == "k":
            return []
        return [(op.cls, op.n)]

    def frame_base(self, m):
        """'rsp'/'rbp' number if the address is frame-relative, None otherwise"""
        if m.index in (4, 5) and m.base not in (4, 5):
            broken(self.where, "rsp/rbp used as index register")
        if m.base in (4, 5):
            return m.base
        return None

    def abstract(self, mn, ops):
        w = self.where
        mn = mn.lower()
        if mn in REFUSED:
            broken(w, f"instruction `{mn}` is not allowed in a leaf routine model (call / implicit operands)")
        if mn == "std":
            return ".std"
        if mn == "cld":
            return ".cld"
        if mn == "push" or mn == "pop":
            if len(ops) != 1 or ops[0].kind != "reg" or ops[0].cls != "g" or ops[0].bits != 64:
                broken(w, f"`{mn}` of something that is not a 64-bit general register")
            return f".{mn} ({reg_lean('g', ops[0].n)})"
        if mn in NO_WRITE:
            return ".havoc []"
        if mn not in DEST_FIRST:
            broken(w, f"unknown mnemonic `{mn}`")
        if not ops:
            broken(w, f"`{mn}` without operands")
        dst = ops[0]
        for o in ops:
            if o.kind == "mem" and self.frame_base(o) is None and o.base is None and o.index is None and not o.sym:
                broken(w, "absolute numeric address")
        if dst.kind == "reg":
            # --- writes to rsp ---------------------------------------------------------------
            if dst.cls == "g" and dst.n == 4:
                if dst.bits == 64 and mn in ("sub", "add") and len(ops) == 2 and ops[1].kind == "imm":
                    k = ops[1].value
                    return f".lea rsp rsp ({-k if mn == 'sub' else k})"
                if dst.bits == 64 and mn == "and" and len(ops) == 2 and ops[1].kind == "imm":
                    al = (1 << 64) - ops[1].value
                    if ops[1].value < (1 << 63) or al & (al - 1) != 0:
                        broken(w, f"`and rsp, {ops[1].value:#x}` is not an alignment mask")
                    return f".andRsp {al}"
                if dst.bits == 64 and mn == "mov" and len(ops) == 2 and ops[1].kind == "reg" and ops[1].cls == "g" and ops[1].bits == 64:
                    return f".lea rsp ({reg_lean('g', ops[1].n)}) 0"
                if dst.bits == 64 and mn == "lea" and len(ops) == 2 and ops[1].kind == "mem" and ops[1].base is not None \
                        and ops[1].index is None and not ops[1].sym:
                    return f".lea rsp ({reg_lean('g', ops[1].base)}) ({ops[1].disp})"
                return ".havoc [.g 4]"   # any other write to rsp: the checker rejects it
            # --- 64-bit register copies and address computations ----------------------------------
            if mn == "mov" and len(ops) == 2 and dst.cls == "g" and dst.bits == 64 and ops[1].kind == "reg" and ops[1].cls == "g" \
                    and ops[1].bits == 64:
                if ops[1].n == 4 and dst.n != 5:
                    broken(w, "frame address escapes into a general register (mov r, rsp with r != rbp)")
                return f".lea ({reg_lean('g', dst.n)}) ({reg_lean('g', ops[1].n)}) 0"
            if mn == "lea":
                if len(ops) != 2 or ops[1].kind != "mem":
                    broken(w, "`lea` operand shape")
                m = ops[1]
                if 4 in (m.base, m.index):
                    broken(w, "frame address escapes into a general register (lea r, [rsp..])")
                if dst.cls == "g" and dst.bits == 64 and m.base is not None and m.index is None and not m.sym and m.base != 5:
                    return f".lea ({reg_lean('g', dst.n)}) ({reg_lean('g', m.base)}) ({m.disp})"
                if 5 in (m.base, m.index):
                    # rbp may hold the frame pointer: refuse rather than lose track of a frame address
                    broken(w, "frame address may escape into a general register (lea r, [rbp..])")
                return f".havoc [{reg_lean('g', dst.n)}]"
            # --- full-width loads from the frame ------------------------------------------------
            if len(ops) == 2 and ops[1].kind == "mem" and not getattr(dst, "masked", False):
                m = ops[1]
                fb = self.frame_base(m)
                if fb is not None and m.index is None and not m.sym:
                    if mn == "mov" and dst.cls == "g" and dst.bits == 64 and m.size in (None, 8):
                        return f".load ({reg_lean('g', dst.n)}) ({reg_lean('g', fb)}) ({m.disp})"
                    if mn in FULL_MOVES_X and dst.cls == "x" and dst.bits == 128 and m.size in (None, 16):
                        return f".load ({reg_lean('x', dst.n)}) ({reg_lean('g', fb)}) ({m.disp})"
            regs = self.written(dst)
            return ".havoc [" + ", ".join(reg_lean(c, n) for c, n in regs) + "]"
        if dst.kind == "mem":
            fb = self.frame_base(dst)
            if fb is None:
                return ".havoc []"   # store through another pointer: outside the routine's own frame (stated assumption)
            if dst.index is not None or dst.sym:
                broken(w, "indexed store into the stack frame")
            src = ops[1] if len(ops) >= 2 else None
            width = dst.size
            if width is None:
                if src is not None and src.kind == "reg" and src.cls in ("g", "x"):
                    width = src.bits // 8
                else:
                    broken(w, "store into the frame of unknown width")
            srcreg = "none"
            if src is not None and src.kind == "reg" and len(ops) == 2 and not getattr(dst, "masked", False) \
                    and not getattr(src, "masked", False):
                if mn == "mov" and src.cls == "g" and src.bits == 64 and width == 8:
                    srcreg = f"(some ({reg_lean('g', src.n)}))"
                elif mn in FULL_MOVES_X and src.cls == "x" and src.bits == 128 and width == 16:
                    srcreg = f"(some ({reg_lean('x', src.n)}))"
            if src is not None and src.kind == "reg" and src.cls in ("g", "x") and mn in (FULL_MOVES_X | {"mov"}) \
                    and src.bits // 8 != width:
                broken(w, f"store width {width} does not match register width {src.bits // 8}")
            return f".store ({reg_lean('g', fb)}) ({dst.disp}) {width} {srcreg}"
        broken(w, f"destination operand of `{mn}` is neither register nor memory")


# ------------------------------------------------------------------------------------------------
# reading the files

class Line:
    def __init__(self, no, kind, **kw):
        self.no = no
        self.kind = kind  # label | instr | end
        self.__dict__.update(kw)


def read_gnu(rel):
    """-> (globals, [(routine names, first line, last line, [Line])])"""
    text = X.src(rel)
    text = re.sub(r"/\*.*?\*/", lambda m: re.sub(r"[^\n]", " ", m.group(0)), text, flags=re.S)
    globals_ = set()
    routines = []
    cur = None
    in_text = False
    cond_depth = 0
    pending_names = []
    for no, raw in enumerate(text.split("\n"), 1):
        line = raw.split("//")[0].strip()
        if not line:
            continue
        if line.startswith("#"):
            d = line[1:].strip().split()[0] if line[1:].strip() else ""
            if d in ("if", "ifdef", "ifndef"):
                cond_depth += 1
            elif d == "endif":
                cond_depth -= 1
            elif d in ("else", "elif", "include", "define", "undef", "error", "pragma"):
                pass
            else:
                broken(f"{rel}:{no}", f"preprocessor line {line!r}")
            continue
        line = re.sub(r"\s+#.*$", "", line)
        m = re.match(r"^([A-Za-z_.$][A-Za-z_0-9.$]*|\d+)\s*:\s*(.*)$", line)
        label = None
        if m:
            label, line = m.group(1), m.group(2).strip()
        if label is not None:
            if in_text and label in globals_:
                if cur is not None and cur["lines"]:
                    routines.append(cur)
                    cur = None
                if cur is None:
                    cur = {"names": [], "first": no, "lines": []}
                cur["names"].append(label)
            elif in_text:
                if cur is None:
                    broken(f"{rel}:{no}", f"label {label} outside any routine")
                cur["lines"].append(Line(no, "label", name=label))
            # labels in data sections are ignored
        if not line:
            continue
        if line.startswith("."):
            parts = line.split()
            d = parts[0].lower()
            if d == ".global" or d == ".globl":
                globals_.add(parts[1])
            elif d in (".text",) or (d == ".section" and parts[1].split(",")[0] == ".text"):
                in_text = True
            elif d in (".section", ".static_data", ".data", ".rodata"):
                if cur is not None:
                    routines.append(cur)
                    cur = None
                in_text = False
            elif d in (".intel_syntax",):
                if parts[1:] != ["noprefix"]:
                    broken(f"{rel}:{no}", "only `.intel_syntax noprefix` is understood")
            elif d in (".p2align", ".align", ".balign"):
                pass  # padding: nops when executed
            elif d in (".long", ".byte", ".quad", ".word", ".short", ".int", ".zero", ".ascii", ".asciz"):
                if in_text:
                    broken(f"{rel}:{no}", "data directive inside the text section")
            elif d in (".type", ".size", ".hidden", ".ident", ".file", ".cfi_startproc", ".cfi_endproc", ".private_extern"):
                pass
            else:
                broken(f"{rel}:{no}", f"directive {d}")
            continue
        if not in_text:
            broken(f"{rel}:{no}", f"instruction outside the text section: {line!r}")
        if cond_depth != 0:
            broken(f"{rel}:{no}", "instruction inside a preprocessor conditional")
        if cur is None:
            broken(f"{rel}:{no}", "instruction before the first global label")
        parts = line.split(None, 1)
        cur["lines"].append(Line(no, "instr", mn=parts[0], rest=parts[1] if len(parts) > 1 else ""))
        cur["last"] = no
    if cur is not None:
        routines.append(cur)
    return routines


def read_masm(rel):
    text = X.src(rel)
    routines = []
    cur = None
    open_procs = []
    in_code = False
    for no, raw in enumerate(text.split("\n"), 1):
        line = raw.split(";")[0].strip()
        if not line:
            continue
        up = line.upper()
        toks = line.split()
        if len(toks) >= 2 and toks[1].upper() == "SEGMENT":
            in_code = "'CODE'" in up
            continue
        if len(toks) >= 2 and toks[1].upper() == "ENDS":
            in_code = False
            continue
        if toks[0].upper() in ("PUBLIC", "ALIGN", "END", "OPTION", "EXTERN", "INCLUDE") or toks[0].startswith("."):
            if toks[0].startswith(".") and toks[0].lower() not in (".code", ".data", ".const"):
                broken(f"{rel}:{no}", f"directive {toks[0]}")
            continue
        if len(toks) == 2 and toks[1].upper() == "PROC":
            if not in_code:
                broken(f"{rel}:{no}", "PROC outside the code segment")
            if cur is not None and cur["lines"]:
                broken(f"{rel}:{no}", "nested PROC after instructions")
            if cur is None:
                cur = {"names": [], "first": no, "lines": []}
            cur["names"].append(toks[0])
            open_procs.append(toks[0])
            continue
        if len(toks) == 2 and toks[1].upper() == "ENDP":
            if toks[0] not in open_procs:
                broken(f"{rel}:{no}", f"ENDP of {toks[0]} without PROC")
            open_procs.remove(toks[0])
            if not open_procs:
                cur["last"] = no
                routines.append(cur)
                cur = None
            continue
        m = re.match(r"^([A-Za-z_$?][A-Za-z_0-9$?@]*|@@)\s*:\s*(.*)$", line)
        if m:
            if in_code:
                if cur is None:
                    broken(f"{rel}:{no}", f"label {m.group(1)} outside any PROC")
                cur["lines"].append(Line(no, "label", name=m.group(1)))
            line = m.group(2).strip()
            if not line:
                continue
            toks = line.split()
        if not in_code:
            if toks[0].lower() in ("dd", "db", "dw", "dq") or (len(toks) > 1 and toks[1].lower() in ("dd", "db", "dw", "dq")):
                continue
            broken(f"{rel}:{no}", f"line outside the code segment: {line!r}")
        if toks[0].lower() in ("dd", "db", "dw", "dq"):
            broken(f"{rel}:{no}", "data directive inside the code segment")
        if cur is None:
            broken(f"{rel}:{no}", "instruction outside any PROC")
        parts = line.split(None, 1)
        cur["lines"].append(Line(no, "instr", mn=parts[0], rest=parts[1] if len(parts) > 1 else ""))
    if cur is not None or open_procs:
        broken(rel, "PROC without ENDP")
    return routines


# ------------------------------------------------------------------------------------------------
# control-flow graph

def build_routine(rel, rt, masm):
    name = sorted(rt["names"], key=lambda s: (s.startswith("_"), s))[0]
    lines = rt["lines"]
    if not lines:
        broken(f"{rel}:{name}", "empty routine")
    # label positions (index into `lines`)
    defs = {}
    for i, ln in enumerate(lines):
        if ln.kind == "label":
            defs.setdefault(ln.name, []).append(i)
    for nm, pos in defs.items():
        if len(pos) > 1 and not (nm.isdigit() or nm == "@@"):
            broken(f"{rel}:{name}", f"label {nm} defined twice")

    def resolve(i, target, where):
        t = target.strip()
        m = re.fullmatch(r"(\d+)([fb])", t)
        if m and not masm:
            pos = defs.get(m.group(1), [])
            cands = [p for p in pos if (p > i if m.group(2) == "f" else p < i)]
            if not cands:
                broken(where, f"jump target {t} is outside the routine")
            return min(cands) if m.group(2) == "f" else max(cands)
        if masm and t.upper() in ("@F", "@B"):
            pos = defs.get("@@", [])
            cands = [p for p in pos if (p > i if t.upper() == "@F" else p < i)]
            if not cands:
                broken(where, f"jump target {t} is outside the routine")
            return min(cands) if t.upper() == "@F" else max(cands)
        if t in defs and not t.isdigit():
            return defs[t][0]
        broken(where, f"jump target {t!r} is not a label of this routine")

    # leaders
    instrs = []  # (line index, Line)
    for i, ln in enumerate(lines):
        if ln.kind == "instr":
            instrs.append((i, ln))
    if not instrs:
        broken(f"{rel}:{name}", "no instructions")
    # block = maximal run of instructions; split at labels and after control transfers
    blocks = []      # dicts: start_index(in lines), body [str], term, line
    label_block = {}  # line index of a label -> block number
    cur = None
    pending_labels = []

    def close(term):
        nonlocal cur
        cur["term"] = term
        blocks.append(cur)
        cur = None

    for i, ln in enumerate(lines):
        where = f"{rel}:{ln.no}"
        if ln.kind == "label":
            if cur is not None:
                close(("fall",))
            pending_labels.append(i)
            continue
        if cur is None:
            cur = {"body": [], "line": ln.no}
            for p in pending_labels:
                label_block[p] = len(blocks)
            pending_labels = []
        mn = ln.mn.lower()
        if mn == "ret" or mn == "retq":
            if ln.rest.strip():
                broken(where, "`ret` with an operand")
            close(("ret",))
        elif mn == "jmp":
            ops = split_operands(ln.rest)
            if len(ops) != 1 or parse_reg(ops[0]) is not None or "[" in ops[0]:
                broken(where, "indirect jump")
            close(("jmp", i, ops[0]))
        elif mn in JCC:
            ops = split_operands(ln.rest)
            if len(ops) != 1 or parse_reg(ops[0]) is not None or "[" in ops[0]:
                broken(where, "conditional jump operand")
            close(("jcc", i, ops[0]))
        else:
            ops = [parse_operand(o, where) for o in split_operands(ln.rest)]
            cur["body"].append(Abstractor(where).abstract(mn, ops))
    if cur is not None or pending_labels:
        broken(f"{rel}:{name}", "control can fall off the end of the routine")
    # resolve
    out = []
    for b, blk in enumerate(blocks):
        t = blk["term"]
        if t[0] == "ret":
            term = ".ret"
        elif t[0] == "fall":
            if b + 1 >= len(blocks):
                broken(f"{rel}:{name}", "control can fall off the end of the routine")
            term = f".fall {b + 1}"
        else:
            tgt = label_block[resolve(t[1], t[2], f"{rel}:{lines[t[1]].no}")]
            if t[0] == "jmp":
                term = f".jmp {tgt}"
            else:
                if b + 1 >= len(blocks):
                    broken(f"{rel}:{name}", "conditional jump is the last instruction of the routine")
                term = f".jcc {tgt} {b + 1}"
        out.append((blk["line"], blk["body"], term))
    return name, out


def files():
    for isa in ISAS:
        for short, suffix, conv in FLAVOURS:
            yield isa, short, conv, f"c/blake3_{isa}_x86-64_{suffix}"


def part_module(isa, short):
    return "AsmAbi" + isa.capitalize() + short.capitalize()


_parts = {}


def translate_file(isa, short, conv, rel):
    """-> [(symbol, all names, Lean identifier, first line, last line, blocks)]"""
    key = (isa, short)
    if key in _parts:
        return _parts[key]
    if not os.path.exists(os.path.join(X.REPO, rel)):
        broken(rel, "file not found")
    masm = rel.endswith(".asm")
    routines = read_masm(rel) if masm else read_gnu(rel)
    if not routines:
        broken(rel, "no routines found")
    text = X.src(rel)
    line_starts = [0]
    for mm in re.finditer("\n", text):
        line_starts.append(mm.end())
    res = []
    for rt in routines:
        name, blocks = build_routine(rel, rt, masm)
        first = rt["first"]
        last = rt.get("last", rt["lines"][-1].no)
        X.record_span(ART, rel, line_starts[first - 1], line_starts[min(last, len(line_starts) - 1)])
        short_name = name.replace("blake3_", "")
        if short_name.endswith("_" + isa):
            short_name = short_name[:-len(isa) - 1]
        ident = f"{short_name}_{isa}_{short}"
        res.append((name, rt["names"], ident, first, last, blocks))
    expected = {"hash_many"} | ({"compress_in_place", "compress_xof"} if isa != "avx2" else set())
    have = {r[2][:-len(isa) - len(short) - 2] for r in res}
    if not expected <= have:
        broken(rel, f"routines {sorted(expected - have)} not found (have {sorted(have)})")
    _parts[key] = res
    return res


def gen_part(isa, short, conv, rel):
    def gen():
        res = translate_file(isa, short, conv, rel)
        out = ["import B3.Asm.Machine", ""]
        out.append(f"/-! GENERATED by gen/ext_asm_abi.py from {rel} — do not edit.")
        out.append("")
        out.append("One `B3.Asm.Routine` per global routine: basic blocks in source order (block 0 = entry), every instruction abstracted to its effect")
        out.append("on rsp / rbp / the stack frame / the registers it may write (`.havoc [..]`; `.havoc []` writes none).  (Source line spans of the")
        out.append("routines are in status.json.)  Stores through pointers other than rsp/rbp are `.havoc []`: they are assumed not to hit")
        out.append(f"the routine's own frame (see B3/Asm/Machine.lean).  Calling convention of this file: {conv}. -/")
        out.append("")
        out.append("namespace B3.Gen.AsmAbi")
        out.append("open B3.Asm")
        out.append("")
        for name, names, ident, first, last, blocks in res:
            out.append(f"/-- `{name}` ({', '.join(sorted(names))}) in {rel}; {sum(len(b[1]) for b in blocks)} instructions"
                       f" + {len(blocks)} block ends -/")
            out.append(f"def {ident} : Routine := ⟨[")
            for b, (ln, body, term) in enumerate(blocks):
                out.append(f"  -- block {b}")
                out.append("  ⟨[" + ",\n    ".join(body) + f"], {term}⟩" + ("," if b + 1 < len(blocks) else ""))
            out.append("]⟩")
            out.append("")
        out.append("end B3.Gen.AsmAbi")
        return "\n".join(out) + "\n"
    return gen


def gen_index():
    out = [f"import B3.Gen.{part_module(isa, short)}" for isa, short, conv, rel in files()]
    out.append("")
    out.append("/-! GENERATED by gen/ext_asm_abi.py — do not edit.  Table of every hand-written assembly routine: (file, symbol, calling convention,")
    out.append("abstracted routine).  `B3/Props/C07A.lean` proves `RespectsAbi` for every entry. -/")
    out.append("")
    out.append("namespace B3.Gen.AsmAbi")
    out.append("open B3.Asm")
    out.append("")
    rows = []
    for isa, short, conv, rel in files():
        for name, names, ident, first, last, blocks in translate_file(isa, short, conv, rel):
            rows.append(f"  (\"{rel}\", \"{name}\", .{conv}, {ident})")
    out.append("def all : List (String × String × Conv × Routine) := [")
    out.append(",\n".join(rows))
    out.append("]")
    out.append("")
    out.append("end B3.Gen.AsmAbi")
    return "\n".join(out) + "\n"


ARTEFACTS = [(part_module(isa, short) + ".lean", ART, gen_part(isa, short, conv, rel)) for isa, short, conv, rel in files()] \
    + [("AsmAbi.lean", ART, gen_index)]

if __name__ == "__main__":
    import sys
    for fname, art, fn in ARTEFACTS:
        text = fn()
        if len(sys.argv) > 1:
            with open(os.path.join(sys.argv[1], fname), "w") as f:
                f.write(text)
        print(fname, len(text))
