"""
G10-hash: the `Hash` conversions and comparisons of src/lib.rs  ->  lean/B3/Gen/RsHash.lean

Translated statement by statement from the source text (a small Rust lexer / parser / typed translator, below):
  impl Hash { as_bytes, from_bytes, as_slice, from_slice, to_hex, from_hex (+ inner fn hex_val) }
  impl From<[u8; OUT_LEN]> for Hash, impl From<Hash> for [u8; OUT_LEN], impl core::str::FromStr for Hash,
  impl PartialEq for Hash, impl PartialEq<[u8; OUT_LEN]> for Hash, impl PartialEq<[u8]> for Hash,
  impl fmt::Display for Hash, impl fmt::Debug for Hash, impl fmt::Display for HexError.

Target: the outcome monad of the hand-written model (B3.Hex.Model: `Outcome ε α` = ok | err | panic) and its checked
primitives (`csub/cadd/cmul` on u8, `umul/uadd` on usize, `idx`, `setIdx`, `arrayTryFrom`, `forRange`), plus a few
more primitives emitted in the preamble of the generated file.  A function whose translation needs no panicking
primitive and which does not return `Result` becomes a plain Lean function.

Anything the translator does not understand raises TranslationBroken("G10-hash", "<function>: <what>").
"""
import re
import extract as X

A = "G10-hash"
L = "src/lib.rs"


def broken(fn, what):
    raise X.TranslationBroken(A, f"{fn}: {what}")


# ------------------------------------------------------------------------------------------------
# source masking (comments and the inside of string / char literals -> spaces), used only to locate items and
# to match braces; the lexer below works on the raw text

def mask(text):
    out = list(text)
    i, n = 0, len(text)

    def blank(a, b):
        for k in range(a, b):
            if out[k] != "\n":
                out[k] = " "
    while i < n:
        c = text[i]
        if text.startswith("//", i):
            j = text.find("\n", i)
            j = n if j < 0 else j
            blank(i, j)
            i = j
        elif text.startswith("/*", i):
            j = text.find("*/", i + 2)
            j = n if j < 0 else j + 2
            blank(i, j)
            i = j
        elif c == '"':
            j = i + 1
            while j < n and text[j] != '"':
                j += 2 if text[j] == "\\" else 1
            blank(i + 1, min(j, n))
            i = j + 1
        elif c == "'":
            m = re.match(r"'(?:\\x[0-9a-fA-F]{2}|\\u\{[0-9a-fA-F]+\}|\\.|[^'\\])'", text[i:])
            if m:
                blank(i + 1, i + m.end() - 1)
                i += m.end()
            else:
                i += 1      # a lifetime
        else:
            i += 1
    return "".join(out)


# ------------------------------------------------------------------------------------------------
# lexer

TOK = re.compile(r'''
    (?P<ws>\s+|//[^\n]*|/\*.*?\*/)
  | (?P<bstr>b"(?:[^"\\]|\\.)*")
  | (?P<str>"(?:[^"\\]|\\.)*")
  | (?P<byte>b'(?:\\x[0-9a-fA-F]{2}|\\.|[^'\\])')
  | (?P<char>'(?:\\x[0-9a-fA-F]{2}|\\u\{[0-9a-fA-F]+\}|\\.|[^'\\])')
  | (?P<life>'[A-Za-z_]\w*)
  | (?P<num>0[xX][0-9a-fA-F_]+|0b[01_]+|0o[0-7_]+|\d[\d_]*)(?P<suf>u8|u16|u32|u64|u128|usize|i8|i16|i32|i64|isize)?
  | (?P<id>[A-Za-z_]\w*)
  | (?P<op>\.\.=|\.\.\.|\.\.|=>|->|::|==|!=|<=|>=|&&|\|\||<<=|>>=|<<|>>|\+=|-=|\*=|/=|%=|\^=|\|=|&=|[-+*/%^|&!<>=(){}\[\],;.:?\#@])
''', re.X | re.S)

ESC = {"n": 10, "r": 13, "t": 9, "0": 0, "\\": 92, "'": 39, '"': 34}


def unescape(body, fn):
    """bytes of the inside of a (byte) string / char literal"""
    out, i = [], 0
    while i < len(body):
        c = body[i]
        if c != "\\":
            out += list(c.encode("utf-8"))
            i += 1
        elif body[i + 1] == "x":
            out.append(int(body[i + 2:i + 4], 16))
            i += 4
        elif body[i + 1] in ESC:
            out.append(ESC[body[i + 1]])
            i += 2
        else:
            broken(fn, f"escape sequence in literal {body!r}")
    return out


def lex(text, fn):
    toks, i = [], 0
    while i < len(text):
        m = TOK.match(text, i)
        if not m:
            broken(fn, f"cannot tokenize at {text[i:i + 30]!r}")
        i = m.end()
        k = m.lastgroup if m.lastgroup != "suf" else "num"
        if m.group("ws") is not None:
            continue
        if m.group("num") is not None:
            raw = m.group("num").replace("_", "")
            toks.append(("num", (int(raw, 0) if not raw.startswith("0o") else int(raw[2:], 8), m.group("suf"), raw)))
        elif k == "bstr":
            toks.append(("bstr", unescape(m.group("bstr")[2:-1], fn)))
        elif k == "str":
            toks.append(("str", unescape(m.group("str")[1:-1], fn)))
        elif k == "byte":
            b = unescape(m.group("byte")[2:-1], fn)
            if len(b) != 1:
                broken(fn, f"byte literal {m.group('byte')}")
            toks.append(("byte", b[0]))
        elif k == "char":
            toks.append(("char", unescape(m.group("char")[1:-1], fn)))
        elif k == "life":
            toks.append(("life", m.group("life")))
        elif k == "id":
            toks.append(("id", m.group("id")))
        else:
            toks.append(("op", m.group("op")))
    return toks


# ------------------------------------------------------------------------------------------------
# parser (the subset of Rust the translated functions use, and a little more)

BINPREC = {"||": 1, "&&": 2, "==": 3, "!=": 3, "<": 3, ">": 3, "<=": 3, ">=": 3, "|": 4, "^": 5, "&": 6,
           "<<": 7, ">>": 7, "+": 8, "-": 8, "*": 9, "/": 9, "%": 9}
ASSIGN_OPS = ("=", "+=", "-=", "*=", "/=", "%=", "^=", "|=", "&=", "<<=", ">>=")
EXPR_END = {("op", x) for x in (")", "]", "}", ";", ",", "{", "=>")} | {("eof", None)}


class Parser:
    def __init__(self, toks, fn):
        self.t, self.i, self.fn = list(toks), 0, fn

    def err(self, what):
        broken(self.fn, f"parse error: {what} (at token {self.i}: {self.t[self.i:self.i + 6]})")

    def peek(self, k=0):
        return self.t[self.i + k] if self.i + k < len(self.t) else ("eof", None)

    def next(self):
        x = self.peek()
        self.i += 1
        return x

    def at(self, op, k=0):
        return self.peek(k) == ("op", op)

    def at_id(self, name, k=0):
        return self.peek(k) == ("id", name)

    def eat(self, op):
        if self.at(op):
            self.i += 1
            return True
        return False

    def eat_id(self, name):
        if self.at_id(name):
            self.i += 1
            return True
        return False

    def expect(self, op):
        if not self.eat(op):
            self.err(f"expected `{op}`")

    def ident(self):
        k, v = self.next()
        if k != "id":
            self.err("identifier expected")
        return v

    def expect_gt(self):
        if self.at(">>"):
            self.t[self.i] = ("op", ">")
            return
        if self.at(">="):
            self.t[self.i] = ("op", "=")
            return
        self.expect(">")

    def skip_attrs(self):
        """returns the list of attribute texts skipped"""
        out = []
        while self.at("#"):
            self.next()
            self.eat("!")
            if not self.at("["):
                self.err("attribute")
            depth, words = 0, []
            while True:
                k, v = self.next()
                if (k, v) == ("op", "["):
                    depth += 1
                elif (k, v) == ("op", "]"):
                    depth -= 1
                    if depth == 0:
                        break
                elif k == "eof":
                    self.err("unterminated attribute")
                words.append(str(v))
            out.append(" ".join(words))
        return out

    # -- types
    def generics(self):
        """after `<`: list of ('type', T) | ('const', expr); consumes the closing `>`"""
        out = []
        while not (self.at(">") or self.at(">>") or self.at(">=")):
            if self.peek()[0] == "life":
                self.next()
            elif self.at("{"):
                self.next()
                out.append(("const", self.expr()))
                self.expect("}")
            elif self.peek()[0] == "num":
                out.append(("const", self.primary()))
            else:
                out.append(("type", self.type_()))
            if not self.eat(","):
                break
        self.expect_gt()
        return out

    def type_(self):
        if self.eat("&") or self.eat("&&"):
            if self.peek()[0] == "life":
                self.next()
            self.eat_id("mut")
            return self.type_()
        if self.eat("("):
            if self.eat(")"):
                return ("tunit",)
            self.err("tuple types are not supported")
        if self.eat("["):
            t = self.type_()
            if self.eat(";"):
                n = self.expr()
                self.expect("]")
                return ("tarray", t, n)
            self.expect("]")
            return ("tslice", t)
        if self.eat_id("impl") or self.eat_id("dyn"):
            return ("timpl", self.type_())
        segs = [self.ident()]
        gen = []
        while True:
            if self.at("::") and self.peek(1)[0] == "id":
                self.next()
                segs.append(self.ident())
            elif self.at("::") and self.at("<", 1):
                self.next()
                self.next()
                gen = self.generics()
            elif self.at("<"):
                self.next()
                gen = self.generics()
            else:
                break
        return ("tpath", "::".join(segs), gen)

    # -- patterns
    def pattern(self):
        alts = [self.pattern1()]
        while self.eat("|"):
            alts.append(self.pattern1())
        return alts[0] if len(alts) == 1 else ("por", alts)

    def pat_lit(self):
        k, v = self.peek()
        if k == "num":
            self.next()
            return ("num", v[0], v[1], v[2])
        if k == "byte":
            self.next()
            return ("byte", v)
        if k == "char":
            self.next()
            return ("char", v)
        return None

    def pattern1(self):
        if self.eat("&"):
            self.eat_id("mut")
            return self.pattern1()
        if self.eat_id("_"):
            return ("pwild",)
        if self.eat_id("mut") or self.eat_id("ref"):
            return ("pbind", self.ident())
        lo = self.pat_lit()
        if lo is not None:
            if self.eat("..="):
                hi = self.pat_lit()
                if hi is None:
                    self.err("range pattern end")
                return ("prange", lo, hi)
            if self.at("..") or self.at("..."):
                self.err("only inclusive range patterns `a..=b` are supported")
            return ("plit", lo)
        segs = [self.ident()]
        while self.at("::") and self.peek(1)[0] == "id":
            self.next()
            segs.append(self.ident())
        if self.eat("("):
            subs = []
            while not self.at(")"):
                subs.append(self.pattern())
                if not self.eat(","):
                    break
            self.expect(")")
            return ("pctor", segs, subs)
        if self.at("{"):
            self.err("struct patterns are not supported")
        if len(segs) == 1 and (segs[0][0].islower() or segs[0][0] == "_"):
            return ("pbind", segs[0])
        return ("pctor", segs, None)

    # -- expressions
    def args(self, close):
        a = []
        while not self.at(close):
            a.append(self.expr())
            if not self.eat(","):
                break
        self.expect(close)
        return a

    def block(self):
        """`{ stmts }` -> ('block', [stmt], tail expr | None)"""
        self.expect("{")
        stmts, tail = [], None
        while not self.at("}"):
            if self.eat(";"):
                continue
            attrs = self.skip_attrs()
            if any("cfg" in a for a in attrs):
                self.err("conditional compilation (#[cfg]) inside a translated function")
            if self.at_id("let"):
                self.next()
                pat = self.pattern()
                ty = self.type_() if self.eat(":") else None
                init = self.expr() if self.eat("=") else None
                els = None
                if self.at_id("else"):
                    self.next()
                    els = self.block()
                self.expect(";")
                stmts.append(("let", pat, ty, init, els))
                continue
            if self.at_id("fn") or (self.at_id("const") and self.at_id("fn", 1)):
                stmts.append(("fn", self.fn_item(attrs)))
                continue
            if self.at_id("for"):
                self.next()
                pat = self.pattern()
                if not self.eat_id("in"):
                    self.err("`in` expected")
                it = self.expr()
                stmts.append(("for", pat, it, self.block()))
                continue
            if self.at_id("while"):
                self.next()
                c = self.expr()
                stmts.append(("while", c, self.block()))
                continue
            if self.at_id("loop") or self.at_id("break") or self.at_id("continue"):
                self.err(f"`{self.peek()[1]}` is not supported")
            e = self.expr()
            if self.peek()[0] == "op" and self.peek()[1] in ASSIGN_OPS:
                op = self.next()[1]
                rhs = self.expr()
                e = ("assign", op, e, rhs)
                if not self.at("}"):
                    self.expect(";")
                stmts.append(("expr", e))
                continue
            if self.eat(";"):
                stmts.append(("expr", e))
            elif self.at("}"):
                tail = e
            elif e[0] in ("if", "iflet", "match", "block"):
                stmts.append(("expr", e))
            else:
                self.err("`;` expected")
        self.expect("}")
        return ("block", stmts, tail)

    def expr(self):
        # ranges have the lowest precedence
        if self.at("..") or self.at("..="):
            inc = self.next()[1] == "..="
            hi = None if self.peek() in EXPR_END else self.binexpr(0)
            return ("range", None, hi, inc)
        lhs = self.binexpr(0)
        if self.at("..") or self.at("..="):
            inc = self.next()[1] == "..="
            hi = None if self.peek() in EXPR_END else self.binexpr(0)
            return ("range", lhs, hi, inc)
        return lhs

    def binexpr(self, minp):
        lhs = self.unary()
        while True:
            k, v = self.peek()
            if k == "op" and v in BINPREC and BINPREC[v] >= minp:
                self.next()
                rhs = self.binexpr(BINPREC[v] + 1)
                lhs = ("bin", v, lhs, rhs)
            else:
                return lhs

    def unary(self):
        if self.at("&") or self.at("&&"):
            self.next()
            if self.eat_id("mut"):
                return ("refmut", self.unary())
            return ("ref", self.unary())
        if self.eat("*"):
            return ("deref", self.unary())
        if self.eat("!"):
            return ("not", self.unary())
        if self.eat("-"):
            return ("neg", self.unary())
        e = self.postfix()
        while self.at_id("as"):
            self.next()
            e = ("cast", e, self.type_())
        return e

    def postfix(self):
        e = self.primary()
        while True:
            if self.eat("?"):
                e = ("try", e)
            elif self.at("["):
                self.next()
                i = self.expr()
                self.expect("]")
                e = ("index", e, i)
            elif self.at(".") and self.peek(1)[0] == "id":
                self.next()
                name = self.ident()
                gen = []
                if self.at("::") and self.at("<", 1):
                    self.next()
                    self.next()
                    gen = self.generics()
                if self.eat("("):
                    e = ("method", e, name, gen, self.args(")"))
                else:
                    e = ("field", e, name)
            elif self.at(".") and self.peek(1)[0] == "num":
                self.next()
                e = ("field", e, str(self.next()[1][0]))
            else:
                return e

    def closure(self):
        params = []
        if self.eat("||"):
            pass
        else:
            self.expect("|")
            while not self.at("|"):
                p = self.pattern1()
                if self.eat(":"):
                    self.type_()
                params.append(p)
                if not self.eat(","):
                    break
            self.expect("|")
        body = self.block() if self.at("{") else self.expr()
        return ("closure", params, body)

    def if_(self):
        if self.eat_id("let"):
            pat = self.pattern()
            self.expect("=")
            scrut = self.expr()
            then = self.block()
            els = self.else_()
            return ("iflet", pat, scrut, then, els)
        c = self.expr()
        then = self.block()
        return ("if", c, then, self.else_())

    def else_(self):
        if not self.eat_id("else"):
            return None
        if self.eat_id("if"):
            return ("block", [], self.if_())
        return self.block()

    def primary(self):
        k, v = self.peek()
        if k == "num":
            self.next()
            return ("num", v[0], v[1], v[2])
        if k == "byte":
            self.next()
            return ("byte", v)
        if k == "bstr":
            self.next()
            return ("bstr", v)
        if k == "str":
            self.next()
            return ("str", v)
        if k == "char":
            self.next()
            return ("char", v)
        if k == "op":
            if v == "(":
                self.next()
                if self.eat(")"):
                    return ("unit",)
                e = self.expr()
                if self.at(","):
                    self.err("tuples are not supported")
                self.expect(")")
                return ("paren", e)
            if v == "[":
                self.next()
                if self.at("]"):
                    self.next()
                    return ("array", [])
                first = self.expr()
                if self.eat(";"):
                    n = self.expr()
                    self.expect("]")
                    return ("repeat", first, n)
                items = [first]
                while self.eat(","):
                    if self.at("]"):
                        break
                    items.append(self.expr())
                self.expect("]")
                return ("array", items)
            if v in ("|", "||"):
                return self.closure()
            if v == "{":
                return self.block()
            if v == "<":
                self.err("qualified paths `<T as Trait>::..` are not supported")
        if k == "id":
            if v == "if":
                self.next()
                return self.if_()
            if v == "match":
                self.next()
                scrut = self.expr()
                self.expect("{")
                arms = []
                while not self.at("}"):
                    self.skip_attrs()
                    pat = self.pattern()
                    guard = None
                    if self.eat_id("if"):
                        guard = self.expr()
                    self.expect("=>")
                    body = self.expr()
                    if not self.eat(",") and not self.at("}") and body[0] != "block":
                        self.err("`,` expected after match arm")
                    arms.append((pat, guard, body))
                self.expect("}")
                return ("match", scrut, arms)
            if v == "return":
                self.next()
                return ("return", None if self.peek() in EXPR_END else self.expr())
            if v == "move":
                self.next()
                return self.closure()
            if v in ("unsafe", "loop", "while", "for", "break", "continue", "let"):
                self.err(f"`{v}` expression is not supported")
            self.next()
            segs, gen = [v], []
            while self.at("::"):
                if self.peek(1)[0] == "id":
                    self.next()
                    segs.append(self.ident())
                elif self.at("<", 1):
                    self.next()
                    self.next()
                    gen = self.generics()
                else:
                    break
            if self.at("!") and (self.at("(", 1) or self.at("[", 1)) and len(segs) == 1:
                self.next()
                close = ")" if self.next()[1] == "(" else "]"
                return ("macro", segs[0], self.args(close))
            if self.at("{") and segs[-1][0].isupper() and False:
                self.err("struct literals are not supported")
            if self.eat("("):
                return ("call", segs, gen, self.args(")"))
            return ("path", segs, gen)
        self.err("expression expected")

    # -- items
    def fn_item(self, attrs):
        quals = []
        while self.peek()[0] == "id" and self.peek()[1] in ("pub", "const", "unsafe", "async", "extern"):
            quals.append(self.next()[1])
            if quals[-1] == "pub" and self.at("("):
                self.next()
                while not self.eat(")"):
                    self.next()
        if not self.eat_id("fn"):
            self.err("`fn` expected")
        name = self.ident()
        if self.at("<"):
            self.err(f"generic function `{name}`")
        self.expect("(")
        params = []
        while not self.at(")"):
            self.skip_attrs()
            byref = False
            if self.at("&"):
                self.next()
                if self.peek()[0] == "life":
                    self.next()
                byref = True
            self.eat_id("mut")
            if self.at_id("self") and not self.at(":", 1):
                self.next()
                params.append(("self", None))
            else:
                if byref:
                    self.err("parameter pattern")
                pname = self.ident()
                self.expect(":")
                params.append((pname, self.type_()))
            if not self.eat(","):
                break
        self.expect(")")
        ret = self.type_() if self.eat("->") else ("tunit",)
        if self.at_id("where"):
            self.err("where clause")
        body = self.block()
        return dict(name=name, params=params, ret=ret, body=body, attrs=attrs, quals=quals)

    def impl_items(self):
        """inside `impl .. { .. }`: {'fns': {name: fn}, 'types': {name: type}}"""
        fns, types = {}, {}
        while self.peek()[0] != "eof":
            attrs = self.skip_attrs()
            if self.at_id("type"):
                self.next()
                n = self.ident()
                self.expect("=")
                types[n] = self.type_()
                self.expect(";")
                continue
            f = self.fn_item(attrs)
            if f["name"] in fns:
                self.err(f"duplicate fn {f['name']}")
            fns[f["name"]] = f
        return dict(fns=fns, types=types)


# ------------------------------------------------------------------------------------------------
# types of the translation

U8, USZ, BOOL, LIT = ("int", "u8"), ("int", "usize"), ("bool",), ("lit",)
SLICE, STR, CHAR, ASREF = ("slice",), ("str",), ("char8",), ("asref",)
HASH, HEXERR, TFSE, UNIT, FMTR, FMTRES = ("hash",), ("hexerr",), ("tfse",), ("unit",), ("fmtr",), ("fmtres",)
LISTLIKE = ("slice", "str", "astr", "asref")


def ARR(n):
    return ("arr", n)


def RES(t, e):
    return ("result", t, e)


def lean_ty(t, fn="?"):
    k = t[0]
    if t == U8 or t == CHAR:
        return "UInt8"
    if t == USZ:
        return "Nat"
    if k == "bool":
        return "Bool"
    if k == "arr":
        return f"Vector UInt8 {t[1]}"
    if k in LISTLIKE:
        return "List UInt8"
    if k == "hash":
        return "Hash"
    if k == "hexerr":
        return "HexError"
    if k == "tfse":
        return "TryFromSliceError"
    if k == "option":
        return f"Option ({lean_ty(t[1], fn)})"
    if k == "unit":
        return "Unit"
    if k == "fmtres":
        return "List FmtOp"
    broken(fn, f"no Lean type for {t}")


LEAN_KEYWORDS = {"from", "at", "end", "fun", "then", "do", "if", "else", "let", "have", "show", "in", "match", "with",
                 "where", "open", "local", "instance", "def", "theorem", "by", "namespace", "section", "universe",
                 "variable", "import", "export", "deriving", "structure", "class", "inductive", "mutual", "private",
                 "protected", "partial", "unsafe", "return", "for", "unless", "try", "catch", "mut", "break", "continue",
                 "Type", "Prop", "Sort", "using", "suffices", "calc", "nomatch", "nofun", "this", "C", "ok", "err", "panic"}


def lean_ident(n):
    return n + "_" if n in LEAN_KEYWORDS or re.fullmatch(r"t\d+", n) else n


def atomic(s):
    if re.fullmatch(r"[\w.']+", s):
        return True
    if s and s[0] in "([" and "\n" not in s:
        close = {"(": ")", "[": "]"}[s[0]]
        depth = 0
        for i, c in enumerate(s):
            if c == s[0]:
                depth += 1
            elif c == close:
                depth -= 1
                if depth == 0:
                    return i == len(s) - 1
    return False


def par(s):
    return s if atomic(s) else f"({s})"


def ind(s, n=2):
    return "\n".join((" " * n + l if l else l) for l in s.split("\n"))


def lean_string(bs, fn):
    try:
        s = bytes(bs).decode("utf-8")
    except UnicodeDecodeError:
        broken(fn, "string literal is not UTF-8")
    out = []
    for ch in s:
        if ch in ('"', "\\"):
            out.append("\\" + ch)
        elif ch == "\n":
            out.append("\\n")
        elif ch == "\t":
            out.append("\\t")
        elif ord(ch) < 32 or ord(ch) == 127:
            out.append("\\x%02x" % ord(ch))
        else:
            out.append(ch)
    return '"' + "".join(out) + '"'


def byte_list(bs):
    return "[" + ", ".join("0x%02x" % b for b in bs) + "]"


class NeedMonad(Exception):
    pass


MUTATING = {"push", "push_str", "try_push", "clear", "truncate", "pop", "insert", "remove", "fill", "copy_from_slice",
            "clone_from_slice", "zeroize", "swap", "reverse", "sort", "extend", "extend_from_slice"}


def root_var(e):
    while e[0] in ("index", "field", "paren", "deref", "ref", "refmut"):
        e = e[1]
    if e[0] == "path" and len(e[1]) == 1:
        return e[1][0]
    return None


def walk(node, f):
    if isinstance(node, tuple) or isinstance(node, list):
        if isinstance(node, tuple) and node and isinstance(node[0], str):
            f(node)
        for x in node:
            walk(x, f)
    elif isinstance(node, dict):
        for x in node.values():
            walk(x, f)


def mutated_vars(node):
    out = []

    def f(n):
        v = None
        if n[0] == "assign":
            v = root_var(n[2])
        elif n[0] == "method" and n[2] in MUTATING:
            v = root_var(n[1])
        elif n[0] == "refmut":
            v = root_var(n[1])
        if v and v not in out:
            out.append(v)
    walk(node, f)
    return out


def let_names(node):
    out = set()

    def f(n):
        if n[0] == "pbind":
            out.add(n[1])
    walk(node, f)
    return out


# ------------------------------------------------------------------------------------------------
# the translator of one function

# external functions: documented contract only (crate constant_time_eq); `C : CtEq` carries it
EXTERNALS = {
    "constant_time_eq::constant_time_eq_32": ([ARR(32), ARR(32)], BOOL, "C.eq32"),
    "constant_time_eq::constant_time_eq": ([SLICE, SLICE], BOOL, "C.eq"),
}


class FnTr:
    def __init__(self, unit, key, item, self_ty, assoc, lean_name):
        self.U, self.key, self.item, self.self_ty, self.assoc, self.name = unit, key, item, self_ty, assoc, lean_name
        self.fn = f"{key[0]}::{key[1]}" if key[0] != "local" else f"{key[1][0]}::{key[1][1]}::{key[2]}"

    def bad(self, what):
        broken(self.fn, what)

    # ---- types
    def rtype(self, t):
        k = t[0]
        if k == "tunit":
            return UNIT
        if k in ("tarray", "tslice"):
            if self.rtype(t[1]) != U8:
                self.bad(f"array / slice of a type other than u8: {t}")
            if k == "tslice":
                return SLICE
            n = self.ceval(t[2])
            if n is None:
                self.bad("array length is not a constant")
            return ARR(n[0])
        if k == "timpl":
            i = t[1]
            if i[0] == "tpath" and i[1] == "AsRef" and len(i[2]) == 1 and i[2][0][0] == "type" and self.rtype(i[2][0][1]) == SLICE:
                return ASREF
            self.bad(f"impl type {i}")
        name, gen = t[1], t[2]
        if name in ("u8", "usize"):
            return ("int", name)
        if name == "bool":
            return BOOL
        if name == "str":
            return STR
        if name == "Self":
            if self.self_ty is None:
                self.bad("`Self` outside an impl")
            return self.self_ty
        if name.startswith("Self::") and name[6:] in self.assoc:
            return self.rtype(self.assoc[name[6:]])
        if name == "Hash":
            return HASH
        if name in ("HexError", "HexErrorInner"):
            return HEXERR
        if name in ("Result", "core::result::Result", "std::result::Result") and len(gen) == 2:
            return RES(self.rtype(gen[0][1]), self.rtype(gen[1][1]))
        if name in ("Option", "core::option::Option", "std::option::Option") and len(gen) == 1:
            return ("option", self.rtype(gen[0][1]))
        if name in ("fmt::Result", "core::fmt::Result", "std::fmt::Result"):
            return FMTRES
        if name in ("fmt::Formatter", "core::fmt::Formatter", "std::fmt::Formatter"):
            return FMTR
        if name in ("ArrayString", "arrayvec::ArrayString") and len(gen) == 1 and gen[0][0] == "const":
            n = self.ceval(gen[0][1])
            if n is None:
                self.bad("ArrayString capacity is not a constant")
            return ("astr", n[0])
        if name in ("core::array::TryFromSliceError", "std::array::TryFromSliceError", "TryFromSliceError"):
            return TFSE
        self.bad(f"type `{name}` is not supported")

    # ---- constants
    def ceval(self, e):
        """(value, type) of a constant expression (literals and crate constants only), else None"""
        k = e[0]
        if k == "num":
            return e[1], (("int", e[2]) if e[2] else LIT)
        if k == "byte":
            return e[1], U8
        if k == "paren":
            return self.ceval(e[1])
        if k == "path" and len(e[1]) == 1 and e[1][0] in self.U.consts and e[1][0] not in self.scope_names():
            return self.U.consts[e[1][0]], USZ
        if k == "bin" and e[1] in ("+", "-", "*", "/", "%", "<<", ">>", "&", "|", "^"):
            a, b = self.ceval(e[2]), self.ceval(e[3])
            if a is None or b is None:
                return None
            (x, tx), (y, ty) = a, b
            if e[1] in ("<<", ">>"):
                t = tx
            elif tx == LIT:
                t = ty
            elif ty == LIT or tx == ty:
                t = tx
            else:
                self.bad(f"constant expression mixes {tx} and {ty}")
            if e[1] in ("/", "%") and y == 0:
                self.bad("constant division by zero")
            v = {"+": x + y, "-": x - y, "*": x * y, "/": x // y if y else 0, "%": x % y if y else 0, "<<": x << y,
                 ">>": x >> y, "&": x & y, "|": x | y, "^": x ^ y}[e[1]]
            lim = {U8: 256, USZ: 2 ** 64}.get(t)
            if v < 0 or (lim and v >= lim):
                self.bad(f"constant expression overflows: {v}")
            return v, t
        return None

    def scope_names(self):
        return getattr(self, "scope", {})

    # ---- emission
    def fresh(self):
        self.ntmp += 1
        return f"t{self.ntmp}"

    def bind(self, rhs, name=None):
        if self.pure:
            raise NeedMonad()
        v = name or self.fresh()
        self.lines.append(f"{par(rhs)}.bind fun {v} =>")
        self.nbinds += 1
        return v

    def retn(self, t):
        return t if self.pure else f".ok {par(t)}"

    def coerce(self, t, frm, to, what="value"):
        if frm == to or to is None:
            return t
        if frm == LIT and to[0] == "int":
            return t
        if frm[0] == "arr" and to[0] in ("slice", "asref"):
            return f"{par(t)}.toList" if atomic(t) else f"({t}).toList"
        if frm[0] in LISTLIKE and to[0] in ("slice", "asref") and not (frm[0] == "asref" and to[0] == "slice"):
            return t
        if frm[0] == "astr" and to[0] == "str":
            return t
        if frm[0] == "option" and to[0] == "option" and (frm[1] is None or frm[1] == to[1]):
            return t
        self.bad(f"{what} of type {frm} where {to} is expected")

    def int_lit(self, v, t):
        if t == U8 and v > 255:
            self.bad(f"literal {v} does not fit u8")
        return str(v)

    # ---- expressions
    def ex(self, e, expect=None):
        """-> (lean term, type); monadic effects are appended to self.lines"""
        k = e[0]
        c = self.ceval(e)
        if c is not None:
            v, t = c
            if t == LIT and expect is not None and expect[0] == "int":
                t = expect
            if k == "num" and t != LIT:
                return (e[3] if not e[3].startswith(("0b", "0o")) else str(v)), (self.int_lit(v, t) and t)
            if k == "byte":
                return "0x%02x" % v, U8
            return self.int_lit(v, t), t
        m = getattr(self, "ex_" + k, None)
        if m is None:
            self.bad(f"expression of kind `{k}` is not supported: {e}")
        return m(e, expect)

    def ex_paren(self, e, expect):
        return self.ex(e[1], expect)

    def ex_ref(self, e, expect):
        return self.ex(e[1], expect)

    def ex_deref(self, e, expect):
        return self.ex(e[1], expect)

    def ex_refmut(self, e, expect):
        self.bad("`&mut` borrow passed on is not supported")

    def ex_unit(self, e, expect):
        return "()", UNIT

    def ex_bstr(self, e, expect):
        return byte_list(e[1]), SLICE

    def ex_str(self, e, expect):
        return byte_list(e[1]), STR

    def ex_path(self, e, expect):
        segs = e[1]
        if len(segs) == 1:
            n = segs[0]
            if n in self.scope:
                return self.scope[n]
            if n in ("true", "false"):
                return n, BOOL
            if n == "None":
                return "none", ("option", expect[1] if expect and expect[0] == "option" else None)
            self.bad(f"unknown variable `{n}`")
        self.bad(f"path expression `{'::'.join(segs)}`")

    def ex_not(self, e, expect):
        t, ty = self.ex(e[1], BOOL)
        if ty != BOOL:
            self.bad("`!` on a non-bool")
        return f"!{par(t)}", BOOL

    def ex_cast(self, e, expect):
        to = e[2]
        if to[0] != "tpath":
            self.bad(f"cast to {to}")
        t, ty = self.ex(e[1])
        name = to[1]
        if name == "usize":
            if ty == U8 or ty == CHAR:
                return f"{par(t)}.toNat", USZ
            if ty in (USZ, LIT):
                return t, USZ
        if name == "u8":
            if ty == USZ:
                return f"{par(t)}.toUInt8", U8       # truncating
            if ty in (U8, LIT, CHAR):
                return t, U8
        if name == "char" and ty in (U8, LIT):
            return t, CHAR                            # `u8 as char`: the Latin-1 code point, kept as its byte
        self.bad(f"cast from {ty} to {name}")

    def unify_ints(self, a, ta, b, tb, op):
        if ta == LIT and tb[0] == "int":
            ta = tb
        if tb == LIT and ta[0] == "int":
            tb = ta
        if ta == CHAR or tb == CHAR or ta[0] != "int" or ta != tb:
            self.bad(f"operator `{op}` on {ta} and {tb}")
        return ta

    def ex_bin(self, e, expect):
        op = e[1]
        if op in ("==", "!=", "<", ">", "<=", ">=", "&&", "||"):
            return f"decide ({self.cond(e)})", BOOL
        hint = expect if expect and expect[0] == "int" else None
        if op in ("<<", ">>"):
            a, ta = self.ex(e[2], hint)
            kb = self.ceval(e[3])
            if kb is None:
                self.bad("shift by a non-constant amount")
            if ta == LIT:
                self.bad("shift of an untyped literal")
            bits = {U8: 8, USZ: 64}.get(ta)
            if bits is None or kb[0] >= bits:
                self.bad(f"shift of {ta} by {kb[0]}")
            if op == "<<" and ta != U8:
                self.bad("`<<` on usize is not supported")
            return f"{par(a)} {'>>>' if op == '>>' else '<<<'} {kb[0]}", ta
        a, ta = self.ex(e[2], hint)
        if ta == LIT:
            # a literal has no effects: type it from the other operand
            b, tb = self.ex(e[3], hint)
        else:
            b, tb = self.ex(e[3], ta)
        t = self.unify_ints(a, ta, b, tb, op)
        if op in ("&", "|", "^"):
            return f"{par(a)} {X.LEAN_BIN[op]} {par(b)}", t
        if op in ("/", "%"):
            kb = self.ceval(e[3])
            if kb is None or kb[0] == 0:
                self.bad(f"`{op}` by a non-constant divisor is not supported")
            return f"{par(a)} {op} {par(b)}", t
        prim = {(U8, "+"): "cadd", (U8, "-"): "csub", (U8, "*"): "cmul",
                (USZ, "+"): "uadd", (USZ, "-"): "usub", (USZ, "*"): "umul"}.get((t, op))
        if prim is None:
            self.bad(f"operator `{op}` on {t}")
        return self.bind(f"{prim} {par(a)} {par(b)}"), t

    def cond(self, e):
        """a decidable proposition"""
        k = e[0]
        if k == "paren":
            return self.cond(e[1])
        if k == "not":
            return f"¬ ({self.cond(e[1])})"
        if k == "bin" and e[1] in ("&&", "||"):
            p = self.cond(e[2])
            n0, l0, t0 = self.nbinds, len(self.lines), self.ntmp
            q = self.cond(e[3])
            if self.nbinds == n0:
                return f"({p}) {'∧' if e[1] == '&&' else '∨'} ({q})"
            # the right operand can panic: it is evaluated only when the left one does not decide (short circuit)
            del self.lines[l0:]
            self.nbinds, self.ntmp = n0, t0

            def rhs():
                t, ty = self.ex(e[3], BOOL)
                if ty != BOOL:
                    self.bad(f"operand of `{e[1]}` of type {ty}")
                return self.retn(t)
            b = self.sub(rhs)
            if e[1] == "&&":
                v = self.bind(f"(if {p} then\n{ind(b)}\nelse\n  {self.retn('false')})")
            else:
                v = self.bind(f"(if {p} then\n  {self.retn('true')}\nelse\n{ind(b)})")
            return f"{v} = true"
        if k == "bin" and e[1] in ("==", "!=", "<", ">", "<=", ">="):
            a, ta = self.ex(e[2])
            b, tb = self.ex(e[3], ta if ta != LIT else None)
            if ta == BOOL and tb == BOOL and e[1] in ("==", "!="):
                pass
            elif ta == LIT and tb == LIT:
                self.bad("comparison of two untyped literals")
            else:
                self.unify_ints(a, ta, b, tb, e[1])
            op = {"==": "=", "!=": "≠", "<": "<", ">": ">", "<=": "≤", ">=": "≥"}[e[1]]
            return f"{par(a)} {op} {par(b)}"
        t, ty = self.ex(e, BOOL)
        if ty != BOOL:
            self.bad(f"condition of type {ty}")
        return f"{par(t)} = true"

    def ex_field(self, e, expect):
        t, ty = self.ex(e[1])
        if e[2] == "0" and ty == HASH:
            return f"{par(t)}.bytes", ARR(self.U.out_len)
        if e[2] == "0" and ty == HEXERR:
            return t, HEXERR              # `struct HexError(HexErrorInner)`: one Lean type for both
        self.bad(f"field `.{e[2]}` of {ty}")

    def as_list(self, t, ty):
        if ty[0] == "arr":
            return f"{par(t)}.toList"
        if ty[0] in LISTLIKE:
            return t
        self.bad(f"{ty} is not a byte sequence")

    def ex_index(self, e, expect):
        r, tr = self.ex(e[1])
        lst = self.as_list(r, tr)
        if e[2][0] == "range":
            _, lo, hi, inc = e[2]
            if inc:
                self.bad("inclusive range in a slice index")
            lo_t = "0" if lo is None else self.coerce(*self.ex(lo, USZ), USZ, "range start")
            hi_t = f"{par(lst)}.length" if hi is None else self.coerce(*self.ex(hi, USZ), USZ, "range end")
            return self.bind(f"subslice {par(lst)} {par(lo_t)} {par(hi_t)}"), SLICE
        i, ti = self.ex(e[2], USZ)
        self.coerce(i, ti, USZ, "index")
        return self.bind(f"idx {par(lst)} {par(i)}"), U8

    def ex_try(self, e, expect):
        t, ty = self.ex(e[1], RES(expect, None))
        if ty[0] != "result":
            self.bad(f"`?` on a value of type {ty}")
        if self.E is None:
            self.bad("`?` in a function that does not return Result")
        if ty[2] is not None and ty[2] != self.E:
            self.bad(f"`?` would convert error {ty[2]} into {self.E} (From conversion is not translated)")
        if ty[1] is None:
            self.bad("`?` on a value that is always Err")
        return self.bind(t), ty[1]

    def ex_array(self, e, expect):
        self.bad("array literal")

    def ex_repeat(self, e, expect):
        n = self.ceval(e[2])
        if n is None:
            self.bad("array repeat length is not a constant")
        v, tv = self.ex(e[1], U8)
        self.coerce(v, tv, U8, "array element")
        return f"Vector.replicate {n[0]} {par(v)}", ARR(n[0])

    def ex_return(self, e, expect):
        self.bad("`return` in this position is not supported")

    def ex_closure(self, e, expect):
        self.bad("closure in this position is not supported")

    def ex_range(self, e, expect):
        self.bad("range expression in this position is not supported")

    def ex_assign(self, e, expect):
        self.bad("assignment in expression position")

    # ---- calls
    def call_generated(self, key, args, what):
        """args: [(expr AST)]; -> (term, type)"""
        info = self.U.get(key, self)
        if len(args) != len(info["params"]):
            self.bad(f"{what}: {len(args)} arguments for {len(info['params'])} parameters")
        ts = []
        for a, (pn, pt) in zip(args, info["params"]):
            t, ty = self.ex(a, pt)
            ts.append(par(self.coerce(t, ty, pt, f"argument `{pn}` of {what}")))
        if info["uses_ct"]:
            self.uses_ct = True
            ts.insert(0, "C")
        term = " ".join([info["lean"]] + ts)
        if info["kind"] == "pure":
            return term, info["ret"]
        if info["err"] is not None:
            return term, RES(info["ret"], info["err"])
        if self.E is not None:
            self.bad(f"{what} can panic but has no error type; calling it from a function returning Result is not translated")
        return self.bind(term), info["ret"]

    def ex_call(self, e, expect):
        segs, gen, args = e[1], e[2], e[3]
        path = "::".join(segs)
        if path in ("Ok", "Err", "Some"):
            if len(args) != 1:
                self.bad(f"{path} with {len(args)} arguments")
            if path == "Some":
                t, ty = self.ex(args[0], expect[1] if expect and expect[0] == "option" else None)
                return f"some {par(t)}", ("option", ty)
            want = None
            if expect and expect[0] == "result":
                want = expect[1] if path == "Ok" else expect[2]
            t, ty = self.ex(args[0], want)
            if ty[0] == "result":
                self.bad("nested Result")
            if want is not None:
                t, ty = self.coerce(t, ty, want, f"payload of {path}"), want
            if ty == LIT:
                self.bad(f"payload of {path} has no known type")
            return (f".ok {par(t)}", RES(ty, None)) if path == "Ok" else (f".err {par(t)}", RES(None, ty))
        if len(segs) == 1 and ("local", self.root_key(), segs[0]) in self.U.sources:
            return self.call_generated(("local", self.root_key(), segs[0]), args, segs[0])
        head = segs[0]
        if head == "Self" and self.self_ty == HASH:
            head = "Hash"
        if head == "Hash" and len(segs) == 1:
            if len(args) != 1:
                self.bad("Hash(..) with more than one field")
            t, ty = self.ex(args[0], ARR(self.U.out_len))
            self.coerce(t, ty, ARR(self.U.out_len), "field of Hash")
            return f"Hash.mk {par(t)}", HASH
        if head == "HexError" and len(segs) == 1:
            if len(args) != 1:
                self.bad("HexError(..) with more than one field")
            t, ty = self.ex(args[0], HEXERR)
            self.coerce(t, ty, HEXERR, "field of HexError")
            return t, HEXERR
        if len(segs) == 2 and head == "HexErrorInner":
            if segs[1] not in self.U.variants:
                self.bad(f"unknown variant HexErrorInner::{segs[1]}")
            ctor, ptys = self.U.variants[segs[1]]
            if len(args) != len(ptys):
                self.bad(f"HexErrorInner::{segs[1]} with {len(args)} arguments")
            ts = []
            for a, pt in zip(args, ptys):
                t, ty = self.ex(a, pt)
                ts.append(par(self.coerce(t, ty, pt, f"payload of {segs[1]}")))
            return " ".join([f"HexError.{ctor}"] + ts), HEXERR
        if len(segs) == 2 and head == "Hash":
            name = segs[1]
            if name == "from":
                if len(args) != 1:
                    self.bad("Hash::from with other than one argument")
                self.mark()
                t, ty = self.ex(args[0])       # evaluated again below; only its type is used here
                raise_key = ("From<" + ty[0] + ">for Hash", "from")
                self.rollback()
                if raise_key not in self.U.sources:
                    self.bad(f"no `impl From<{ty}> for Hash` among the translated impls")
                return self.call_generated(raise_key, args, "Hash::from")
            if ("Hash", name) in self.U.sources:
                return self.call_generated(("Hash", name), args, f"Hash::{name}")
            if ("FromStr for Hash", name) in self.U.sources:
                return self.call_generated(("FromStr for Hash", name), args, f"Hash::{name}")
            self.bad(f"unknown associated function Hash::{name}")
        if path in EXTERNALS:
            ptys, ret, lean = EXTERNALS[path]
            if len(args) != len(ptys):
                self.bad(f"{path} with {len(args)} arguments")
            ts = []
            for a, pt in zip(args, ptys):
                t, ty = self.ex(a, pt)
                ts.append(par(self.coerce(t, ty, pt, f"argument of {path}")))
            self.uses_ct = True
            return " ".join([lean] + ts), ret
        if path == "ArrayString::new" and not args:
            if self.ret[0] != "astr":
                self.bad("ArrayString::new() in a function that does not return an ArrayString (capacity unknown)")
            return "[]", self.ret
        self.bad(f"call of `{path}` is not supported")

    def root_key(self):
        return self.key if self.key[0] != "local" else self.key[1]

    def rollback(self):
        """undo the effects of the last probing `ex` (used when an argument had to be typed before choosing the callee)"""
        del self.lines[self.mark_lines:]
        self.ntmp, self.nbinds = self.mark_tmp, self.mark_binds

    def mark(self):
        self.mark_lines, self.mark_tmp, self.mark_binds = len(self.lines), self.ntmp, self.nbinds

    def closure1(self, c, pty, expect, what):
        """a one-parameter closure with an effect-free body -> (param name, body term, body type)"""
        if c[0] != "closure" or len(c[1]) != 1 or c[1][0][0] not in ("pbind", "pwild"):
            self.bad(f"{what}: a closure `|x| ..` is expected")
        p = c[1][0]
        name = lean_ident(p[1]) if p[0] == "pbind" else "_"
        saved, n0 = dict(self.scope), self.nbinds
        if p[0] == "pbind":
            self.scope[p[1]] = (name, pty)
        body = c[2]
        if body[0] == "block":
            if body[1]:
                self.bad(f"{what}: closure body with statements")
            body = body[2]
        t, ty = self.ex(body, expect)
        self.scope = saved
        if self.nbinds != n0:
            self.bad(f"{what}: closure body can panic")
        return name, t, ty

    def ex_method(self, e, expect):
        recv, name, gen, args = e[1], e[2], e[3], e[4]
        # formatter operations
        if recv[0] == "path" and len(recv[1]) == 1 and self.scope.get(recv[1][0], (None, None))[1] == FMTR:
            if name == "write_str" and len(args) == 1:
                t, ty = self.ex(args[0], STR)
                if ty[0] not in ("str", "astr"):
                    self.bad(f"write_str of {ty}")
                return f"FmtOp.writeStr {par(t)}", FMTRES
            if name == "debug_tuple" and len(args) == 1 and args[0][0] == "str":
                self.builders.append((lean_string(args[0][1], self.fn), []))
                return "", ("dbgtuple", len(self.builders) - 1)
            self.bad(f"Formatter method `{name}`")
        if name == "try_into" and not args:
            r, tr = self.ex(recv)
            want = expect[1] if expect and expect[0] == "result" else None
            if tr[0] not in ("slice", "asref") or want is None or want[0] != "arr":
                self.bad(f"try_into from {tr} to {want}")
            if want[1] != 32:
                self.bad("try_into to an array whose length is not 32")
            return f"arrayTryFrom {par(r)}", RES(want, TFSE)
        r, tr = self.ex(recv)
        if tr[0] == "dbgtuple":
            bname, fields = self.builders[tr[1]]
            if name == "field" and len(args) == 1:
                fields.append(self.fmt_arg(args[0]))
                return "", tr
            if name == "finish" and not args:
                return f"FmtOp.debugTuple {bname} [{', '.join(fields)}]", FMTRES
            self.bad(f"DebugTuple method `{name}`")
        if tr == HASH:
            if ("Hash", name) in self.U.sources:
                return self.call_generated(("Hash", name), [recv] + args, f"Hash::{name}")
            self.bad(f"method `{name}` of Hash is not among the translated functions")
        if name == "len" and not args:
            if tr[0] == "arr":
                return str(tr[1]), USZ
            if tr[0] in LISTLIKE:
                return f"{par(r)}.length", USZ
        if name == "is_empty" and not args and tr[0] in LISTLIKE:
            return f"{par(r)}.isEmpty", BOOL
        if name == "as_slice" and not args and tr[0] in ("arr", "slice"):
            return self.as_list(r, tr), SLICE
        if name == "as_ref" and not args and tr[0] in ("asref", "arr", "slice"):
            return self.as_list(r, tr), SLICE
        if name == "as_bytes" and not args and tr[0] in ("str", "astr"):
            return r, SLICE
        if name == "as_str" and not args and tr[0] in ("astr", "str"):
            return r, STR
        if name == "iter" and not args and tr[0] in ("arr", "slice"):
            return self.as_list(r, tr), ("iter",)
        if name == "push" and len(args) == 1 and tr[0] == "astr":
            v = root_var(recv)
            if v is None or recv[0] != "path":
                self.bad("push on something other than a local variable")
            c, tc = self.ex(args[0], CHAR)
            if tc != CHAR:
                self.bad(f"ArrayString::push of {tc}")
            self.bind(f"arrayStringPush {tr[1]} {par(r)} {par(c)}", name=self.scope[v][0])
            return "()", UNIT
        if name == "first_chunk" and not args and tr[0] in ("slice",) and len(gen) == 1 and gen[0][0] == "const":
            n = self.ceval(gen[0][1])
            if n is None:
                self.bad("first_chunk::<N> with a non-constant N")
            return f"firstChunk {n[0]} {par(r)}", ("option", ARR(n[0]))
        if tr[0] == "option":
            if name in ("is_some", "is_none") and not args:
                return f"{par(r)}.{'isSome' if name == 'is_some' else 'isNone'}", BOOL
            if name == "unwrap" and not args:
                return self.bind(f"optUnwrap {par(r)}"), tr[1]
            if name == "is_some_and" and len(args) == 1:
                x, b, tb = self.closure1(args[0], tr[1], BOOL, name)
                if tb != BOOL:
                    self.bad("is_some_and with a non-bool closure")
                return f"match {r} with | some {x} => {b} | none => false", BOOL
            if name == "map_or" and len(args) == 2:
                d, td = self.ex(args[0], expect)
                x, b, tb = self.closure1(args[1], tr[1], td if td != LIT else expect, name)
                if tb != td:
                    self.bad(f"map_or: default has type {td}, closure {tb}")
                return f"match {r} with | some {x} => {b} | none => {d}", tb
        self.bad(f"method `{name}` on {tr} is not supported")

    # ---- formatting
    def fmt_arg(self, a):
        t, ty = self.ex(a)
        ctor = {U8: "u8", USZ: "usize", CHAR: "char8", STR: "str", ("astr",): "str"}.get(ty if ty[0] != "astr" else ("astr",))
        if ctor is None:
            self.bad(f"formatting argument of type {ty}")
        return f"FmtArg.{ctor} {par(t)}"

    def ex_macro(self, e, expect):
        name, args = e[1], e[2]
        if name in ("write", "writeln"):
            if len(args) < 2 or args[0][0] != "path" or self.scope.get(args[0][1][0], (None, None))[1] != FMTR or args[1][0] != "str":
                self.bad(f"{name}! must be `{name}!(f, \"format\", args..)` with the function's Formatter")
            try:
                fs = bytes(args[1][1]).decode("utf-8")
            except UnicodeDecodeError:
                self.bad("format string is not UTF-8")
            rest = args[2:]
            pieces, lit, i, nextpos, used = [], "", 0, 0, set()

            def flush():
                nonlocal lit
                if lit:
                    pieces.append(f"FmtPiece.lit {lean_string(lit.encode('utf-8'), self.fn)}")
                    lit = ""
            while i < len(fs):
                ch = fs[i]
                if fs.startswith("{{", i) or fs.startswith("}}", i):
                    lit += ch
                    i += 2
                elif ch == "{":
                    j = fs.find("}", i)
                    if j < 0:
                        self.bad("unterminated `{` in format string")
                    inner = fs[i + 1:j]
                    argname, _, spec = inner.partition(":")
                    spec = (":" + spec) if _ else ""
                    if argname == "":
                        if nextpos >= len(rest):
                            self.bad("format string has more placeholders than arguments")
                        arg = rest[nextpos]
                        used.add(nextpos)
                        nextpos += 1
                    elif argname.isdigit():
                        if int(argname) >= len(rest):
                            self.bad(f"format argument {argname} missing")
                        arg = rest[int(argname)]
                        used.add(int(argname))
                    elif re.fullmatch(r"[A-Za-z_]\w*", argname):
                        arg = ("path", [argname], [])
                    else:
                        self.bad(f"format placeholder {{{inner}}}")
                    flush()
                    pieces.append(f"FmtPiece.arg {lean_string(spec.encode('utf-8'), self.fn)} ({self.fmt_arg(arg)})")
                    i = j + 1
                elif ch == "}":
                    self.bad("unmatched `}` in format string")
                else:
                    lit += ch
                    i += 1
            if name == "writeln":
                lit += "\n"
            flush()
            if used != set(range(len(rest))):
                self.bad("format arguments that are not used")
            return f"FmtOp.write [{', '.join(pieces)}]", FMTRES
        if name in ("debug_assert", "debug_assert_eq", "debug_assert_ne"):
            return "()", UNIT       # dropped (see the docstring of the generated file)
        if name == "assert" and len(args) >= 1:
            c = self.cond(args[0])
            self.bind(f"assertO (decide ({c}))", name="_")
            return "()", UNIT
        if name in ("assert_eq", "assert_ne") and len(args) >= 2:
            c = self.cond(("bin", "==" if name == "assert_eq" else "!=", args[0], args[1]))
            self.bind(f"assertO (decide ({c}))", name="_")
            return "()", UNIT
        self.bad(f"macro `{name}!` is not supported")

    # ---- control flow
    # mode: ("fn",) the value is the function's result | ("value", expected type) | ("state", [vars])
    def finish(self, mode, e):
        if mode[0] == "fn":
            if e is None:
                if self.ret != UNIT or self.E is not None:
                    self.bad("function body without a final expression")
                return self.retn("()")
            if e[0] == "return":
                e = e[1]
            if self.E is not None:
                t, ty = self.ex(e, RES(self.ret, self.E))
                if ty[0] != "result":
                    self.bad(f"final expression of type {ty} in a function returning Result")
                if (ty[1] is not None and ty[1] != self.ret) or (ty[2] is not None and ty[2] != self.E):
                    self.bad(f"final expression of type {ty}; the function returns Result<{self.ret}, {self.E}>")
                return t
            t, ty = self.ex(e, self.ret)
            if self.ret == FMTRES:
                if ty != FMTRES:
                    self.bad(f"final expression of type {ty} in a fmt function")
                return self.retn("[" + ", ".join(self.fmt_prefix + [t]) + "]")
            return self.retn(self.coerce(t, ty, self.ret, "result"))
        if mode[0] == "state":
            if e is not None:
                t, ty = self.ex(e)
                if ty != UNIT:
                    self.bad(f"value of type {ty} is dropped")
            return self.retn(self.tup([self.scope[v][0] for v in mode[1]]))
        if e is None:
            self.bad("block without a value")
        if e[0] == "return":
            return self.diverge(e)
        t, ty = self.ex(e, mode[1])
        if mode[1] is not None:
            t, ty = self.coerce(t, ty, mode[1], "branch value"), mode[1]
        if self.val_ty is None or self.val_ty == LIT:
            self.val_ty = ty
        elif ty != LIT and ty != self.val_ty:
            self.bad(f"branches of different types {self.val_ty} and {ty}")
        return self.retn(t)

    def diverge(self, e):
        """`return Err(x)` anywhere in a Result function: the error propagates through every enclosing bind"""
        r = e[1]
        if self.E is not None and r is not None and r[0] == "call" and r[1] == ["Err"]:
            t, ty = self.ex(r, RES(self.ret, self.E))
            if ty[2] != self.E:
                self.bad(f"return of error {ty[2]}")
            return t
        self.bad("`return` in this position is not supported (only `return Err(..)` is)")

    def tup(self, vs):
        return "()" if not vs else vs[0] if len(vs) == 1 else "(" + ", ".join(vs) + ")"

    def sub(self, f):
        """run f() with fresh lines / copied scope; -> the term made of the lines and f's final term"""
        saved = (self.lines, self.scope, self.fmt_prefix)
        self.lines, self.scope, self.fmt_prefix = [], dict(self.scope), list(self.fmt_prefix)
        try:
            final = f()
            return "\n".join(self.lines + [final])
        finally:
            self.lines, self.scope, self.fmt_prefix = saved

    def block_term(self, blk, mode):
        if blk[0] != "block":
            blk = ("block", [], blk)
        return self.sub(lambda: self.seq(blk[1], blk[2], mode))

    def branch_term(self, e, mode):
        """term of an if / if-let / match / block whose branches are translated in `mode`"""
        k = e[0]
        if k == "block":
            return self.block_term(e, mode)
        if k == "if":
            c = self.cond(e[1])
            a = self.block_term(e[2], mode)
            if e[3] is None:
                if mode[0] != "state":
                    self.bad("`if` without `else` used as a value")
                b = self.sub(lambda: self.finish(mode, None))
            else:
                b = self.block_term(e[3], mode)
            if e[3] is not None and not e[3][1] and e[3][2] is not None and e[3][2][0] == "if":
                return f"if {c} then\n{ind(a)}\nelse {b}"
            return f"if {c} then\n{ind(a)}\nelse\n{ind(b)}"
        if k == "iflet":
            arms = [(e[1], None, e[3]), (("pwild",), None, e[4] if e[4] is not None else ("block", [], None))]
            if e[4] is None and mode[0] != "state":
                self.bad("`if let` without `else` used as a value")
            return self.match_term(e[2], arms, mode)
        if k == "match":
            return self.match_term(e[1], e[2], mode)
        self.bad(f"branch_term {k}")

    def pat_lit(self, p, ty):
        if p[0] == "num":
            if p[2] and ("int", p[2]) != ty:
                self.bad(f"pattern literal of type {p[2]} for a scrutinee of type {ty}")
            return self.int_lit(p[1], ty)
        if p[0] == "byte" and ty == U8:
            return "0x%02x" % p[1]
        self.bad(f"pattern literal {p} for a scrutinee of type {ty}")

    def pat_cond(self, p, s, ty):
        if p[0] == "prange":
            return f"{self.pat_lit(p[1], ty)} ≤ {s} ∧ {s} ≤ {self.pat_lit(p[2], ty)}"
        if p[0] == "plit":
            return f"{s} = {self.pat_lit(p[1], ty)}"
        if p[0] == "por":
            return " ∨ ".join(f"({self.pat_cond(q, s, ty)})" for q in p[1])
        self.bad(f"pattern {p} on an integer")

    def match_term(self, scrut, arms, mode):
        s, ty = self.ex(scrut)
        if any(g is not None for _, g, _ in arms):
            self.bad("match guards are not supported")
        if not arms:
            self.bad("match without arms")
        if ty[0] == "int":
            if not atomic(s) or not re.fullmatch(r"[A-Za-z_]\w*", s):
                v = self.fresh()
                self.lines.append(f"let {v} : {lean_ty(ty)} := {s}")
                s = v
            out = ""
            for n, (p, _, body) in enumerate(arms):
                if p[0] in ("pwild", "pbind"):
                    if n != len(arms) - 1:
                        self.bad("catch-all arm before the last arm")

                    def last(p=p, body=body):
                        if p[0] == "pbind":
                            nm = lean_ident(p[1])
                            self.lines.append(f"let {nm} : {lean_ty(ty)} := {s}")
                            self.scope[p[1]] = (nm, ty)
                        return self.seq_body(body, mode)
                    out += "else\n" + ind(self.sub(last)) if n else self.sub(last)
                    return out
                out += ("else " if n else "") + f"if {self.pat_cond(p, s, ty)} then\n{ind(self.block_term(body, mode))}\n"
            self.bad("match on an integer without a final catch-all arm (`_ =>`)")
        out = [f"match {s} with"]
        for p, _, body in arms:
            binds = []
            if p[0] == "pwild":
                lp = "_"
            elif p[0] == "pctor":
                cname = p[1][-1]
                if ty == HEXERR and cname in self.U.variants and (len(p[1]) == 1 or p[1][-2] == "HexErrorInner"):
                    ctor, ptys = self.U.variants[cname]
                    lctor = "." + ctor
                elif ty[0] == "option" and p[1] == ["Some"]:
                    lctor, ptys = "some", [ty[1]]
                elif ty[0] == "option" and p[1] == ["None"]:
                    lctor, ptys = "none", []
                else:
                    self.bad(f"pattern `{'::'.join(p[1])}` on {ty}")
                subs = p[2] or []
                if len(subs) != len(ptys):
                    self.bad(f"pattern `{'::'.join(p[1])}` with {len(subs)} fields")
                names = []
                for sp, pt in zip(subs, ptys):
                    if sp[0] == "pbind":
                        names.append(lean_ident(sp[1]))
                        binds.append((sp[1], lean_ident(sp[1]), pt))
                    elif sp[0] == "pwild":
                        names.append("_")
                    else:
                        self.bad("nested patterns are not supported")
                lp = " ".join([lctor] + names)
            else:
                self.bad(f"pattern {p} on {ty}")

            def arm(body=body, binds=binds):
                for rn, ln, pt in binds:
                    self.scope[rn] = (ln, pt)
                return self.seq_body(body, mode)
            out.append(f"| {lp} =>\n{ind(self.sub(arm))}")
        return "\n".join(out)

    def seq_body(self, body, mode):
        if body[0] == "block":
            return self.seq(body[1], body[2], mode)
        return self.seq([], body, mode)

    def ex_branching(self, e, expect):
        saved = self.val_ty
        self.val_ty = None
        t = self.branch_term(e, ("value", expect))
        ty, self.val_ty = self.val_ty, saved
        if ty is None:
            self.bad("could not type the branches")
        if self.pure:
            return f"({t})", ty
        return self.bind(f"({t})"), ty

    ex_if = ex_iflet = ex_match = ex_block = ex_branching

    # ---- statements
    def seq(self, stmts, tail, mode):
        """translate statements (prefix lines go to self.lines); -> the final term"""
        for st in stmts:
            if st[0] == "fn":
                self.U.sources[("local", self.root_key(), st[1]["name"])] = (st[1], None, {}, None)
        for n, st in enumerate(stmts):
            k = st[0]
            if k == "fn":
                continue
            if k == "let":
                r = self.let_stmt(st, stmts[n + 1:], tail, mode)
                if r is not None:
                    return r
                continue
            if k == "for":
                self.for_stmt(st)
                continue
            if k == "while":
                self.bad("`while` loops are not supported")
            e = st[1]
            if e[0] == "assign":
                self.assign_stmt(e)
                continue
            if e[0] == "return":
                if mode[0] == "fn":
                    return self.finish(mode, e)
                return self.diverge(e)
            if e[0] == "if" and e[3] is None and mode[0] == "fn" and self.ends_in_return(e[2]):
                c = self.cond(e[1])
                a = self.block_term(e[2], mode)
                rest = self.sub(lambda: self.seq(stmts[n + 1:], tail, mode))
                self.lines.append(f"if {c} then\n{ind(a)}\nelse")
                return rest
            if e[0] in ("if", "iflet", "match", "block"):
                self.branch_stmt(e)
                continue
            mfmt = e[0] == "try"
            t, ty = self.ex(e[1] if mfmt else e)
            if ty == FMTRES and mfmt:
                self.fmt_prefix.append(t)
                continue
            if ty != UNIT:
                self.bad(f"expression statement of type {ty}: its value would be dropped")
        if tail is not None and tail[0] in ("if", "iflet", "match", "block") and mode[0] != "state":
            if mode[0] == "value":
                t = self.branch_term(tail, mode)
                return t
            return self.branch_term(tail, mode)
        return self.finish(mode, tail)

    def ends_in_return(self, blk):
        if blk[2] is not None:
            return blk[2][0] == "return"
        return bool(blk[1]) and blk[1][-1][0] == "expr" and blk[1][-1][1][0] == "return"

    def let_stmt(self, st, rest, tail, mode):
        _, pat, ty, init, els = st
        if init is None:
            self.bad("`let` without an initialiser")
        decl = self.rtype(ty) if ty is not None else None
        if els is not None:
            if mode[0] != "fn" or pat[0] != "pctor" or pat[1] != ["Some"] or len(pat[2] or []) != 1 or pat[2][0][0] != "pbind":
                self.bad("`let .. else` is supported only as `let Some(x) = .. else { return ..; }` at function level")
            if not self.ends_in_return(els):
                self.bad("`else` block of `let .. else` does not end in `return`")
            s, sty = self.ex(init)
            if sty[0] != "option":
                self.bad(f"`let Some(..)` on {sty}")
            a = self.block_term(els, mode)
            x = pat[2][0][1]

            def cont():
                self.scope[x] = (lean_ident(x), sty[1])
                return self.seq(rest, tail, mode)
            b = self.sub(cont)
            return f"match {s} with\n| none =>\n{ind(a)}\n| some {lean_ident(x)} =>\n{ind(b)}"
        if pat[0] not in ("pbind", "pwild"):
            self.bad(f"`let` pattern {pat}")
        t, tt = self.ex(init, decl)
        if decl is not None:
            t, tt = self.coerce(t, tt, decl, "initialiser"), decl
        if tt[0] in ("result", "dbgtuple", "iter", "fmtres", "fmtr") or tt == LIT:
            self.bad(f"`let` of a value of type {tt} is not supported")
        if tt[0] == "option" and tt[1] is None:
            self.bad("`let` of an untyped None")
        if pat[0] == "pbind":
            nm = lean_ident(pat[1])
            self.lines.append(f"let {nm} : {lean_ty(tt, self.fn)} := {t}")
            self.scope.pop(pat[1], None)
            self.scope[pat[1]] = (nm, tt)
        return None

    def assign_stmt(self, e):
        _, op, lhs, rhs = e
        if lhs[0] == "path" and len(lhs[1]) == 1 and lhs[1][0] in self.scope:
            nm, ty = self.scope[lhs[1][0]]
            if op == "=":
                t, tt = self.ex(rhs, ty)
                t = self.coerce(t, tt, ty, "assigned value")
            else:
                t, tt = self.ex(("bin", op[:-1], lhs, rhs), ty)
                self.coerce(t, tt, ty, "assigned value")
            self.lines.append(f"let {nm} : {lean_ty(ty, self.fn)} := {t}")
            return
        if lhs[0] == "index" and lhs[1][0] == "path" and len(lhs[1][1]) == 1 and lhs[1][1][0] in self.scope:
            nm, ty = self.scope[lhs[1][1][0]]
            if ty != ARR(32):
                self.bad(f"indexed assignment into {ty} (only [u8; 32] is supported)")
            # Rust evaluates the right-hand side, then the index expression, then checks the bound and stores
            if op == "=":
                t, tt = self.ex(rhs, U8)
                i, ti = self.ex(lhs[2], USZ)
            else:
                i, ti = self.ex(lhs[2], USZ)      # compound assignment: the place is evaluated first
                if not atomic(i):
                    self.bad("compound assignment with a computed index")
                t, tt = self.ex(("bin", op[:-1], lhs, rhs), U8)
            self.coerce(t, tt, U8, "stored value")
            self.coerce(i, ti, USZ, "index")
            self.bind(f"setIdx {nm} {par(i)} {par(t)}", name=nm)
            return
        self.bad(f"assignment to {lhs}")

    def state_vars(self, node):
        m = mutated_vars(node)
        vs = [v for v in self.scope if v in m]
        for v in m:
            if v not in self.scope:
                pass        # declared inside
        shadow = let_names(node) & set(vs)
        if shadow:
            self.bad(f"variable {sorted(shadow)} is mutated and also re-declared inside a loop / branch")
        for v in vs:
            if self.scope[v][1] in (FMTR,):
                self.bad("Formatter used inside a loop / branch statement")
        return vs

    def rebind_state(self, term, vs):
        pat = self.tup([self.scope[v][0] for v in vs]) if vs else "_"
        if self.pure:
            raise NeedMonad()
        self.lines.append(f"{par(term)}.bind fun {pat} =>")
        self.nbinds += 1

    def branch_stmt(self, e):
        vs = self.state_vars(e)
        if self.pure:
            raise NeedMonad()
        n0 = len(self.fmt_prefix)
        t = self.branch_term(e, ("state", vs))
        if len(self.fmt_prefix) != n0:
            self.bad("formatter operation inside a branch statement")
        self.rebind_state(f"({t})", vs)

    def for_stmt(self, st):
        _, pat, it, body = st
        if self.pure:
            raise NeedMonad()
        vs = self.state_vars(body)
        for bad_kw in ("break", "continue"):
            pass
        spat = self.tup([self.scope[v][0] for v in vs]) if vs else "(_ : Unit)"
        init = self.tup([self.scope[v][0] for v in vs])
        if it[0] == "range":
            _, lo, hi, inc = it
            if lo is None or hi is None:
                self.bad("`for` over an unbounded range")
            lo_t, tlo = self.ex(lo, USZ)
            hi_t, thi = self.ex(hi, USZ if tlo == LIT else tlo)
            if tlo == LIT:
                tlo = thi
            if thi == LIT:
                thi = tlo
            if tlo != USZ or thi != USZ:
                self.bad(f"`for` over a range of {tlo}..{thi} (only usize is supported)")
            if inc:
                hi_t = self.bind(f"uadd {par(hi_t)} 1")
            if pat[0] not in ("pbind", "pwild"):
                self.bad(f"`for` pattern {pat}")
            iv = lean_ident(pat[1]) if pat[0] == "pbind" else "_"

            def f():
                if pat[0] == "pbind":
                    self.scope[pat[1]] = (iv, USZ)
                return self.seq(body[1], body[2], ("state", vs))
            b = self.sub(f)
            self.rebind_state(f"forRange {par(lo_t)} {par(hi_t)} (fun {iv} {spat} =>\n{ind(b, 4)}) {init}", vs)
            return
        t, ty = self.ex(it)
        if ty[0] == "iter" or ty[0] in ("arr", "slice"):
            lst = t if ty[0] == "iter" else self.as_list(t, ty)
            if pat[0] not in ("pbind", "pwild"):
                self.bad(f"`for` pattern {pat}")
            bv = lean_ident(pat[1]) if pat[0] == "pbind" else "_"

            def f():
                if pat[0] == "pbind":
                    self.scope[pat[1]] = (bv, U8)
                return self.seq(body[1], body[2], ("state", vs))
            b = self.sub(f)
            self.rebind_state(f"forEach (fun {bv} {spat} =>\n{ind(b, 4)}) {par(lst)} {init}", vs)
            return
        self.bad(f"`for` over {ty}")

    # ---- the whole function
    def translate(self):
        item = self.item
        if any("cfg" in a for a in item["attrs"]):
            self.bad("conditional compilation (#[cfg]) on a translated function")
        self.scope = {}
        ret = self.rtype(item["ret"])
        self.ret, self.E = (ret[1], ret[2]) if ret[0] == "result" else (ret, None)
        if self.ret[0] == "result":
            self.bad("nested Result")
        params, scope0 = [], {}
        for pn, pt in item["params"]:
            if pn == "self":
                if self.self_ty is None:
                    self.bad("`self` outside an impl")
                ty = self.self_ty
            else:
                ty = self.rtype(pt)
            nm = lean_ident(pn)
            scope0[pn] = (nm, ty)
            if ty != FMTR:
                params.append((nm, ty))
        for pure in ([True, False] if self.E is None else [False]):
            self.pure, self.lines, self.scope = pure, [], dict(scope0)
            self.ntmp = self.nbinds = 0
            self.fmt_prefix, self.builders, self.val_ty, self.uses_ct = [], [], None, False
            try:
                final = self.seq(item["body"][1], item["body"][2], ("fn",))
            except NeedMonad:
                continue
            body = "\n".join(self.lines + [final])
            break
        else:
            self.bad("internal: no translation mode succeeded")
        lret = lean_ty(self.ret, self.fn)
        if not self.pure:
            lret = f"Outcome {lean_ty(self.E, self.fn) if self.E is not None else 'Empty'} {par(lret)}"
        lparams = ([("C", "CtEq")] if self.uses_ct else []) + [(n, lean_ty(t, self.fn)) for n, t in params]
        sig = " ".join(f"({n} : {t})" for n, t in lparams)
        used = set(re.findall(r"[A-Za-z_]\w*", body))
        sig = " ".join(f"({n if n in used else '_' + n} : {t})" for n, t in lparams)
        doc = item.get("doc", self.fn).replace("-/", "- /")
        mode = "plain function (nothing in it can panic)" if self.pure else "outcome monad"
        text = f"/-- `{doc}`  [{self.fn}; {mode}] -/\ndef {self.name} {sig} : {lret} :=\n{ind(body)}\n"
        return text, dict(lean=self.name, params=params, ret=self.ret, err=self.E,
                          kind="pure" if self.pure else "outcome", uses_ct=self.uses_ct)


# ------------------------------------------------------------------------------------------------
# the translation unit: locating the items in src/lib.rs

PREAMBLE = r'''
/-! ### primitives of the translation (fixed text, not derived from the source) -/

/-- `for b in bytes { s = f(b, s)? }` -/
def forEach {ε σ : Type} (f : UInt8 → σ → Outcome ε σ) : List UInt8 → σ → Outcome ε σ
  | [], s => .ok s
  | b :: r, s => (f b s).bind (forEach f r)

/-- `ArrayString<cap>::push(c as char)`: appends the UTF-8 encoding, panics when it does not fit -/
def arrayStringPush {ε : Type} (cap : Nat) (s : List UInt8) (c : UInt8) : Outcome ε (List UInt8) :=
  if s.length + (charUtf8 c).length ≤ cap then .ok (s ++ charUtf8 c) else .panic .capacity

/-- `a - b` on `usize` -/
def usub {ε : Type} (a b : Nat) : Outcome ε Nat := if b ≤ a then .ok (a - b) else .panic .arith

/-- `&s[lo..hi]` -/
def subslice {ε : Type} (s : List UInt8) (lo hi : Nat) : Outcome ε (List UInt8) :=
  if lo ≤ hi ∧ hi ≤ s.length then .ok ((s.take hi).drop lo) else .panic .index

/-- `<[u8]>::first_chunk::<n>()` -/
def firstChunk (n : Nat) (s : List UInt8) : Option (Vector UInt8 n) :=
  if h : n ≤ s.length then some ⟨(s.take n).toArray, by simp; omega⟩ else none

/-- `Option::unwrap` -/
def optUnwrap {ε α : Type} : Option α → Outcome ε α
  | some a => .ok a
  | none => .panic .assert

/-- `assert!(c)` -/
def assertO {ε : Type} (c : Bool) : Outcome ε Unit := if c then .ok () else .panic .assert

/-- an argument of a formatting operation, by its Rust type -/
inductive FmtArg where
  | u8 (v : UInt8)
  | usize (v : Nat)
  | char8 (c : UInt8)          -- `u8 as char`
  | str (utf8 : List UInt8)    -- `&str`
  deriving DecidableEq, Repr

/-- a piece of a `write!` format string: literal text, or `{spec}` applied to an argument
    (`""` Display, `":?"` Debug, `":x"` LowerHex, …) -/
inductive FmtPiece where
  | lit (s : String)
  | arg (spec : String) (a : FmtArg)
  deriving DecidableEq, Repr

/-- what a `fmt` function does with its `Formatter`, in order -/
inductive FmtOp where
  | writeStr (s : List UInt8)                          -- `f.write_str(s)`
  | write (pieces : List FmtPiece)                     -- `write!(f, "…", args…)`
  | debugTuple (name : String) (fields : List FmtArg)  -- `f.debug_tuple(name).field(&a)….finish()`
  deriving DecidableEq, Repr
'''

IMPLS = [
    # (source key prefix, header regex on the masked text, self type, {rust fn: lean name} | None = all fns by their own names)
    ("Hash", r"\bimpl\s+Hash\s*\{", HASH, None),
    ("From<arr>for Hash", r"\bimpl\s+From\s*<\s*\[\s*u8\s*;\s*OUT_LEN\s*\]\s*>\s*for\s+Hash\s*\{", HASH, {"from": "from_array"}),
    ("From<hash>for arr", r"\bimpl\s+From\s*<\s*Hash\s*>\s*for\s+\[\s*u8\s*;\s*OUT_LEN\s*\]\s*\{", "ARR", {"from": "into_array"}),
    ("FromStr for Hash", r"\bimpl\s+(?:core::|std::)?str::FromStr\s+for\s+Hash\s*\{", HASH, {"from_str": "from_str"}),
    ("PartialEq for Hash", r"\bimpl\s+PartialEq\s+for\s+Hash\s*\{", HASH, {"eq": "eq_hash"}),
    ("PartialEq<arr> for Hash", r"\bimpl\s+PartialEq\s*<\s*\[\s*u8\s*;\s*OUT_LEN\s*\]\s*>\s*for\s+Hash\s*\{", HASH, {"eq": "eq_array"}),
    ("PartialEq<slice> for Hash", r"\bimpl\s+PartialEq\s*<\s*\[\s*u8\s*\]\s*>\s*for\s+Hash\s*\{", HASH, {"eq": "eq_slice"}),
    ("Display for Hash", r"\bimpl\s+(?:core::|std::)?fmt::Display\s+for\s+Hash\s*\{", HASH, {"fmt": "fmt_display"}),
    ("Debug for Hash", r"\bimpl\s+(?:core::|std::)?fmt::Debug\s+for\s+Hash\s*\{", HASH, {"fmt": "fmt_debug"}),
    ("Display for HexError", r"\bimpl\s+(?:core::|std::)?fmt::Display\s+for\s+HexError\s*\{", HEXERR, {"fmt": "hex_error_fmt_display"}),
]
HASH_FNS = ["as_bytes", "from_bytes", "as_slice", "from_slice", "to_hex", "from_hex"]
VARIANT_MAP = {("InvalidByte", ("u8",)): ("invalidByte", [U8]), ("InvalidLen", ("usize",)): ("invalidLen", [USZ])}


def sig_text(raw, name):
    """the signature of `fn name` as written (for docstrings only)"""
    mk = mask(raw)
    m = re.search(r"(?:pub\s+)?(?:const\s+)?fn\s+%s\b" % name, mk)
    if not m:
        return "fn " + name
    i, depth = m.end(), 0
    while i < len(mk):
        c = mk[i]
        if c in "<([":
            depth += 1
        elif c in ")]" or (c == ">" and mk[i - 1] != "-"):
            depth -= 1
        elif c == "{" and depth == 0:
            break
        i += 1
    return re.sub(r"\s+", " ", raw[m.start():i]).strip()


class Unit:
    def __init__(self):
        self.text = X.src(L)
        self.masked = mask(self.text)
        self.out_len = X.rust_const_int(A, L, "OUT_LEN")
        self.consts = {"OUT_LEN": self.out_len}
        if self.out_len != 32:
            broken("OUT_LEN", f"is {self.out_len}; the Lean types of the model (`Vector UInt8 32`) are fixed at 32")
        self.sources, self.done, self.defs, self.in_progress = {}, {}, [], []
        self.check_types()
        self.order = []
        for prefix, hre, self_ty, names in IMPLS:
            self.load_impl(prefix, hre, ARR(self.out_len) if self_ty == "ARR" else self_ty, names)

    def find_once(self, regex, what):
        ms = list(re.finditer(regex, self.masked))
        if len(ms) != 1:
            broken(what, f"expected exactly one match of /{regex}/ in {L}, found {len(ms)}")
        return ms[0]

    def check_types(self):
        m = self.find_once(r"\bpub\s+struct\s+Hash\s*\(([^)]*)\)\s*;", "struct Hash")
        X.record_span(A, L, m.start(), m.end())
        if re.sub(r"\s+", "", m.group(1)) not in ("[u8;OUT_LEN]", "[u8;OUT_LEN],"):
            broken("struct Hash", f"fields `{m.group(1).strip()}` (expected the single field `[u8; OUT_LEN]`)")
        m = self.find_once(r"\bpub\s+struct\s+HexError\s*\(([^)]*)\)\s*;", "struct HexError")
        X.record_span(A, L, m.start(), m.end())
        if re.sub(r"\s+", "", m.group(1)) not in ("HexErrorInner", "HexErrorInner,"):
            broken("struct HexError", f"fields `{m.group(1).strip()}` (expected the single field `HexErrorInner`)")
        m = self.find_once(r"\benum\s+HexErrorInner\s*\{", "enum HexErrorInner")
        end = X.match_brace(self.masked, m.end() - 1)
        X.record_span(A, L, m.start(), end)
        body = self.masked[m.end():end - 1]
        self.variants, self.variant_list = {}, []
        for part in [p.strip() for p in body.split(",") if p.strip()]:
            mv = re.fullmatch(r"(\w+)\s*\(\s*(\w+)\s*\)", part)
            if not mv or (mv.group(1), (mv.group(2),)) not in VARIANT_MAP:
                broken("enum HexErrorInner", f"variant `{part}` has no counterpart in the model's `HexError`")
            self.variants[mv.group(1)] = VARIANT_MAP[(mv.group(1), (mv.group(2),))]
            self.variant_list.append(f"{mv.group(1)}({mv.group(2)})")
        if len(self.variants) != len(VARIANT_MAP):
            broken("enum HexErrorInner", f"variants {self.variant_list}: the model's `HexError` has exactly InvalidByte(u8), InvalidLen(usize)")

    def load_impl(self, prefix, hre, self_ty, names):
        m = self.find_once(hre, f"impl {prefix}")
        b0 = m.end() - 1
        b1 = X.match_brace(self.masked, b0)
        X.record_span(A, L, m.start(), b1)
        raw = self.text[b0 + 1:b1 - 1]
        items = Parser(lex(raw, f"impl {prefix}"), f"impl {prefix}").impl_items()
        wanted = names if names is not None else {n: n for n in HASH_FNS}
        for rn, ln in wanted.items():
            if rn not in items["fns"]:
                broken(f"impl {prefix}", f"fn {rn} not found")
            it = items["fns"][rn]
            it["doc"] = sig_text(raw, rn)
            for st in it["body"][1]:
                if st[0] == "fn":
                    st[1]["doc"] = sig_text(raw, st[1]["name"])
            self.sources[(prefix, rn)] = (it, self_ty, items["types"], ln)
            self.order.append((prefix, rn))

    def get(self, key, caller):
        if key in self.done:
            return self.done[key]
        if key in self.in_progress:
            broken("::".join(map(str, key)), "recursive call chain")
        if key not in self.sources:
            broken("::".join(map(str, key)), "not among the translated functions")
        item, self_ty, assoc, lean = self.sources[key]
        lean = lean or item["name"]
        if lean in [d["lean"] for d in self.done.values()]:
            broken(lean, "two translated functions with the same Lean name")
        if "doc" not in item:
            item["doc"] = "fn " + item["name"] + "(" + ", ".join(p for p, _ in item["params"]) + ")"
        self.in_progress.append(key)
        try:
            text, info = FnTr(self, key, item, self_ty, assoc, lean).translate()
        except X.TranslationBroken:
            raise
        except NeedMonad:
            raise
        except Exception as ex:      # a translator bug is a broken translation, never a silent skip
            broken("::".join(map(str, key)), f"translator error {ex!r}")
        self.in_progress.pop()
        self.defs.append(text)
        self.done[key] = info
        return info


def gen_rs_hash():
    U = Unit()
    for key in U.order:
        U.get(key, None)
    o = ["/- GENERATED by gen/ext_hex.py from /repo/src/lib.rs (`Hash`: conversions, hex, comparisons, formatting; `HexError`) -- do not edit",
         "",
         "Every function is translated statement by statement from the source text.  Types: `u8` = UInt8, `usize` = Nat,",
         "`[u8; OUT_LEN]` = Vector UInt8 32, `&[u8]` / `&str` / `ArrayString` / `impl AsRef<[u8]>` = List UInt8 (a string is its UTF-8",
         "bytes), `u8 as char` = the byte (Latin-1 code point), `Hash` = B3.Hex.Hash (`.0` = `.bytes`), `HexError(HexErrorInner::V(x))`",
         "= B3.Hex.HexError.v x, `Result<T, E>` and every operation that can panic = `Outcome E T` of B3.Hex.Model (checked `u8` /",
         "`usize` arithmetic, slice indexing, array stores, `ArrayString::push`).  Constant expressions over literals and crate",
         "constants are folded (rustc rejects overflow in them).  `constant_time_eq::*` are the fields of `C : CtEq` (documented",
         "contract).  A `fmt` function returns the list of operations it performs on its `Formatter`.  `debug_assert!` lines are",
         "dropped.  References and dereferences are transparent. -/",
         "import B3.Hex.Model", "namespace B3.Gen.RsHash", "open B3.Hex", "set_option linter.unusedVariables false",
         PREAMBLE,
         "/-! ### from the source -/", "",
         f"/-- `pub const OUT_LEN: usize` -/\ndef OUT_LEN : Nat := {U.out_len}", "",
         f"/-- `enum HexErrorInner {{ {', '.join(U.variant_list)} }}` in declaration order (`struct HexError(HexErrorInner)`) -/",
         "def hexErrorVariants : List String := [" + ", ".join(f'"{v}"' for v in U.variant_list) + "]", ""]
    o += U.defs
    o.append("end B3.Gen.RsHash")
    return "\n".join(o) + "\n"


ARTEFACTS = [("RsHash.lean", A, gen_rs_hash)]
