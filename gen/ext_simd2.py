"""G16-rs-avx2: src/rust_avx2.rs -> lean/B3/Gen/RsAvx2.lean;  G17-rs-sse2: src/rust_sse2.rs -> lean/B3/Gen/RsSse2.lean
(the Rust AVX2 / SSE2 intrinsics kernels), via gen/extract_simd2.py -- a copy of gen/extract_simd.py made generic in the
source file (vector type, intrinsics table, wrappers, list of functions); gen/extract_simd.py itself is unchanged."""
import os
import sys

import extract as X

sys.path.insert(0, os.path.dirname(os.path.abspath(__file__)))
import extract_simd2 as S2   # noqa: E402


def _run(artefact, target):
    try:
        return S2.Generator(X.REPO, target).run()
    except X.TranslationBroken as ex:
        # the message names the source file and the function: "rust_avx2: hash8: ..."
        raise X.TranslationBroken(artefact, str(getattr(ex, "reason", ex)))
    except Exception as ex:
        if type(ex).__name__ == "TranslationBroken":
            raise X.TranslationBroken(artefact, str(ex))
        raise


def gen_rs_avx2():
    return _run("G16-rs-avx2", S2.AVX2)


def gen_rs_sse2():
    return _run("G17-rs-sse2", S2.SSE2)


ARTEFACTS = [("RsAvx2.lean", "G16-rs-avx2", gen_rs_avx2),
             ("RsSse2.lean", "G17-rs-sse2", gen_rs_sse2)]
