"""G44-asm-sse41-hash-many-wgnu: the hand-written assembly routine `blake3_hash_many_sse41` of the Windows-GNU file
(c/blake3_sse41_x86-64_windows_gnu.S) -> lean/B3/Gen/AsmSse41ManyWgnu.lean: the WHOLE routine (Win64 prologue: eight
pushes, frame of 528 bytes, ten XMM saves, the arguments moved into the registers the unix body uses; the 4-way loop; the
2-input and 1-input tails; epilogue with the ten XMM restores and eight pops) as ONE instruction list over the instruction
type `Instr` of lean/B3/Asm/ManySem.lean, with the meaning given by lean/B3/Asm/ManyWSem.lean (= ManySem + the one form
`movzx r64, byte ptr [..]`, which the unix routine does not use), and the file's `.rdata` section as a byte list.

Everything is read from the source text.  Reused, unchanged (imported, not edited):
  * the operand parser and the shape checker of gen/ext_asm_many.py (`ManyFile._operand2`, `_fits2`): xmm / gpr 8-32-64 /
    `<size> ptr [base(+index)(+-disp)]` / `[LABEL+rip]` / immediates / GNU-as local labels `Nb` `Nf`;
  * the `.rdata` parser of gen/ext_asm_wgnu.py (`WinAsmFile._parse_rodata`: exactly one `.section .rdata` line, no
    preprocessor line anywhere in the file, only an alignment directive, labels and data after it).
New here: the routine walker (a copy of `ManyFile.routine_to_next_label` that takes its signature table from THIS module:
`ext_asm_many.SIGS` is a module global and must stay what it is) and the table `SIGS` = that of ext_asm_many plus
`movzx r64, m8`.  As there: routine = the statements from its label to the next NAMED label; one `Instr` per statement in
source order; `.p2align N` inside the routine is NOP padding and produces nothing; the last instruction must be `jmp`/`ret`;
anything not understood (mnemonic, operand shape, directive, `#` line, `;`, unresolved local label ...) raises
TranslationBroken.  Nothing else is dropped; comments and whitespace do not matter.
"""
import os
import re
import sys

import extract as X

sys.path.insert(0, os.path.dirname(os.path.abspath(__file__)))
try:
    import ext_asm_sem as S
    import ext_asm_many as M
    import ext_asm_wgnu as W
finally:
    sys.path.pop(0)

ART = "G44-asm-sse41-hash-many-wgnu"

# the signature table of ext_asm_many (copied, not shared) + the one new form
SIGS = {k: list(v) for k, v in M.SIGS.items()}
SIGS["movzx"] = SIGS["movzx"] + [("r64", "mb")]


class ManyWFile(M.ManyFile):
    """c/blake3_sse41_x86-64_windows_gnu.S: COFF section header (`.section .rdata`), routine parser of ext_asm_many"""

    _parse_rodata = W.WinAsmFile._parse_rodata

    def routine_to_next_label(self, name):
        """-> list of (mnemonic, [operand Lean text], source text, line no), labels resolved"""
        starts = [k for k, ln in enumerate(self.lines) if re.fullmatch(rf"\s*{re.escape(name)}\s*:\s*", ln)]
        if len(starts) != 1:
            self.broken(f"{name}: label not found in {self.rel}" if not starts else f"{name}: label defined {len(starts)} times")
        k0 = starts[0]
        if not (self.syntax_line < k0 < self.rodata_line):
            self.broken(f"{name}: not between `.intel_syntax noprefix` and the .rdata section")
        stmts = []      # (mnemonic, operand strings, line index)
        local = {}      # numeric label -> [instruction indices]
        k = k0 + 1
        end = None
        while k < self.rodata_line:
            s = self.lines[k].strip()
            ln = k
            k += 1
            if not s:
                continue
            if ";" in s:
                self.broken(f"{name}: line {ln+1}: `;` statement separator")
            m = S.LABEL_RE.match(s) if not s.startswith(".") and not s.startswith("#") else None
            named = False
            while m:
                lab, s = m.group(1), m.group(2).strip()
                if lab.isdigit():
                    local.setdefault(lab, []).append(len(stmts))
                else:
                    named = True
                    break
                m = S.LABEL_RE.match(s) if s else None
            if named:
                end = ln
                break
            if not s:
                continue
            if s.startswith("#"):
                self.broken(f"{name}: line {ln+1}: preprocessor line inside the routine: `{s}`")
            if s.startswith("."):
                parts = s.split()
                if parts[0] == ".p2align" and len(parts) == 2 and re.fullmatch(r"[0-9]+", parts[1]):
                    continue        # padding: NOPs, no architectural effect
                self.broken(f"{name}: line {ln+1}: directive inside the routine: `{s}`")
            parts = s.split(None, 1)
            mn = parts[0]
            ops = self._split_operands(parts[1], name, ln) if len(parts) > 1 else []
            stmts.append((mn, ops, ln))
        if end is None:
            self.broken(f"{name}: no named label (start of the next function) after the routine")
        if not stmts:
            self.broken(f"{name}: empty routine")
        if stmts[-1][0] not in ("jmp", "ret"):
            self.broken(f"{name}: the last instruction `{stmts[-1][0]}` is neither `jmp` nor `ret` (control would fall into the next function)")
        self.span(k0, stmts[-1][2])
        out = []
        n = len(stmts)
        for idx, (mn, ops, ln) in enumerate(stmts):
            where = f"{name}: line {ln+1} `{self.lines[ln].strip()}`"
            if mn not in SIGS:
                self.broken(f"{where}: unknown mnemonic `{mn}`")
            parsed = [self._operand2(o, where, idx, local, n) for o in ops]
            ok = False
            for sig in SIGS[mn]:
                if len(sig) == len(parsed) and all(self._fits2(p, sg, parsed) for p, sg in zip(parsed, sig)):
                    ok = True
                    break
            if not ok:
                self.broken(f"{where}: operand shapes {tuple(p[0] + ':' + str(p[2]) for p in parsed)} are not among the modelled forms of `{mn}`")
            if mn in ("shl", "shr") and parsed[0][2] == "b8":
                self.broken(f"{where}: 8-bit shift is not modelled")
            if mn == "mov" and parsed[1][0] == "i" and parsed[0][2] == "q64" and parsed[1][2] >= 2 ** 31:
                self.broken(f"{where}: immediate does not fit `mov r64, imm32` without sign extension")
            lean_ops = [p[1] for p in parsed]
            if mn == "blendvps":
                lean_ops = lean_ops[:2]      # the mask register xmm0 is implicit in the semantics (checked above: X0)
            out.append((M.MN_ALIAS.get(mn, mn), lean_ops, self.lines[ln].strip(), ln + 1))
        return out


def gen_manyw():
    rel = "c/blake3_sse41_x86-64_windows_gnu.S"
    f = ManyWFile(ART, rel)
    f.used_labels = set()
    sym = "blake3_hash_many_sse41"
    ins = f.routine_to_next_label(sym)
    out = []
    out.append(f"""/- GENERATED by gen/ext_asm_manyw.py from {rel} -- do not edit.

The Windows-GNU SSE4.1 assembly routine `{sym}` as DATA: one `Instr` per instruction of the source, in
source order, from the routine's label to the start of the next function (the comment on each line is the source statement
and its index; jump operands are instruction indices, the GNU-as local labels `2: 3: 4: 9:` resolved by the translator;
je/jne/jb/jae are spelled jz/jnz/jc/jnc; the third operand `xmm0` of `blendvps` is implicit), and the `.rdata` section of
the file as a byte list with the offsets of its labels.  `.p2align` padding lines inside the routine produce no instruction
(NOP padding); nothing else is dropped.  The meaning of the instructions is given by `B3/Asm/ManyWSem.lean` (`exec`, `step`,
`run`: those of `B3/Asm/ManySem.lean` plus `movzx r64, byte ptr [..]`); nothing here is executable by itself. -/
import B3.Asm.ManySem
namespace B3.Gen.AsmSse41ManyWgnu
open B3 B3.Simd B3.AsmSem.Many
open B3.AsmSem (rax rcx rdx rbx rsp rbp rsi rdi r8 r9 r10 r11 r12 r13 r14 r15)

/-- alignment of the start of the `.rdata` section (its first directive) -/
def rodataAlign : Nat := {f.ro_align}

/-- the `.rdata` section, from its alignment directive to the end of the file ({len(f.rodata)} bytes) -/
def rodata : List UInt8 := {S.lean_bytes(f.rodata, f.ro_marks, f.ro_labels)}
""")
    out.append("/-! offsets of the labels of the section -/")
    for name in f.ro_label_order:
        out.append(f"def off_{name} : Nat := {f.ro_labels[name]}")
    out.append("")
    out.append("/-- the 16 bytes at offset `o` of the section as four little-endian doublewords -/")
    out.append("def tableAt (o : Nat) : V4 :=")
    out.append("  #v[le32 (rodata.getD o 0) (rodata.getD (o + 1) 0) (rodata.getD (o + 2) 0) (rodata.getD (o + 3) 0),")
    out.append("     le32 (rodata.getD (o + 4) 0) (rodata.getD (o + 5) 0) (rodata.getD (o + 6) 0) (rodata.getD (o + 7) 0),")
    out.append("     le32 (rodata.getD (o + 8) 0) (rodata.getD (o + 9) 0) (rodata.getD (o + 10) 0) (rodata.getD (o + 11) 0),")
    out.append("     le32 (rodata.getD (o + 12) 0) (rodata.getD (o + 13) 0) (rodata.getD (o + 14) 0) (rodata.getD (o + 15) 0)]")
    out.append("")
    out.append("/-! the 16-byte tables the routine reads (`[LABEL+rip]`), as lanes -/")
    for name in f.ro_label_order:
        if name not in f.used_labels:
            continue
        off = f.ro_labels[name]
        words = [int.from_bytes(bytes(f.rodata[off + 4 * i: off + 4 * i + 4]), "little") for i in range(4)]
        out.append(f"def {name} : V4 := #v[" + ", ".join(f"0x{w:08X}" for w in words) + "]")
        out.append(f"example : tableAt off_{name} = {name} := by decide")
    out.append("")
    out.append(f"/-- `{sym}` ({len(ins)} instructions, {rel} lines {ins[0][3]}-{ins[-1][3]}) -/")
    out.append("def hash_many : List Instr := [")
    rows = []
    for idx, (mn, ops, text, ln) in enumerate(ins):
        rows.append((f"  I .{mn} [{', '.join(ops)}]", f"-- {idx:4d}: {text}"))
    width = min(max(len(r[0]) for r in rows) + 1, 64)
    for idx, (a, b) in enumerate(rows):
        sep = "," if idx + 1 < len(rows) else ""
        out.append((a + sep).ljust(width + 1) + b)
    out.append("]")
    out.append("")
    out.append("end B3.Gen.AsmSse41ManyWgnu")
    return "\n".join(out) + "\n"


ARTEFACTS = [("AsmSse41ManyWgnu.lean", ART, gen_manyw)]
