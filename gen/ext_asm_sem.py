"""G27-asm-sse41-compress / G29-asm-sse2-compress: the hand-written assembly routines
`blake3_compress_in_place_sse41`, `blake3_compress_xof_sse41` (c/blake3_sse41_x86-64_unix.S) and
`blake3_compress_in_place_sse2`, `blake3_compress_xof_sse2` (c/blake3_sse2_x86-64_unix.S)
-> lean/B3/Gen/AsmSse41.lean, lean/B3/Gen/AsmSse2.lean: instruction lists as DATA over the instruction type of
lean/B3/Asm/Sse.lean (which gives them a machine semantics), and the `.rodata` section as a byte list.

Everything is read from the source text (GNU assembler, `.intel_syntax noprefix`, run through cpp):
  * a routine = the statements from its label to the first `ret` (inclusive); one `Instr` per instruction statement, in order;
    labels are positions; the GNU-as local labels `N:` / `Nb` / `Nf` are resolved here (`Nb` = the nearest definition of `N`
    before the jump, `Nf` = the nearest one after it) to instruction indices;
  * `_CET_ENDBR` (a macro that is either `endbr64` or empty) -> `endbr64`, architecturally a NOP;
  * operands: `xmmN`; general purpose registers of width 8 (low byte) / 32 / 64; `xmmword ptr [reg]`, `[reg+disp]`;
    `xmmword ptr [LABEL+rip]` -> `.rip <offset of LABEL in the .rodata section>`; immediates (decimal / 0x hex);
  * `.rodata`: the section from its `.p2align` to the end of the file, directive by directive (`.long`, `.byte`, `.short`/`.word`,
    `.quad`; little-endian), as ONE byte list + the offset of every label + its alignment; for every label a translated routine
    loads from, also the 16 bytes at the label as a `V4` constant (checked against the byte list by a `decide` in the file).
The ELF branch of the two `#ifdef __APPLE__` conditionals is the one translated; their shape is checked.
Anything else (unknown mnemonic, operand shape not in the signature table of the mnemonic, directive or preprocessor line
inside a routine, label not found, jump out of the routine, ...) raises TranslationBroken.
"""
import re

import extract as X

GPR64 = ["rax", "rcx", "rdx", "rbx", "rsp", "rbp", "rsi", "rdi", "r8", "r9", "r10", "r11", "r12", "r13", "r14", "r15"]
GPR32 = ["eax", "ecx", "edx", "ebx", "esp", "ebp", "esi", "edi"] + [f"r{i}d" for i in range(8, 16)]
GPR8 = ["al", "cl", "dl", "bl", "spl", "bpl", "sil", "dil"] + [f"r{i}b" for i in range(8, 16)]
REGS = {}
for _i, _n in enumerate(GPR64):
    REGS[_n] = (_i, "q64")
for _i, _n in enumerate(GPR32):
    REGS[_n] = (_i, "d32")
for _i, _n in enumerate(GPR8):
    REGS[_n] = (_i, "b8")

# operand kinds: x = xmm register, m = 128-bit memory operand, r8/r32/r64 = gpr of that width, r = gpr of any width,
# i8 = immediate 0..255, i = immediate that fits the destination, t = jump target
V_X_XM = [("x", "x"), ("x", "m")]
V_X_XM_I = [("x", "x", "i8"), ("x", "m", "i8")]
SIGS = {
    "endbr64": [()],
    "movups": [("x", "x"), ("x", "m"), ("m", "x")],
    "movdqu": [("x", "x"), ("x", "m"), ("m", "x")],
    "movaps": [("x", "x"), ("x", "m"), ("m", "x")],
    "movdqa": [("x", "x"), ("x", "m"), ("m", "x")],
    "movq": [("x", "r64")],
    "paddd": V_X_XM, "pxor": V_X_XM, "por": V_X_XM, "pand": V_X_XM, "pshufb": V_X_XM,
    "punpcklqdq": V_X_XM, "punpckldq": V_X_XM, "punpckhdq": V_X_XM,
    "pslld": [("x", "i8")], "psrld": [("x", "i8")],
    "pshufd": V_X_XM_I, "pshuflw": V_X_XM_I, "pshufhw": V_X_XM_I, "shufps": V_X_XM_I, "pblendw": V_X_XM_I,
    "mov": [("r", "i")],
    "movzx": [("r32", "r8")],
    "shl": [("r", "i8")],
    "add": [("r", "r")],
    "dec": [("r",)],
    "jz": [("t",)], "je": [("t",)],
    "jmp": [("t",)],
    "ret": [()],
}
MN_ALIAS = {"je": "jz"}

LABEL_RE = re.compile(r"^\s*([A-Za-z_.$][\w.$]*|\d+)\s*:\s*(.*)$")
DATA_SIZES = {".byte": 1, ".short": 2, ".word": 2, ".value": 2, ".long": 4, ".int": 4, ".quad": 8}


def parse_int(tok, art, where):
    t = tok.strip()
    try:
        if re.fullmatch(r"0[xX][0-9a-fA-F]+", t):
            return int(t, 16)
        if re.fullmatch(r"[0-9]+", t):
            return int(t, 10)
    except ValueError:
        pass
    raise X.TranslationBroken(art, f"{where}: cannot read the number `{tok}`")


class AsmFile:
    def __init__(self, art, rel):
        self.art = art
        self.rel = rel
        raw = X.src(rel)
        self.raw_lines = raw.split("\n")
        self.lines = X.strip_comments(raw).split("\n")
        if len(self.lines) != len(self.raw_lines):
            raise X.TranslationBroken(art, f"{rel}: comment stripping changed the number of lines")
        self.line_start = [0]
        for ln in self.raw_lines:
            self.line_start.append(self.line_start[-1] + len(ln) + 1)
        self.syntax_line = None
        for k, ln in enumerate(self.lines):
            s = ln.strip()
            if s.startswith(".att_syntax"):
                raise X.TranslationBroken(art, f"{rel}:{k+1}: .att_syntax")
            if s.startswith(".intel_syntax"):
                if s.split() != [".intel_syntax", "noprefix"] or self.syntax_line is not None:
                    raise X.TranslationBroken(art, f"{rel}:{k+1}: unexpected `{s}`")
                self.syntax_line = k
        if self.syntax_line is None:
            raise X.TranslationBroken(art, f"{rel}: no `.intel_syntax noprefix`")
        self._parse_rodata()

    def broken(self, what):
        raise X.TranslationBroken(self.art, what)

    def span(self, l0, l1):
        X.record_span(self.art, self.rel, self.line_start[l0], self.line_start[l1 + 1] - 1)

    # ---- .rodata -----------------------------------------------------------------------------------------------
    def _parse_rodata(self):
        idx = [k for k, ln in enumerate(self.lines) if ln.split() == [".section", ".rodata"]]
        if len(idx) != 1:
            self.broken(f"{self.rel}: expected exactly one `.section .rodata` line, found {len(idx)}")
        k = idx[0]
        ctx = [self.lines[j].strip() for j in range(k - 3, k + 2)] if k >= 3 and k + 1 < len(self.lines) else []
        if ctx != ["#ifdef __APPLE__", ".static_data", "#else", ".section .rodata", "#endif"]:
            self.broken(f"{self.rel}:{k+1}: the conditional around `.section .rodata` does not have the expected shape")
        self.rodata_line = k
        data = []
        self.ro_labels = {}
        self.ro_label_order = []
        self.ro_align = None
        self.ro_marks = []   # (offset, text) for comments
        for j in range(k + 2, len(self.lines)):
            s = self.lines[j].strip()
            if not s:
                continue
            m = LABEL_RE.match(s)
            if m and not s.startswith("."):
                name, rest = m.group(1), m.group(2).strip()
                if name.isdigit():
                    self.broken(f"{self.rel}:{j+1}: local label in .rodata")
                if name in self.ro_labels:
                    self.broken(f"{self.rel}:{j+1}: label {name} defined twice")
                if self.ro_align is None:
                    self.broken(f"{self.rel}:{j+1}: label before the section's alignment directive")
                self.ro_labels[name] = len(data)
                self.ro_label_order.append(name)
                s = rest
                if not s:
                    continue
            parts = s.split(None, 1)
            d = parts[0]
            if d in (".p2align", ".balign", ".align"):
                if self.ro_align is not None or data or self.ro_labels:
                    self.broken(f"{self.rel}:{j+1}: alignment directive inside the .rodata data (padding is not modelled)")
                args = [a.strip() for a in (parts[1] if len(parts) > 1 else "").split(",")]
                if len(args) != 1:
                    self.broken(f"{self.rel}:{j+1}: `{s}`: alignment directive with fill arguments")
                n = parse_int(args[0], self.art, f"{self.rel}:{j+1}")
                self.ro_align = 2 ** n if d == ".p2align" else n
                if d == ".align":
                    self.broken(f"{self.rel}:{j+1}: `.align` is target dependent; use .p2align/.balign")
                continue
            if d in DATA_SIZES:
                if self.ro_align is None:
                    self.broken(f"{self.rel}:{j+1}: data before the section's alignment directive")
                size = DATA_SIZES[d]
                if len(parts) < 2:
                    self.broken(f"{self.rel}:{j+1}: `{d}` without values")
                self.ro_marks.append((len(data), s))
                for tok in parts[1].split(","):
                    v = parse_int(tok, self.art, f"{self.rel}:{j+1}")
                    if v >= 2 ** (8 * size):
                        self.broken(f"{self.rel}:{j+1}: value {tok.strip()} does not fit `{d}`")
                    data += list(v.to_bytes(size, "little"))
                continue
            self.broken(f"{self.rel}:{j+1}: unexpected statement in .rodata: `{s}`")
        if self.ro_align is None:
            self.broken(f"{self.rel}: .rodata without alignment directive")
        self.rodata = data
        self.span(k - 3, len(self.lines) - 1)

    # ---- routines ------------------------------------------------------------------------------------------------
    def routine(self, name):
        """-> list of (mnemonic, [operand Lean text], source text, line no), labels resolved"""
        starts = [k for k, ln in enumerate(self.lines) if re.fullmatch(rf"\s*{re.escape(name)}\s*:\s*", ln)]
        if len(starts) != 1:
            self.broken(f"{name}: label not found in {self.rel}" if not starts else f"{name}: label defined {len(starts)} times")
        k0 = starts[0]
        if not (self.syntax_line < k0 < self.rodata_line):
            self.broken(f"{name}: not between `.intel_syntax noprefix` and the .rodata section")
        stmts = []      # (mnemonic, operand strings, line index)
        labels = {}     # named label -> instruction index
        local = {}      # numeric label -> [instruction indices]
        k = k0
        done = False
        while k < self.rodata_line and not done:
            s = self.lines[k].strip()
            ln = k
            k += 1
            if not s:
                continue
            if ";" in s:
                self.broken(f"{name}: line {ln+1}: `;` statement separator")
            m = LABEL_RE.match(s)
            while m:
                lab, s = m.group(1), m.group(2).strip()
                if lab.isdigit():
                    local.setdefault(lab, []).append(len(stmts))
                else:
                    if lab in labels:
                        self.broken(f"{name}: label {lab} defined twice")
                    labels[lab] = len(stmts)
                m = LABEL_RE.match(s) if s else None
            if not s:
                continue
            if s.startswith("#"):
                self.broken(f"{name}: line {ln+1}: preprocessor line inside the routine: `{s}`")
            if s.startswith("."):
                self.broken(f"{name}: line {ln+1}: directive inside the routine: `{s}`")
            parts = s.split(None, 1)
            mn = parts[0]
            ops = self._split_operands(parts[1], name, ln) if len(parts) > 1 else []
            if mn == "_CET_ENDBR":
                if ops:
                    self.broken(f"{name}: line {ln+1}: `_CET_ENDBR` with operands")
                mn = "endbr64"
            stmts.append((mn, ops, ln))
            if mn == "ret":
                done = True
        if not done:
            self.broken(f"{name}: no `ret` before the .rodata section")
        self.span(k0, stmts[-1][2])
        out = []
        for idx, (mn, ops, ln) in enumerate(stmts):
            where = f"{name}: line {ln+1} `{self.lines[ln].strip()}`"
            if mn not in SIGS:
                self.broken(f"{where}: unknown mnemonic `{mn}`")
            parsed = [self._operand(o, where, idx, labels, local, len(stmts)) for o in ops]
            kinds = tuple(p[0] for p in parsed)
            ok = False
            for sig in SIGS[mn]:
                if len(sig) == len(kinds) and all(self._fits(kd, p, sg) for kd, p, sg in zip(kinds, parsed, sig)):
                    ok = True
                    break
            if not ok:
                self.broken(f"{where}: operand shapes {kinds} are not among the modelled forms of `{mn}`")
            if mn == "add" and len(parsed) == 2 and parsed[0][0] == "r" and parsed[1][0] == "r" \
                    and parsed[0][2] != parsed[1][2]:
                self.broken(f"{where}: operand widths differ")
            if mn == "mov" and parsed[1][0] == "i":
                width = {"b8": 8, "d32": 32, "q64": 31}[parsed[0][2]]   # mov r64, imm32 sign-extends: only non-negative imm31
                if parsed[1][2] >= 2 ** width:
                    self.broken(f"{where}: immediate does not fit the destination")
            if mn == "shl" and parsed[0][2] == "b8":
                self.broken(f"{where}: 8-bit shift is not modelled")
            out.append((MN_ALIAS.get(mn, mn), [p[1] for p in parsed], self.lines[ln].strip(), ln + 1))
        return out

    @staticmethod
    def _fits(kind, parsed, sig):
        if sig == "x":
            return kind == "x"
        if sig == "m":
            return kind == "m"
        if sig == "r":
            return kind == "r"
        if sig in ("r8", "r32", "r64"):
            return kind == "r" and parsed[2] == {"r8": "b8", "r32": "d32", "r64": "q64"}[sig]
        if sig == "i8":
            return kind == "i" and parsed[2] < 256
        if sig == "i":
            return kind == "i"
        if sig == "t":
            return kind == "t"
        return False

    def _split_operands(self, text, name, ln):
        depth = 0
        cur = ""
        res = []
        for ch in text:
            if ch == "[":
                depth += 1
            elif ch == "]":
                depth -= 1
                if depth < 0:
                    self.broken(f"{name}: line {ln+1}: unbalanced brackets")
            if ch == "," and depth == 0:
                res.append(cur.strip())
                cur = ""
            else:
                cur += ch
        if depth != 0:
            self.broken(f"{name}: line {ln+1}: unbalanced brackets")
        res.append(cur.strip())
        if any(not r for r in res):
            self.broken(f"{name}: line {ln+1}: empty operand")
        return res

    def _operand(self, o, where, idx, labels, local, n):
        """-> (kind, Lean text, extra)"""
        m = re.fullmatch(r"xmm(\d+)", o)
        if m:
            r = int(m.group(1))
            if r > 15:
                self.broken(f"{where}: no register {o}")
            return ("x", f".xmm {r}", r)
        if o in REGS:
            r, w = REGS[o]
            return ("r", f".gpr {GPR64[r]} .{w}", w)
        if re.fullmatch(r"0[xX][0-9a-fA-F]+|[0-9]+", o):
            v = parse_int(o, self.art, where)
            return ("i", f".imm {v}", v)
        m = re.fullmatch(r"(\d+)([bf])", o)
        if m:
            defs = local.get(m.group(1), [])
            if m.group(2) == "b":
                cands = [d for d in defs if d <= idx]
                tgt = max(cands) if cands else None
            else:
                cands = [d for d in defs if d > idx]
                tgt = min(cands) if cands else None
            if tgt is None or tgt >= n:
                self.broken(f"{where}: local label `{o}` does not resolve inside the routine")
            return ("t", f".target {tgt}", tgt)
        m = re.fullmatch(r"(?:(\w+)\s+ptr\s*)?\[([^\[\]]*)\]", o, flags=re.I)
        if m:
            size = (m.group(1) or "").lower()
            if size != "xmmword":
                self.broken(f"{where}: memory operand `{o}`: only `xmmword ptr [..]` operands are modelled")
            inner = m.group(2).replace(" ", "").replace("\t", "")
            if "-" in inner or "*" in inner:
                self.broken(f"{where}: memory operand `{o}`: negative displacement / index register not modelled")
            terms = inner.split("+")
            if any(not t for t in terms):
                self.broken(f"{where}: memory operand `{o}`")
            if "rip" in terms:
                rest = [t for t in terms if t != "rip"]
                if len(rest) != 1 or not re.fullmatch(r"[A-Za-z_.$][\w.$]*", rest[0]) or rest[0] in REGS:
                    self.broken(f"{where}: memory operand `{o}`: expected [LABEL+rip]")
                lab = rest[0]
                if lab not in self.ro_labels:
                    self.broken(f"{where}: label {lab} is not defined in the .rodata section")
                off = self.ro_labels[lab]
                if off + 16 > len(self.rodata):
                    self.broken(f"{where}: fewer than 16 bytes of .rodata after {lab}")
                self.used_labels.add(lab)
                return ("m", f".rip {off}", lab)
            regs = [t for t in terms if t in REGS]
            nums = [t for t in terms if t not in REGS]
            if len(regs) != 1 or REGS[regs[0]][1] != "q64" or len(nums) > 1:
                self.broken(f"{where}: memory operand `{o}`: expected [reg64] or [reg64+disp]")
            disp = parse_int(nums[0], self.art, where) if nums else 0
            if disp >= 2 ** 31:
                self.broken(f"{where}: displacement out of range")
            return ("m", f".mem {regs[0]} {disp}", None)
        if re.fullmatch(r"[A-Za-z_.$][\w.$]*", o):
            if o in labels:
                return ("t", f".target {labels[o]}", labels[o])
            self.broken(f"{where}: `{o}` is neither a register nor a label of the routine")
        self.broken(f"{where}: operand `{o}` not understood")

    used_labels = None


def lean_bytes(data, marks, labels):
    by_off = {}
    for name, off in labels.items():
        by_off.setdefault(off, []).append(name)
    mark_at = dict(marks)
    lines = []
    offs = sorted(set(list(mark_at) + list(by_off) + [len(data)]))
    for a, b in zip(offs, offs[1:]):
        note = ""
        if a in by_off:
            note += " ".join(n + ":" for n in by_off[a]) + " "
        if a in mark_at:
            note += mark_at[a]
        chunk = ", ".join(str(x) for x in data[a:b])
        if chunk:
            lines.append(f"  /- {a:4d} {note.strip()} -/ {chunk}")
    body = ",\n".join(lines)
    return "[\n" + body + "]"


def gen_file(art, rel, module, routines, isa):
    f = AsmFile(art, rel)
    f.used_labels = set()
    lists = []
    for lean_name, sym in routines:
        lists.append((lean_name, sym, f.routine(sym)))
    out = []
    out.append(f"""/- GENERATED by gen/ext_asm_sem.py from {rel} -- do not edit.

The {isa} assembly routines {", ".join("`" + sym + "`" for _, sym, _ in lists)} as DATA:
one `Instr` per instruction of the source, in source order, from the routine's label to its `ret`
(the comment on each line is the source statement and its index; jump operands are instruction
indices, the GNU-as local labels resolved by the translator; `_CET_ENDBR` -> `endbr64`), and the
`.rodata` section of the file as a byte list with the offsets of its labels.  The meaning of the
instructions is given by `B3/Asm/Sse.lean` (`exec`, `step`, `run`); nothing here is executable by
itself.  Nothing is dropped from the routines. -/
import B3.Asm.Sse
namespace B3.Gen.{module}
open B3 B3.Simd B3.AsmSem

/-- alignment of the start of the `.rodata` section (its first directive) -/
def rodataAlign : Nat := {f.ro_align}

/-- the `.rodata` section, from its alignment directive to the end of the file ({len(f.rodata)} bytes) -/
def rodata : List UInt8 := {lean_bytes(f.rodata, f.ro_marks, f.ro_labels)}
""")
    out.append("/-! offsets of the labels of the section -/")
    for name in f.ro_label_order:
        out.append(f"def off_{name} : Nat := {f.ro_labels[name]}")
    out.append("")
    out.append("/-- the 16 bytes at offset `o` of the section as four little-endian doublewords -/")
    out.append("def tableAt (o : Nat) : V4 :=")
    out.append("  #v[le32 (rodata.getD o 0) (rodata.getD (o + 1) 0) (rodata.getD (o + 2) 0) (rodata.getD (o + 3) 0),")
    out.append("     le32 (rodata.getD (o + 4) 0) (rodata.getD (o + 5) 0) (rodata.getD (o + 6) 0) (rodata.getD (o + 7) 0),")
    out.append("     le32 (rodata.getD (o + 8) 0) (rodata.getD (o + 9) 0) (rodata.getD (o + 10) 0) (rodata.getD (o + 11) 0),")
    out.append("     le32 (rodata.getD (o + 12) 0) (rodata.getD (o + 13) 0) (rodata.getD (o + 14) 0) (rodata.getD (o + 15) 0)]")
    out.append("")
    out.append("/-! the 16-byte tables the routines load (`xmmword ptr [LABEL+rip]`), as lanes -/")
    for name in f.ro_label_order:
        if name not in f.used_labels:
            continue
        off = f.ro_labels[name]
        words = [int.from_bytes(bytes(f.rodata[off + 4 * i: off + 4 * i + 4]), "little") for i in range(4)]
        out.append(f"def {name} : V4 := #v[" + ", ".join(f"0x{w:08X}" for w in words) + "]")
        out.append(f"example : tableAt off_{name} = {name} := by decide")
    out.append("")
    for lean_name, sym, ins in lists:
        out.append(f"/-- `{sym}` ({len(ins)} instructions, {rel} lines {ins[0][3]}-{ins[-1][3]}) -/")
        out.append(f"def {lean_name} : List Instr := [")
        rows = []
        for idx, (mn, ops, text, ln) in enumerate(ins):
            rows.append((f"  I .{mn} [{', '.join(ops)}]", f"-- {idx:3d}: {text}"))
        width = max(len(r[0]) for r in rows) + 1
        for idx, (a, b) in enumerate(rows):
            sep = "," if idx + 1 < len(rows) else ""
            out.append((a + sep).ljust(width + 1) + b)
        out.append("]")
        out.append("")
    out.append(f"end B3.Gen.{module}")
    return "\n".join(out) + "\n"


def gen_sse41():
    return gen_file("G27-asm-sse41-compress", "c/blake3_sse41_x86-64_unix.S", "AsmSse41",
                    [("compress_in_place", "blake3_compress_in_place_sse41"), ("compress_xof", "blake3_compress_xof_sse41")],
                    "SSE4.1")


def gen_sse2():
    return gen_file("G29-asm-sse2-compress", "c/blake3_sse2_x86-64_unix.S", "AsmSse2",
                    [("compress_in_place", "blake3_compress_in_place_sse2"), ("compress_xof", "blake3_compress_xof_sse2")],
                    "SSE2")


ARTEFACTS = [("AsmSse41.lean", "G27-asm-sse41-compress", gen_sse41),
             ("AsmSse2.lean", "G29-asm-sse2-compress", gen_sse2)]
