#!/usr/bin/env python3
"""
gen/ext_b3sum.py -- artefact G11-b3sum: b3sum/src/main.rs  ->  lean/B3/Gen/B3sumParse.lean

A small Rust front end (lexer with char/string literals, expression/statement/pattern parser) and a
statement-by-statement translation of the checkfile functions of b3sum into the three-outcome monad
`Res ε α` (ok / err / panic) of lean/B3/B3sum/Model.lean:

    filepath_to_string, hex_half_byte, check_for_invalid_characters, unescape,
    split_untagged_check_line, split_tagged_check_line, parse_check_line,
    hash_one_input (the print!/println! statements), the `loop` of check_one_checkfile,
    the closure body of main (failure counting and the argument of std::process::exit).

Control flow is translated structurally (let / let-else / assignment / if / if-let / match on
literals / while-let -> fuel loop / loop -> fuel loop / for over a list / early return / `?` /
bail! / ensure! / print!).  Library operations are NOT interpreted: each one must be found in the
explicit table PRIMS below (trusted mapping to the model's primitives and to
lean/B3/B3sum/RustPrim.lean); anything else raises TranslationBroken.
"""
import os
import re
import sys

import extract as X

A = "G11-b3sum"
REL = "b3sum/src/main.rs"


class Unsupported(Exception):
    pass


# ------------------------------------------------------------------------------------------------
# lexer

PUNCT = ["..=", "...", "::", "->", "=>", "==", "!=", "<=", ">=", "&&", "||", "+=", "-=", "*=", "/=", "%=", "..",
         "+", "-", "*", "/", "%", "^", "!", "&", "|", "=", "<", ">", "@", ".", ",", ";", ":", "#", "$", "?",
         "(", ")", "[", "]", "{", "}"]

ESC = {"n": "\n", "r": "\r", "t": "\t", "\\": "\\", "0": "\0", "'": "'", '"': '"'}


def _escape(text, i):
    """text[i] is the char after a backslash; returns (char, next index)"""
    c = text[i]
    if c in ESC:
        return ESC[c], i + 1
    if c == "x":
        return chr(int(text[i + 1:i + 3], 16)), i + 3
    if c == "u" and text[i + 1] == "{":
        j = text.index("}", i)
        return chr(int(text[i + 2:j].replace("_", ""), 16)), j + 1
    raise Unsupported(f"escape \\{c}")


def lex(text, start):
    """tokens (kind, value, start, end); kinds: id num char str op err.  Lexing stops with an 'err' token at anything
    it does not understand (only a problem if the parser gets that far)."""
    toks = []
    i, n = start, len(text)
    while i < n:
        c = text[i]
        if c.isspace():
            i += 1
            continue
        if text.startswith("//", i):
            j = text.find("\n", i)
            i = n if j < 0 else j
            continue
        if text.startswith("/*", i):
            depth, j = 1, i + 2
            while j < n and depth:
                if text.startswith("/*", j):
                    depth += 1
                    j += 2
                elif text.startswith("*/", j):
                    depth -= 1
                    j += 2
                else:
                    j += 1
            i = j
            continue
        if c.isalpha() or c == "_":
            j = i
            while j < n and (text[j].isalnum() or text[j] == "_"):
                j += 1
            word = text[i:j]
            if word in ("b", "r", "br") and j < n and text[j] in "\"'#":
                toks.append(("err", f"byte/raw literal at offset {i}", i, i))
                return toks
            toks.append(("id", word, i, j))
            i = j
            continue
        if c.isdigit():
            m = re.compile(r"(0[xX][0-9a-fA-F_]+|0b[01_]+|\d[\d_]*)(u8|u16|u32|u64|usize|i8|i16|i32|i64|isize)?").match(text, i)
            lit = m.group(1).replace("_", "")
            toks.append(("num", (int(lit, 0), m.group(2)), i, m.end()))
            i = m.end()
            continue
        if c == '"':
            j, out = i + 1, []
            try:
                while text[j] != '"':
                    if text[j] == "\\":
                        if text[j + 1] == "\n":      # line continuation
                            j += 2
                            while text[j].isspace():
                                j += 1
                            continue
                        ch, j = _escape(text, j + 1)
                        out.append(ch)
                    else:
                        out.append(text[j])
                        j += 1
            except (IndexError, Unsupported, ValueError):
                toks.append(("err", f"string literal at offset {i}", i, i))
                return toks
            toks.append(("str", "".join(out), i, j + 1))
            i = j + 1
            continue
        if c == "'":
            # char literal or lifetime
            if i + 2 < n and text[i + 1] == "\\":
                try:
                    ch, j = _escape(text, i + 2)
                except (IndexError, Unsupported, ValueError):
                    toks.append(("err", f"char literal at offset {i}", i, i))
                    return toks
                if text[j] == "'":
                    toks.append(("char", ch, i, j + 1))
                    i = j + 1
                    continue
            elif i + 2 < n and text[i + 2] == "'":
                toks.append(("char", text[i + 1], i, i + 3))
                i += 3
                continue
            j = i + 1
            while j < n and (text[j].isalnum() or text[j] == "_"):
                j += 1
            toks.append(("life", text[i:j], i, j))
            i = j
            continue
        for p in PUNCT:
            if text.startswith(p, i):
                toks.append(("op", p, i, i + len(p)))
                i += len(p)
                break
        else:
            toks.append(("err", f"character {c!r} at offset {i}", i, i))
            return toks
    return toks


# ------------------------------------------------------------------------------------------------
# parser (the Rust subset used by b3sum/src/main.rs)

BINPREC = {"||": 1, "&&": 2, "==": 3, "!=": 3, "<": 3, ">": 3, "<=": 3, ">=": 3, "|": 4, "^": 5, "&": 6,
           "+": 8, "-": 8, "*": 9, "/": 9, "%": 9}
ASSIGN_OPS = ("=", "+=", "-=", "*=", "/=", "%=")
BLOCKLIKE = ("if", "match", "loop", "while", "for", "block")


class RP:
    def __init__(self, toks, i=0):
        self.t, self.i = toks, i

    def peek(self, k=0):
        j = self.i + k
        return self.t[j][:2] if j < len(self.t) else ("eof", None)

    def next(self):
        x = self.peek()
        if x[0] == "err":
            raise Unsupported(f"cannot lex: {x[1]}")
        self.i += 1
        return x

    def at(self, v, k=0):
        x = self.peek(k)
        return x[0] in ("op", "id") and x[1] == v

    def expect(self, v):
        x = self.next()
        if x[0] not in ("op", "id") or x[1] != v:
            raise Unsupported(f"expected {v!r}, found {x[1]!r}")

    def ident(self):
        x = self.next()
        if x[0] != "id":
            raise Unsupported(f"identifier expected, found {x[1]!r}")
        return x[1]

    # ---- types -----------------------------------------------------------------------------
    def type_(self):
        if self.at("&") or self.at("&&"):
            self.next()
            if self.peek()[0] == "life":
                self.next()
            if self.at("mut"):
                self.next()
                return ("mutref", self.type_())
            return self.type_()
        if self.at("("):
            self.next()
            items = []
            while not self.at(")"):
                items.append(self.type_())
                if self.at(","):
                    self.next()
            self.next()
            return "unit" if not items else ("tup", items)
        if self.at("["):
            self.next()
            t = self.type_()
            n = None
            if self.at(";"):
                self.next()
                n = self.expr()
            self.expect("]")
            return ("arr", t, n)
        if self.at("dyn") or self.at("impl"):
            self.next()
            return ("named", "dyn " + str(self.type_()), [])
        segs = [self.ident()]
        args = []
        while True:
            if self.at("::"):
                self.next()
                if self.at("<"):
                    continue
                segs.append(self.ident())
            elif self.at("<"):
                self.next()
                while not self.at(">"):
                    if self.peek()[0] == "life":
                        self.next()
                    else:
                        args.append(self.type_())
                    if self.at(","):
                        self.next()
                self.next()
            else:
                break
        return ("named", "::".join(segs), args)

    # ---- patterns --------------------------------------------------------------------------
    def pattern(self):
        if self.at("|"):
            self.next()
        alts = [self.pat1()]
        while self.at("|"):
            self.next()
            alts.append(self.pat1())
        return alts[0] if len(alts) == 1 else ("por", alts)

    def pat1(self):
        k, v = self.peek()
        if k == "id" and v == "_":
            self.next()
            return ("pwild",)
        if k in ("char", "str"):
            self.next()
            return ("plit", (k, v))
        if k == "num":
            self.next()
            return ("plit", ("int", v[0], v[1]))
        if k == "id" and v in ("true", "false"):
            self.next()
            return ("plit", ("bool", v == "true"))
        if self.at("&") or self.at("&&"):
            self.next()
            if self.at("mut"):
                self.next()
            return self.pat1()
        if self.at("("):
            self.next()
            items = []
            while not self.at(")"):
                items.append(self.pattern())
                if self.at(","):
                    self.next()
            self.next()
            return items[0] if len(items) == 1 else ("ptuple", items)
        if self.at("mut") or self.at("ref"):
            self.next()
            if self.at("mut"):
                self.next()
            return ("pbind", self.ident())
        if k == "id":
            segs = [self.ident()]
            while self.at("::"):
                self.next()
                segs.append(self.ident())
            name = "::".join(segs)
            if self.at("("):
                self.next()
                items = []
                while not self.at(")"):
                    items.append(self.pattern())
                    if self.at(","):
                        self.next()
                self.next()
                return ("pts", name, items)
            if self.at("{"):
                self.next()
                fields = []
                while not self.at("}"):
                    if self.at(".."):
                        self.next()
                        fields.append(("..", None))
                    else:
                        f = self.ident()
                        if self.at(":"):
                            self.next()
                            fields.append((f, self.pattern()))
                        else:
                            fields.append((f, ("pbind", f)))
                    if self.at(","):
                        self.next()
                self.next()
                return ("pstruct", name, fields)
            if len(segs) == 1 and (name[0].islower() or name[0] == "_"):
                return ("pbind", name)
            return ("ppath", name)
        raise Unsupported(f"pattern starting with {v!r}")

    # ---- expressions -----------------------------------------------------------------------
    def expr(self, nostruct=False):
        lhs = self.range_(nostruct)
        if self.peek()[0] == "op" and self.peek()[1] in ASSIGN_OPS:
            op = self.next()[1]
            rhs = self.expr(nostruct)
            return ("assign", op, lhs, rhs)
        return lhs

    def _starts_expr(self):
        k, v = self.peek()
        if k in ("num", "char", "str"):
            return True
        if k == "id":
            return True
        return k == "op" and v in ("(", "[", "-", "!", "&", "*", "&&")

    def range_(self, nostruct):
        if self.at(".."):
            self.next()
            hi = self.binop(0, nostruct) if self._starts_expr() else None
            return ("range", None, hi)
        lo = self.binop(0, nostruct)
        if self.at(".."):
            self.next()
            hi = self.binop(0, nostruct) if self._starts_expr() else None
            return ("range", lo, hi)
        if self.at("..="):
            raise Unsupported("inclusive range")
        return lo

    def binop(self, minp, nostruct):
        lhs = self.unary(nostruct)
        while True:
            k, v = self.peek()
            if k == "id" and v == "as" and 10 >= minp:
                self.next()
                lhs = ("cast", lhs, self.type_())
                continue
            if k == "op" and v in BINPREC and BINPREC[v] >= minp:
                self.next()
                rhs = self.binop(BINPREC[v] + 1, nostruct)
                lhs = ("bin", v, lhs, rhs)
                continue
            return lhs

    def unary(self, nostruct):
        if self.at("&&"):
            self.next()
            if self.at("mut"):
                self.next()
            return ("unary", "&", ("unary", "&", self.unary(nostruct)))
        if self.at("&"):
            self.next()
            if self.at("mut"):
                self.next()
                return ("unary", "&mut", self.unary(nostruct))
            return ("unary", "&", self.unary(nostruct))
        for op in ("!", "-", "*"):
            if self.at(op):
                self.next()
                return ("unary", op, self.unary(nostruct))
        return self.postfix(nostruct)

    def args(self, close=")"):
        out = []
        while not self.at(close):
            out.append(self.expr())
            if self.at(","):
                self.next()
            elif not self.at(close):
                raise Unsupported(f"',' or {close!r} expected in argument list, found {self.peek()[1]!r}")
        self.next()
        return out

    def postfix(self, nostruct):
        e = self.primary(nostruct)
        while True:
            if self.at("?"):
                self.next()
                e = ("try", e)
            elif self.at("."):
                self.next()
                k, v = self.next()
                if k == "num":
                    e = ("tfield", e, v[0])
                elif k == "id":
                    if self.at("::"):
                        raise Unsupported("turbofish")
                    if self.at("("):
                        self.next()
                        e = ("mcall", e, v, self.args())
                    else:
                        e = ("field", e, v)
                else:
                    raise Unsupported(f"'.{v}'")
            elif self.at("["):
                self.next()
                idx = self.expr()
                self.expect("]")
                e = ("index", e, idx)
            elif self.at("(") and e[0] == "path":
                self.next()
                e = ("call", e[1], self.args())
            else:
                return e

    def macro_tokens(self):
        """raw tokens of a macro invocation's argument list (the opening bracket is the current token)"""
        opener = self.next()[1]
        closer = {"(": ")", "[": "]", "{": "}"}[opener]
        depth, start = 1, self.i
        while depth:
            k, v = self.next()
            if k == "eof":
                raise Unsupported("unterminated macro")
            if k == "op" and v in "([{":
                depth += 1
            elif k == "op" and v in ")]}":
                depth -= 1
        return self.t[start:self.i - 1]

    def primary(self, nostruct):
        k, v = self.peek()
        if k == "num":
            self.next()
            return ("int", v[0], v[1])
        if k == "char":
            self.next()
            return ("char", v)
        if k == "str":
            self.next()
            return ("str", v)
        if k == "op" and v == "(":
            self.next()
            if self.at(")"):
                self.next()
                return ("unit",)
            items = [self.expr()]
            trailing = False
            while self.at(","):
                self.next()
                trailing = True
                if not self.at(")"):
                    items.append(self.expr())
            self.expect(")")
            if len(items) == 1 and not trailing:
                return ("paren", items[0])
            return ("tuple", items)
        if k == "op" and v == "[":
            self.next()
            if self.at("]"):
                self.next()
                return ("array", [])
            first = self.expr()
            if self.at(";"):
                self.next()
                n = self.expr()
                self.expect("]")
                return ("repeat", first, n)
            items = [first]
            while self.at(","):
                self.next()
                if not self.at("]"):
                    items.append(self.expr())
            self.expect("]")
            return ("array", items)
        if k == "op" and v == "{":
            return ("block", self.block())
        if k == "op" and v in ("|", "||"):
            raise Unsupported("closure")
        if k != "id":
            raise Unsupported(f"expression starting with {v!r}")
        if v in ("true", "false"):
            self.next()
            return ("bool", v == "true")
        if v == "move":
            raise Unsupported("closure")
        if v == "if":
            return self.if_()
        if v == "match":
            self.next()
            scrut = self.expr(nostruct=True)
            self.expect("{")
            arms = []
            while not self.at("}"):
                pat = self.pattern()
                guard = None
                if self.at("if"):
                    self.next()
                    guard = self.expr()
                self.expect("=>")
                body = self.expr()
                if self.at(","):
                    self.next()
                elif not self.at("}") and body[0] not in BLOCKLIKE:
                    raise Unsupported("',' expected after match arm")
                arms.append((pat, guard, body))
            self.next()
            return ("match", scrut, arms)
        if v == "loop":
            self.next()
            return ("loop", self.block())
        if v == "while":
            self.next()
            cond = self.cond()
            return ("while", cond, self.block())
        if v == "for":
            self.next()
            pat = self.pattern()
            self.expect("in")
            it = self.expr(nostruct=True)
            return ("for", pat, it, self.block())
        if v == "return":
            self.next()
            if self.at(";") or self.at("}") or self.at(","):
                return ("return", None)
            return ("return", self.expr())
        if v in ("break", "continue"):
            raise Unsupported(v)
        if v in ("unsafe", "async"):
            raise Unsupported(v)
        segs = [self.ident()]
        while self.at("::"):
            self.next()
            if self.at("<"):
                raise Unsupported("turbofish")
            segs.append(self.ident())
        name = "::".join(segs)
        if self.at("!") and self.peek(1)[0] == "op" and self.peek(1)[1] in ("(", "[", "{"):
            self.next()
            return ("macro", name, self.macro_tokens())
        if self.at("{") and not nostruct and segs[-1][0].isupper():
            self.next()
            fields = []
            while not self.at("}"):
                f = self.ident()
                if self.at(":"):
                    self.next()
                    fields.append((f, self.expr()))
                else:
                    fields.append((f, ("path", f)))
                if self.at(","):
                    self.next()
            self.next()
            return ("struct", name, fields)
        return ("path", name)

    def cond(self):
        if self.at("let"):
            self.next()
            pat = self.pattern()
            self.expect("=")
            e = self.expr(nostruct=True)
            return ("let", pat, e)
        return self.expr(nostruct=True)

    def if_(self):
        self.expect("if")
        cond = self.cond()
        then = self.block()
        els = None
        if self.at("else"):
            self.next()
            if self.at("if"):
                els = [("expr", self.if_(), False)]
            else:
                els = self.block()
        return ("if", cond, then, els)

    # ---- statements ------------------------------------------------------------------------
    def block(self):
        self.expect("{")
        stmts = []
        while not self.at("}"):
            if self.at(";"):
                self.next()
                continue
            stmts.append(self.stmt())
        self.next()
        return stmts

    def stmt(self):
        if self.at("let"):
            self.next()
            pat = self.pattern()
            ty = init = els = None
            if self.at(":"):
                self.next()
                ty = self.type_()
            if self.at("="):
                self.next()
                init = self.expr()
                if self.at("else"):
                    self.next()
                    els = self.block()
            self.expect(";")
            return ("let", pat, ty, init, els)
        if self.at("fn") or self.at("struct") or self.at("use") or self.at("const") or self.at("static") or self.at("#"):
            raise Unsupported(f"item '{self.peek()[1]}' inside a function body")
        e = self.expr()
        if self.at(";"):
            self.next()
            return ("expr", e, True)
        if self.at("}"):
            return ("expr", e, False)
        if e[0] in BLOCKLIKE:
            return ("expr", e, True)
        raise Unsupported(f"';' expected, found {self.peek()[1]!r}")


def parse_tokens(toks, what):
    """parse a raw token list (macro arguments) as a comma separated list of expressions"""
    p = RP(list(toks) + [("op", ")", 0, 0)])
    return p.args(")")


def find_rust_fn(name):
    """(params [(name, type)], return type | None, body statements) of `fn name` in main.rs"""
    text = X.src(REL)
    m = re.search(r"\bfn\s+%s\s*\(" % re.escape(name), text)
    if not m:
        raise X.TranslationBroken(A, f"fn {name} not found in {REL}")
    toks = lex(text, m.start())
    p = RP(toks)
    p.expect("fn")
    p.ident()
    p.expect("(")
    params = []
    while not p.at(")"):
        if p.at("&") or p.at("self") or p.at("mut") and p.at("self", 1):
            while not (p.at(",") or p.at(")")):
                p.next()
            params.append(("self", ("named", "Self", [])))
        else:
            if p.at("mut"):
                p.next()
            pn = p.ident()
            p.expect(":")
            params.append((pn, p.type_()))
        if p.at(","):
            p.next()
    p.next()
    ret = None
    if p.at("->"):
        p.next()
        ret = p.type_()
    body = p.block()
    X.record_span(A, REL, m.start(), toks[p.i - 1][3])
    return params, ret, body


def find_rust_struct(name):
    text = X.src(REL)
    m = re.search(r"\bstruct\s+%s\s*\{" % re.escape(name), text)
    if not m:
        raise X.TranslationBroken(A, f"struct {name} not found in {REL}")
    toks = lex(text, m.start())
    p = RP(toks)
    p.expect("struct")
    p.ident()
    p.expect("{")
    fields = []
    while not p.at("}"):
        if p.at("pub"):
            p.next()
        f = p.ident()
        p.expect(":")
        fields.append((f, p.type_()))
        if p.at(","):
            p.next()
    p.next()
    X.record_span(A, REL, m.start(), toks[p.i - 1][3])
    return fields


def find_closure_body(fn_name, anchor_re):
    """statements of the closure `|| { ... }` that follows the text matching anchor_re inside `fn fn_name`"""
    text = X.src(REL)
    m0 = re.search(r"\bfn\s+%s\s*\(" % re.escape(fn_name), text)
    if not m0:
        raise X.TranslationBroken(A, f"fn {fn_name} not found in {REL}")
    m = re.compile(anchor_re).search(text, m0.end())
    if not m:
        raise X.TranslationBroken(A, f"{fn_name}: /{anchor_re}/ not found")
    toks = lex(text, m.end())
    p = RP(toks)
    body = p.block()
    X.record_span(A, REL, m.start(), toks[p.i - 1][3])
    return body


# ------------------------------------------------------------------------------------------------
# the trusted mapping tables

# error messages of bail!/ensure!  ->  constructors of Model.PErr (each used entry is re-checked in the generated file
# against Model.PErr.msg by `example : PErr.msg .c = "..." := rfl`)
MSGS = {
    "Empty line": "emptyLine",
    "Invalid check line format": "format",
    "Invalid hash length": "hashLength",
    "Invalid hex": "hex",
    "Invalid backslash escape": "escape",
    "empty file path": "emptyPath",
    "Null character in path": "nul",
    "Unicode replacement character in path": "fffd",
}

# Rust library operations -> Lean terms.  key: (receiver type, method, argument types); value: (template, result type,
# monadic).  {0} = receiver, {1}.. = arguments.  Types: str char bool u8 usize u64 osbytes chars (opt T) (arr T) ...
PRIMS = {
    ("str", "len", ()): ("(byteLen {0})", "usize", False),
    ("str", "find", ("char",)): ("(findChar {1} {0})", ("opt", "usize"), False),
    ("str", "contains", ("char",)): ("({0}.contains {1})", "bool", False),
    ("str", "contains", (("arr", "char"),)): ("(strContainsAny {0} {1})", "bool", False),
    ("str", "replace", ("char", "str")): ("(replaceChar {1} {2} {0})", "str", False),
    ("str", "replace", ("str", "str")): ("(replaceStr {1} {2} {0})", "str", False),
    ("str", "starts_with", ("str",)): ("({1}.isPrefixOf {0})", "bool", False),
    ("str", "split_once", ("str",)): ("(splitOnce {1} {0})", ("opt", ("tup", ["str", "str"])), False),
    ("str", "rsplit_once", ("str",)): ("(rsplitOnce {1} {0})", ("opt", ("tup", ["str", "str"])), False),
    ("str", "trim_end_matches", (("arr", "char"),)): ("(trimEndMatches {1} {0})", "str", False),
    ("str", "chars", ()): ("{0}", "chars", False),
    ("str", "is_ascii", ()): ("(isAscii {0})", "bool", False),
    ("str", "is_empty", ()): ("({0}.isEmpty)", "bool", False),
    ("str", "to_string", ()): ("{0}", "str", False),
    ("str", "to_owned", ()): ("{0}", "str", False),
    ("str", "as_str", ()): ("{0}", "str", False),
    ("str", "clone", ()): ("{0}", "str", False),
    ("osbytes", "to_string_lossy", ()): ("(lossyDecode {0})", "str", False),   # Unix: OsStr = bytes
    ("u64", "saturating_add", ("u64",)): ("(satAdd64 {0} {1})", "u64", False),
    ("usize", "saturating_add", ("usize",)): ("(satAdd64 {0} {1})", "usize", False),
}
# `x.into()` / `T::from(x)`: (source type, target type) -> template
INTO = {
    ("str", "osbytes"): "(utf8Encode {0})",       # String -> PathBuf on Unix: the UTF-8 bytes
    (("arr", "u8"), "hash"): "(u8sToBytes {0})",  # [u8; 32] -> blake3::Hash
    ("str", "str"): "{0}",
}
# associated functions / free functions of the standard library
CALLS = {
    "String::new": (0, "([] : Str)", "str", False),
    "String::with_capacity": (1, "withCapacity {0}", "str", True),
    "Path::new": (1, "(utf8Encode {0})", "osbytes", False),
    "cmp::min": (2, "(min {0} {1})", None, False),
    "std::cmp::min": (2, "(min {0} {1})", None, False),
}
# checked arithmetic per integer type
ARITH = {("u8", "+"): "u8add", ("u8", "-"): "u8sub", ("u8", "*"): "u8mul",
         ("usize", "+"): "usizeAdd", ("usize", "-"): "usizeSub", ("usize", "*"): "usizeMul",
         ("u64", "+"): "usizeAdd", ("u64", "-"): "usizeSub", ("u64", "*"): "usizeMul"}
NUM = ("u8", "usize", "u64", "i32", "intlit")
# constants: cfg!(windows) is false on the (Unix) build that the harness and the model describe
CFG_FALSE = ("windows",)
CONST_PATHS = {"i32::MAX": ("2147483647", "i32"), "u64::MAX": ("18446744073709551615", "u64"),
               "usize::MAX": ("18446744073709551615", "usize")}
# trivial getters of `Args` (checked against the source: `fn raw(&self) -> bool { self.inner.raw }`)
ARGS_GETTERS = {"raw": ("raw", "bool"), "no_names": ("no_names", "bool"), "tag": ("tag", "bool"), "check": ("check", "bool"),
                "quiet": ("quiet", "bool"), "len": ("length", "u64"), "seek": ("seek", "u64")}
ARGS_FIELDS = {"file_args": ("list", "osbytes")}

STRUCTS = {}   # name -> [(field, type)]  (filled from the source)

LEAN_RESERVED = {"prefix", "end", "at", "from", "fun", "open", "in", "do", "then", "else", "if", "let", "have", "show", "by",
                 "match", "with", "where", "namespace", "section", "variable", "theorem", "def", "instance", "structure",
                 "class", "macro", "syntax", "infix", "postfix", "notation", "local", "private", "export", "import",
                 "universe", "deriving", "extends", "mutual", "partial", "unsafe", "fuel", "rest_", "stdout", "Type", "Prop"}


def ln(name):
    """Lean identifier for a Rust variable"""
    if name in LEAN_RESERVED and name != "stdout":
        return name + "_"
    return name


def leanchar(c):
    o = ord(c)
    special = {"\\": "'\\\\'", "'": "'\\''", "\n": "'\\n'", "\r": "'\\r'", "\t": "'\\t'"}
    if c in special:
        return special[c]
    if 32 <= o < 127:
        return f"'{c}'"
    return f"(Char.ofNat {hex(o)})"


def leanstr(s):
    if not s:
        return "([] : Str)"
    return "[" + ", ".join(leanchar(c) for c in s) + "]"


def norm_type(t):
    if t == "unit":
        return "unit"
    if t[0] == "mutref":
        return norm_type(t[1])
    if t[0] == "tup":
        return ("tup", [norm_type(x) for x in t[1]])
    if t[0] == "arr":
        return ("arr", norm_type(t[1]))
    name, args = t[1].split("::")[-1], t[2]
    if name in ("str", "String", "Cow"):
        return "str"
    if name in ("char", "bool", "u8", "usize", "u64", "i32"):
        return name
    if name == "Option" and len(args) == 1:
        return ("opt", norm_type(args[0]))
    if name == "Result" and len(args) >= 1:
        return ("res", norm_type(args[0]))
    if name in ("Path", "PathBuf"):
        return "osbytes"
    if name == "Hash":
        return "hash"
    if name == "Args":
        return "args"
    if name in STRUCTS:
        return ("struct", name)
    raise Unsupported(f"type {t[1]}")


def lean_ty(t):
    simple = {"str": "Str", "chars": "Str", "char": "Char", "bool": "Bool", "u8": "Nat", "usize": "Nat", "u64": "Nat",
              "intlit": "Nat", "i32": "Int", "unit": "Unit", "osbytes": "(List UInt8)", "hash": "(List UInt8)",
              "stdout": "(List OutTok)", "bufreader": "(List ReadLine)"}
    if isinstance(t, str):
        if t in simple:
            return simple[t]
        raise Unsupported(f"no Lean type for {t}")
    if t[0] == "opt":
        return f"(Option {lean_ty(t[1])})"
    if t[0] == "tup":
        return "(" + " × ".join(lean_ty(x) for x in t[1]) + ")"
    if t[0] in ("arr", "list"):
        return f"(List {lean_ty(t[1])})"
    if t[0] == "struct":
        return t[1]
    if t[0] == "ext":
        return t[1]
    if t[0] == "res":
        return f"(Except _ {lean_ty(t[1])})"
    raise Unsupported(f"no Lean type for {t}")


def tup(items):
    if not items:
        return "()"
    return items[0] if len(items) == 1 else "(" + ", ".join(items) + ")"


def proj(r, n, i):
    """i-th component of the n-tuple r (right-nested pairs)"""
    if n == 1:
        return r
    return f"{r}" + ".2" * i + (".1" if i < n - 1 else "")


# ------------------------------------------------------------------------------------------------
# AST walks

def walk(node, f):
    """call f on every AST tuple (pre-order); macro arguments are parsed when they are expression lists"""
    if isinstance(node, tuple):
        if node and node[0] == "macro":
            f(node)
            try:
                for a in parse_tokens(node[2], "macro"):
                    walk(a, f)
            except Unsupported:
                pass
            return
        if node and isinstance(node[0], str):
            f(node)
        for x in node[1:] if node and isinstance(node[0], str) else node:
            walk(x, f)
    elif isinstance(node, list):
        for x in node:
            walk(x, f)


def root_var(e):
    while e[0] in ("unary", "paren", "index", "field", "tfield"):
        e = e[2] if e[0] == "unary" else e[1]
    return e[1] if e[0] == "path" and "::" not in e[1] else None


MUTATING = ("push_str", "push", "clear", "next", "read_line", "pop", "insert", "truncate")
IS_EXIT = ("std::process::exit", "process::exit")


def contains_return(node):
    found = []

    def f(n):
        if n[0] == "return" or (n[0] == "call" and n[1] in IS_EXIT):
            found.append(n)
    walk(node, f)
    return bool(found)


def diverges(stmts):
    if not stmts:
        return False
    st = stmts[-1]
    if st[0] != "expr":
        return False
    e = st[1]
    if e[0] == "macro" and e[1] in ("bail", "panic", "unreachable"):
        return True
    if e[0] == "return" or (e[0] == "call" and e[1] in IS_EXIT):
        return True
    if e[0] == "if" and e[3] is not None:
        return diverges(e[2]) and diverges(e[3])
    return False


def const_bool(e):
    if e[0] == "macro" and e[1] == "cfg":
        toks = [t[1] for t in e[2]]
        if len(toks) == 1 and toks[0] in CFG_FALSE:
            return False
        raise Unsupported(f"cfg!({' '.join(map(str, toks))})")
    if e[0] == "paren":
        return const_bool(e[1])
    if e[0] == "bool":
        return e[1]
    if e[0] == "unary" and e[1] == "!":
        c = const_bool(e[2])
        return None if c is None else not c
    if e[0] == "bin" and e[1] == "&&":
        a, b = const_bool(e[2]), const_bool(e[3])
        if a is False or b is False:
            return False
        return True if (a and b) else None
    if e[0] == "bin" and e[1] == "||":
        a, b = const_bool(e[2]), const_bool(e[3])
        if a is True or b is True:
            return True
        return False if (a is False and b is False) else None
    return None


# ------------------------------------------------------------------------------------------------
# continuations: what happens at the end of a block

class KRet:
    """end of the function body"""
    def finish(self, tr, term, ty):
        tr.fn_return(term, ty)


class KDead:
    def __init__(self, why):
        self.why = why

    def finish(self, tr, term, ty):
        raise Unsupported(self.why)


class KJoin:
    """end of a branch whose results (value and/or assigned variables) are joined after the branching construct"""
    def __init__(self, vars_, value, expect):
        self.vars, self.value, self.expect = vars_, value, expect
        self.types, self.vtype = {}, None

    def finish(self, tr, term, ty):
        items = []
        if self.value:
            if term is None:
                raise Unsupported("a branch of a value-producing if/match has no value")
            if ty == "intlit" and self.expect in NUM:
                ty = self.expect
            if self.vtype is not None and self.vtype != ty and "intlit" not in (self.vtype, ty):
                raise Unsupported(f"branches have different types: {self.vtype} / {ty}")
            if self.vtype is None or self.vtype == "intlit":
                self.vtype = ty
            items.append(f"({term} : {lean_ty(ty)})" if ty == "i32" else term)
        for v in self.vars:
            if tr.types.get(v) is None:
                raise Unsupported(f"{v} is not assigned on every path")
            if v in self.types and self.types[v] != tr.types[v] and "intlit" not in (self.types[v], tr.types[v]):
                raise Unsupported(f"{v} has different types on different paths")
            self.types[v] = tr.types[v]
            items.append(ln(v))
        tr.emit("pure " + tup(items))


class KCall:
    """end of a loop body: the recursive call"""
    def __init__(self, emit_call):
        self.emit_call = emit_call

    def finish(self, tr, term, ty):
        self.emit_call()


# ------------------------------------------------------------------------------------------------
# the translator proper

class Tr:
    def __init__(self, cfg, sigs):
        self.cfg, self.sigs = cfg, sigs
        self.name = cfg["lean"]
        self.err = cfg["err"]                      # Lean error type of the monad: "PErr", "String" or "ε"
        self.types = {}
        self.out, self.ind = [], 2
        self.tmp, self.nloops = 0, 0
        self.defs = []
        self.tail_ok = True
        self.outstate = []                         # out-parameters and stdout: returned next to the value
        self.ret = None                            # value type of the function
        self.ret_is_result = False
        self.msgs, self.notes = [], []
        self._pending_join, self._join_header = False, None
        self.ext_params = []                       # [(lean name, lean type)] of the abstract callees
        self.extra_params = []                     # [(name, type)] e.g. args_raw

    # -- output ------------------------------------------------------------------------------
    def emit(self, s):
        self.out.append(" " * self.ind + s)

    def fresh(self):
        self.tmp += 1
        return f"t{self.tmp}"

    def note(self, s):
        if s not in self.notes:
            self.notes.append(s)

    def ext_args(self):
        return "".join(f" {n}" for n, _ in self.ext_params)

    # -- errors ------------------------------------------------------------------------------
    def err_term(self, msg_expr):
        if msg_expr[0] != "str":
            raise Unsupported("bail!/ensure! with a message that is not a string literal")
        if self.err != "PErr":
            raise Unsupported(f"bail!/ensure! in a function whose errors are not classified ({msg_expr[1]!r})")
        if msg_expr[1] not in MSGS:
            raise Unsupported(f"error message {msg_expr[1]!r} has no class in Model.PErr")
        if msg_expr[1] not in self.msgs:
            self.msgs.append(msg_expr[1])
        return f"Res.err PErr.{MSGS[msg_expr[1]]}"

    # -- returning ---------------------------------------------------------------------------
    def fn_return(self, term, ty):
        if not self.tail_ok:
            raise Unsupported("return (or the end of the function) inside a branch that is joined / a loop that is not last")
        items = []
        if self.ret_is_result:
            if term is None or not (isinstance(ty, tuple) and ty[0] == "okv"):
                raise Unsupported("the function returns a Result but this path does not end in Ok(..)")
            ty = ty[1]
        if self.ret != "unit":
            if term is None:
                raise Unsupported("a path ends without the value the function returns")
            if ty == "intlit" and self.ret in NUM:
                ty = self.ret
            if ty != self.ret and not (isinstance(ty, tuple) and ty[0] == "opt" and ty[1] is None and self.ret[0] == "opt"):
                raise Unsupported(f"returned value has type {ty}, expected {self.ret}")
            items.append(term)
        elif ty not in ("unit", None) and term is not None:
            raise Unsupported(f"value of type {ty} returned from a function returning ()")
        items += [ln(v) for v in self.outstate]
        self.emit("pure " + tup(items))

    def result_types(self):
        ts = ([] if self.ret == "unit" else [self.ret]) + [self.types_at_entry[v] for v in self.outstate]
        return ts

    def result_lean_ty(self):
        ts = self.result_types()
        if not ts:
            return "Unit"
        return lean_ty(ts[0]) if len(ts) == 1 else "(" + " × ".join(lean_ty(t) for t in ts) + ")"

    # -- expressions -------------------------------------------------------------------------
    def peek_type(self, e, expect=None):
        saved = (len(self.out), self.tmp, dict(self.types), list(self.msgs), list(self.notes), self.nloops, list(self.defs))
        try:
            return self.ex(e, expect)[1]
        finally:
            del self.out[saved[0]:]
            self.tmp, self.types, self.msgs, self.notes, self.nloops, self.defs = saved[1], saved[2], saved[3], saved[4], saved[5], saved[6]

    def ex(self, e, expect=None, pending_ok=False):
        term, ty = self.ex0(e, expect)
        if isinstance(ty, tuple) and ty[0] == "pending" and not pending_ok:
            v = self.fresh()
            self.emit(f"let {v} ← catchErr ({term})")
            return v, ("res", ty[1])
        return term, ty

    def var(self, name):
        if name not in self.types:
            raise Unsupported(f"unknown name {name}")
        if self.types[name] is None:
            raise Unsupported(f"{name} is used before it is assigned")
        return ln(name), self.types[name]

    def ex0(self, e, expect):
        k = e[0]
        if k == "int":
            ty = e[2] or (expect if expect in NUM else "intlit")
            return str(e[1]), ty
        if k == "char":
            return leanchar(e[1]), "char"
        if k == "str":
            return leanstr(e[1]), "str"
        if k == "bool":
            return ("true" if e[1] else "false"), "bool"
        if k == "unit":
            return "()", "unit"
        if k == "paren":
            return self.ex0(e[1], expect)
        if k == "path":
            return self.path(e[1], expect)
        if k == "unary":
            if e[1] in ("&", "&mut", "*"):
                return self.ex0(e[2], expect)
            if e[1] == "!":
                v, t = self.ex(e[2], "bool")
                if t != "bool":
                    raise Unsupported("'!' on a non-boolean")
                return f"(!{v})", "bool"
            raise Unsupported(f"unary {e[1]}")
        if k == "bin":
            return self.binop(e, expect)
        if k == "cast":
            return self.cast(e)
        if k == "call":
            return self.call(e, expect)
        if k == "mcall":
            return self.mcall(e, expect)
        if k == "try":
            return self.try_(e, expect)
        if k == "index":
            return self.index(e)
        if k == "field":
            if e[1] == ("path", "args") and self.types.get("args") == "args" and e[2] in ARGS_FIELDS:
                return self.var("args_" + e[2])
            r, t = self.ex(e[1])
            if isinstance(t, tuple) and t[0] == "struct":
                for f, ft in STRUCTS[t[1]]:
                    if f == e[2]:
                        return f"{r}.{ln(f)}", ft
            raise Unsupported(f"field .{e[2]} of {t}")
        if k == "struct":
            name = e[1].split("::")[-1]
            if name not in STRUCTS:
                raise Unsupported(f"struct {name}")
            want = dict(STRUCTS[name])
            if sorted(f for f, _ in e[2]) != sorted(want):
                raise Unsupported(f"struct literal {name}: fields do not match the definition")
            parts = []
            for f, fe in e[2]:
                v, t = self.ex(fe, want[f])
                if t != want[f]:
                    raise Unsupported(f"{name}.{f}: value of type {t}, field of type {want[f]}")
                parts.append(f"{ln(f)} := {v}")
            return "({ " + ", ".join(parts) + " } : " + name + ")", ("struct", name)
        if k == "array":
            items = [self.ex(x) for x in e[1]]
            ts = {str(t) for _, t in items}
            if len(ts) != 1:
                raise Unsupported("array literal with mixed element types")
            return "[" + ", ".join(v for v, _ in items) + "]", ("arr", items[0][1])
        if k == "repeat":
            v, t = self.ex(e[1])
            n, tn = self.ex(e[2], "usize")
            return f"(List.replicate {n} {v})", ("arr", t)
        if k == "tuple":
            items = [self.ex(x) for x in e[1]]
            return tup([v for v, _ in items]), ("tup", [t for _, t in items])
        if k == "if":
            return self.if_(e, None, None, None, value=True, expect=expect)
        if k == "match":
            return self.match_(e, None, None, None, value=True, expect=expect)
        if k == "macro":
            if e[1] == "cfg":
                return ("true" if const_bool(e) else "false"), "bool"
            if e[1] == "matches":
                p = RP(list(e[2]) + [("op", ")", 0, 0)])
                scrut = p.expr()
                p.expect(",")
                pat = p.pattern()
                if p.at(","):
                    p.next()
                if not p.at(")") or p.peek(1)[0] != "eof":
                    raise Unsupported("matches! with a guard")
                st, sty = self.ex(scrut)
                saved = dict(self.types)
                pats = self.patlean(pat, sty)
                self.types = saved
                v = self.fresh()
                self.emit(f"let {v} := (match {st} with | " + " | ".join(pats) + " => true | _ => false)")
                return v, "bool"
            raise Unsupported(f"macro {e[1]}! in an expression")
        raise Unsupported(f"expression {k}")

    def path(self, name, expect):
        if "::" not in name:
            if name == "None":
                return "none", ("opt", expect[1] if isinstance(expect, tuple) and expect[0] == "opt" else None)
            return self.var(name)
        if name in CONST_PATHS:
            return CONST_PATHS[name]
        if name in self.cfg.get("consts", {}):
            return self.cfg["consts"][name]
        raise Unsupported(f"path {name}")

    def binop(self, e, expect):
        op, l, r = e[1], e[2], e[3]
        if op in ("&&", "||"):
            a, ta = self.ex(l, "bool")
            n = len(self.out)
            b, tb = self.ex(r, "bool")
            if len(self.out) != n:
                raise Unsupported(f"effects on the right of {op}")
            if ta != "bool" or tb != "bool":
                raise Unsupported(f"{op} on non-booleans")
            return f"({a} {op} {b})", "bool"
        tl, tr_ = self.peek_type(l), self.peek_type(r)
        want = tl if tl != "intlit" else tr_
        if want == "intlit" and expect in NUM and op not in ("==", "!=", "<", ">", "<=", ">="):
            want = expect
        a, ta = self.ex(l, want)
        b, tb = self.ex(r, want)
        t = ta if ta != "intlit" else tb
        if ta != tb and "intlit" not in (ta, tb):
            raise Unsupported(f"operands of {op} have types {ta} and {tb}")
        if op in ("==", "!=", "<", ">", "<=", ">="):
            if t in NUM:
                rel = {"==": "=", "!=": "≠", "<": "<", ">": ">", "<=": "≤", ">=": "≥"}[op]
                return f"(decide ({a} {rel} {b}))", "bool"
            if t == "char":
                return {"==": f"(decide ({a} = {b}))", "!=": f"(decide ({a} ≠ {b}))", "<=": f"(charLe {a} {b})",
                        ">=": f"(charLe {b} {a})", "<": f"(charLt {a} {b})", ">": f"(charLt {b} {a})"}[op], "bool"
            if t in ("str", "osbytes", "bool", "hash") and op in ("==", "!="):
                return f"(decide ({a} {'=' if op == '==' else '≠'} {b}))", "bool"
            raise Unsupported(f"comparison {op} on {t}")
        if (t, op) not in ARITH:
            raise Unsupported(f"operator {op} on {t}")
        v = self.fresh()
        self.emit(f"let {v} ← {ARITH[(t, op)]} {a} {b}")
        return v, t

    def cast(self, e):
        v, t = self.ex(e[1])
        target = norm_type(e[2])
        if (t, target) == ("char", "u8"):
            return f"(charToU8 {v})", "u8"
        if t == target or (t, target) in (("u8", "usize"), ("u8", "u64"), ("usize", "u64"), ("u64", "usize")):
            return v, target
        if t == "intlit" and target in NUM:
            return v, target
        if t in ("u64", "usize") and target == "i32":
            return f"(castI32 {v})", "i32"
        if t == "i32" and target in ("u64", "usize") and v.isdigit():
            return v, target
        raise Unsupported(f"cast from {t} to {target}")

    def call_args(self, args, ptypes):
        out = []
        if len(args) != len(ptypes):
            raise Unsupported("wrong number of arguments")
        for a, pt in zip(args, ptypes):
            v, t = self.ex(a, pt)
            if pt is not None and t != pt and not (t == "intlit" and pt in NUM):
                raise Unsupported(f"argument of type {t}, parameter of type {pt}")
            out.append(v)
        return out

    def call(self, e, expect):
        name, args = e[1], e[2]
        if name == "Ok" and len(args) == 1:
            inner = expect[1] if isinstance(expect, tuple) and expect[0] in ("okv", "res") else (self.ret if self.ret_is_result else None)
            v, t = self.ex(args[0], inner)
            return v, ("okv", t)
        if name == "Some" and len(args) == 1:
            v, t = self.ex(args[0], expect[1] if isinstance(expect, tuple) and expect[0] == "opt" else None)
            return f"(some {v})", ("opt", t)
        if name in self.sigs and name not in self.cfg.get("externals", {}):
            sig = self.sigs[name]
            if sig["err"] == "PErr" and self.err != "PErr":
                raise Unsupported(f"{name} has classified errors, the caller has not")
            vs = self.call_args(args, sig["ptypes"])
            term = sig["lean"] + "".join(f" {v}" for v in vs)
            if sig["result"]:
                return term, ("pending", sig["ret"])
            v = self.fresh()
            self.emit(f"let {v} ← {term}")
            return v, sig["ret"]
        if name in self.cfg.get("externals", {}):
            x = self.cfg["externals"][name]
            if x.get("effect"):
                raise Unsupported(f"{name}(..) must be called as `{name}(..)?;`")
            vs = [self.ex(args[i])[0] for i in x["keep"]]
            term = x["lean"] + "".join(f" {v}" for v in vs)
            if x["result"]:
                return term, ("pending", x["ret"])
            v = self.fresh()
            self.emit(f"let {v} ← {term}")
            return v, x["ret"]
        if name in CALLS:
            n, tpl, rt, monadic = CALLS[name]
            if len(args) != n:
                raise Unsupported(f"{name}: {len(args)} arguments")
            items = [self.ex(a, expect if rt is None else ("usize" if name.endswith("with_capacity") else None)) for a in args]
            if rt is None:
                ts = [t for _, t in items if t != "intlit"]
                if len(set(map(str, ts))) > 1:
                    raise Unsupported(f"{name} on different types")
                rt = ts[0] if ts else "intlit"
            term = tpl.format(*[v for v, _ in items])
            if monadic:
                v = self.fresh()
                self.emit(f"let {v} ← {term}")
                return v, rt
            return term, rt
        raise Unsupported(f"call of {name}")

    def try_(self, e, expect):
        inner = e[1]
        # abstract callees with an effect on stdout / on an out-parameter
        if inner[0] == "call" and inner[1] in self.cfg.get("externals", {}):
            x = self.cfg["externals"][inner[1]]
            if not x["result"]:
                raise Unsupported(f"`?` on {inner[1]} which does not return a Result")
            vs = [self.ex(inner[2][i])[0] for i in x["keep"]]
            term = x["lean"] + "".join(f" {v}" for v in vs)
            eff = x.get("effect")
            v = self.fresh()
            if eff in ("stdout_text", "stdout_raw"):
                self.emit(f"let {v} ← {term}")
                self.emit(f"let stdout := stdout ++ {'outText' if eff == 'stdout_text' else 'outRaw'} {v}")
                return "()", "unit"
            if isinstance(eff, tuple) and eff[0] == "mut":
                a = inner[2][eff[1]]
                if not (a[0] == "unary" and a[1] == "&mut" and root_var(a)):
                    raise Unsupported(f"{inner[1]}: argument {eff[1]} must be `&mut variable`")
                self.emit(f"let {ln(root_var(a))} ← {term}")
                return "()", "unit"
            self.emit(f"let {v} ← {term}")
            return v, x["ret"]
        if inner[0] == "mcall" and inner[2] == "read_line" and root_var(inner[1]) and self.types.get(root_var(inner[1])) == "bufreader":
            rd = root_var(inner[1])
            a = inner[3]
            if len(a) != 1 or not (a[0][0] == "unary" and a[0][1] == "&mut" and self.types.get(root_var(a[0])) == "str"):
                raise Unsupported("read_line: argument must be `&mut <String variable>`")
            if self.err != "String":
                raise Unsupported("read_line in a function whose error type is not String")
            line = root_var(a[0])
            v = self.fresh()
            self.emit(f"let {v} ← readLine {ln(rd)} {ln(line)}")
            self.emit(f"let {ln(rd)} := {v}.2.1")
            self.emit(f"let {ln(line)} := {v}.2.2")
            return f"{v}.1", "usize"
        term, ty = self.ex(inner, expect, pending_ok=True)
        if isinstance(ty, tuple) and ty[0] == "pending":
            v = self.fresh()
            self.emit(f"let {v} ← {term}")
            return v, ty[1]
        raise Unsupported("`?` on something that is not a call of a translated Result-returning function")

    def index(self, e):
        r, t = self.ex(e[1])
        idx = e[2]
        if t == "str" and idx[0] == "range":
            lo = self.ex(idx[1], "usize") if idx[1] is not None else None
            hi = self.ex(idx[2], "usize") if idx[2] is not None else None
            for x in (lo, hi):
                if x is not None and x[1] not in ("usize", "intlit"):
                    raise Unsupported(f"slice bound of type {x[1]}")
            v = self.fresh()
            if lo and hi:
                self.emit(f"let {v} ← sliceRange {r} {lo[0]} {hi[0]}")
            elif lo:
                self.emit(f"let {v} ← sliceFrom {r} {lo[0]}")
            elif hi:
                self.emit(f"let {v} ← sliceTo {r} {hi[0]}")
            else:
                return r, "str"
            return v, "str"
        raise Unsupported(f"indexing a {t}")

    def mcall(self, e, expect):
        recv, m, args = e[1], e[2], e[3]
        if recv == ("path", "args") and self.types.get("args") == "args":
            if m in ARGS_GETTERS and not args:
                return self.var("args_" + m)
            raise Unsupported(f"args.{m}()")
        rvar = recv[1] if recv[0] == "path" and "::" not in recv[1] and recv[1] in self.types else None
        if recv[0] == "unary" and recv[1] in ("*", "&", "&mut") and recv[2][0] == "path" and recv[2][1] in self.types:
            rvar = recv[2][1]
        r, t = self.ex(recv)
        if m == "into" and not args:
            if expect is None:
                raise Unsupported(".into() without a known target type")
            if (t, expect) == (("arr", "intlit"), "hash"):
                t = ("arr", "u8")
            key = (t, expect) if not isinstance(t, tuple) else ((t[0], t[1]), expect)
            if key not in INTO:
                raise Unsupported(f".into() from {t} to {expect}")
            return INTO[key].format(r), expect
        if m == "unwrap" and not args and isinstance(t, tuple) and t[0] == "opt":
            v = self.fresh()
            self.emit(f"let {v} ← unwrap {r}")
            return v, t[1]
        if t == "chars" and m == "next" and not args:
            if rvar is None:
                return f"({r}.head?)", ("opt", "char")
            v = self.fresh()
            self.emit(f"let {v} := charsNext {ln(rvar)}")
            self.emit(f"let {ln(rvar)} := {v}.2")
            return f"{v}.1", ("opt", "char")
        if t == "str" and m in ("push_str", "push", "clear"):
            if rvar is None:
                raise Unsupported(f".{m}() on something that is not a variable")
            if m == "clear" and not args:
                self.emit(f"let {ln(rvar)} := ([] : Str)")
                return "()", "unit"
            if len(args) != 1:
                raise Unsupported(f".{m}() arguments")
            a, ta = self.ex(args[0])
            if m == "push_str" and ta == "str":
                self.emit(f"let {ln(rvar)} := {ln(rvar)} ++ {a}")
            elif m == "push" and ta == "char":
                self.emit(f"let {ln(rvar)} := {ln(rvar)} ++ [{a}]")
            else:
                raise Unsupported(f".{m}({ta})")
            return "()", "unit"
        if isinstance(t, tuple) and t[0] == "arr" and m == "len" and not args:
            return f"{r}.length", "usize"
        items = [self.ex(a) for a in args]
        tkey = t if isinstance(t, str) else (t[0], t[1])
        akinds = []
        for (_, ta), a in zip(items, args):
            akinds.append(ta if isinstance(ta, str) else (ta[0], ta[1]))
        key = (tkey, m, tuple(akinds))
        if key not in PRIMS:
            # integer literal arguments take the receiver's type
            key2 = (tkey, m, tuple(tkey if a == "intlit" else a for a in akinds))
            if key2 not in PRIMS:
                raise Unsupported(f"method {m}({', '.join(map(str, akinds))}) on {t} is not in the mapping table")
            key = key2
        tpl, rt, monadic = PRIMS[key]
        term = tpl.format(r, *[v for v, _ in items])
        if monadic:
            v = self.fresh()
            self.emit(f"let {v} ← {term}")
            return v, rt
        return term, rt

    # -- patterns ----------------------------------------------------------------------------
    def patlean(self, p, ty):
        """alternatives (Lean patterns) for the Rust pattern p against a value of type ty; binds variable types"""
        k = p[0]
        if k == "pwild":
            return ["_"]
        if k == "pbind":
            self.types[p[1]] = ty
            return [ln(p[1])]
        if k == "ppath" and p[1] == "None" and isinstance(ty, tuple) and ty[0] == "opt":
            return ["none"]
        if k == "pts" and len(p[2]) == 1:
            if p[1] == "Some" and isinstance(ty, tuple) and ty[0] == "opt":
                return [f"(some {x})" for x in self.patlean(p[2][0], ty[1])]
            if p[1] == "Ok" and isinstance(ty, tuple) and ty[0] == "res":
                return [f"(.ok {x})" for x in self.patlean(p[2][0], ty[1])]
            if p[1] == "Err" and isinstance(ty, tuple) and ty[0] == "res":
                return [f"(.error {x})" for x in self.patlean(p[2][0], "errval")]
        if k == "ptuple" and isinstance(ty, tuple) and ty[0] == "tup" and len(ty[1]) == len(p[1]):
            alts = [[]]
            for sub, st in zip(p[1], ty[1]):
                alts = [a + [x] for a in alts for x in self.patlean(sub, st)]
            return ["(" + ", ".join(a) + ")" for a in alts]
        if k == "plit":
            lit = p[1]
            if lit[0] == "char" and ty == "char":
                return [leanchar(lit[1])]
            if lit[0] == "int" and ty in NUM:
                return [str(lit[1])]
            if lit[0] == "bool" and ty == "bool":
                return ["true" if lit[1] else "false"]
        if k == "por":
            return [x for sub in p[1] for x in self.patlean(sub, ty)]
        raise Unsupported(f"pattern {p} against a value of type {ty}")

    def only_literals(self, p):
        if p[0] == "plit":
            return [p[1]]
        if p[0] == "por" and all(x[0] == "plit" for x in p[1]):
            return [x[1] for x in p[1]]
        return None

    # -- branching constructs ----------------------------------------------------------------
    def branch(self, fn, k):
        saved = dict(self.types)
        self.ind += 2
        fn(k)
        self.ind -= 2
        self.types = saved

    def mark_construct(self):
        if self._pending_join:
            self._join_header = len(self.out)
            self._pending_join = False

    def two_way(self, c, then_fn, else_fn, k):
        self.mark_construct()
        self.emit(f"if {c} then do")
        self.branch(then_fn, k)
        self.emit("else do")
        self.branch(else_fn, k)

    def pat_match(self, term, ty, arms, default_fn, k):
        """arms: [(pattern, fn)]; default_fn for `| _`"""
        self.mark_construct()
        self.emit(f"match {term} with")
        for p, fn in arms:
            saved = dict(self.types)
            pats = self.patlean(p, ty)
            self.emit("| " + " | ".join(pats) + " => do")
            self.ind += 2
            fn(k)
            self.ind -= 2
            self.types = saved
        if default_fn is not None:
            self.emit("| _ => do")
            self.branch(default_fn, k)

    def lit_match(self, term, ty, arms, default_fn, k):
        """arms: [(literals, fn)] -> if-chain"""
        self.mark_construct()
        first = True
        for lits, fn in arms:
            conds = []
            for lit in lits:
                lv, lt = self.ex(("int", lit[1], lit[2]) if lit[0] == "int" else lit, ty)
                if lt != ty and lt != "intlit":
                    raise Unsupported(f"literal of type {lt} matched against {ty}")
                conds.append(f"(decide ({term} = {lv}))")
            self.emit(("if " if first else "else if ") + " || ".join(conds) + " then do")
            self.branch(fn, k)
            first = False
        if default_fn is None:
            raise Unsupported("match on literals without a default arm")
        if first:
            default_fn(k)
            return
        self.emit("else do")
        self.branch(default_fn, k)

    def join(self, build, vars_, value=False, expect=None):
        """wrap the construct emitted by build(k) into `let r ← ( ... )` and rebind the joined variables"""
        r = self.fresh()
        kj = KJoin(vars_, value, expect)
        saved_tail, saved_types = self.tail_ok, dict(self.types)
        self.tail_ok = False
        mark = len(self.out)
        self.ind += 2
        saved_pj = (self._pending_join, self._join_header)
        self._pending_join, self._join_header = True, None
        build(kj)
        header = self._join_header
        self._pending_join, self._join_header = saved_pj
        if header is None:
            raise Unsupported("empty branching construct")
        self.emit(")")
        self.ind -= 2
        for j in range(mark, header):            # evaluation of the condition / scrutinee happens before the construct
            self.out[j] = self.out[j][2:]
        self.out[header] = " " * self.ind + f"let {r} ← (" + self.out[header].lstrip()
        self.tail_ok = saved_tail
        self.types = saved_types
        if not value and not vars_:
            body = [x.strip() for x in self.out[header:]]
            if all(x in ("else do", "pure ()", ")") or x.startswith(f"let {r} ← (if ") for x in body):
                del self.out[header:]            # nothing but dropped statements inside
                return "()", "unit"
        if not kj.types and vars_ and not value:
            raise Unsupported("every branch diverges")
        n = (1 if value else 0) + len(vars_)
        for i, v in enumerate(vars_):
            if v not in kj.types:
                raise Unsupported(f"{v}: no branch reaches the join")
            self.types[v] = kj.types[v]
            self.emit(f"let {ln(v)} := {proj(r, n, i + (1 if value else 0))}")
        if value:
            return proj(r, n, 0), kj.vtype
        return "()", "unit"

    def assigned(self, nodes):
        """variables visible here that are assigned somewhere in nodes (in order of first occurrence)"""
        out = []

        def add(v):
            if v is not None and v in self.types and v not in out and self.types[v] != "args":
                out.append(v)

        def f(n):
            if n[0] == "assign":
                add(root_var(n[2]))
            elif n[0] == "mcall" and n[2] in MUTATING:
                add(root_var(n[1]))
            elif n[0] == "unary" and n[1] == "&mut":
                add(root_var(n))
            elif n[0] == "macro" and n[1] in ("print", "println"):
                add("stdout")
            elif n[0] == "call" and n[1] in self.cfg.get("externals", {}) and \
                    self.cfg["externals"][n[1]].get("effect") in ("stdout_text", "stdout_raw"):
                add("stdout")
        walk(nodes, f)
        bound = []

        def g(n):
            if n[0] == "let":
                walk(n[1], lambda q: bound.append(q[1]) if q[0] == "pbind" else None)
        walk(nodes, g)
        for v in out:
            if v in bound:
                raise Unsupported(f"{v} is both assigned and re-declared inside the same construct")
        return out

    def free_vars(self, nodes):
        out = []

        def f(n):
            if n[0] == "path" and "::" not in n[1] and n[1] in self.types and n[1] not in out:
                out.append(n[1])
            if n[0] == "mcall" and n[1] == ("path", "args") and "args_" + n[2] in self.types and "args_" + n[2] not in out:
                out.append("args_" + n[2])
            if n[0] == "field" and n[1] == ("path", "args") and "args_" + n[2] in self.types and "args_" + n[2] not in out:
                out.append("args_" + n[2])
            if n[0] == "struct":
                for fname, fe in n[2]:
                    walk(fe, f)
        walk(nodes, f)
        return out

    def if_(self, e, ss, i, k, value=False, expect=None, tail=False):
        """statement / tail / value `if`.  Returns (term, type) for value ifs, True when the rest of the block was consumed"""
        cond, then, els = e[1], e[2], e[3]
        if cond[0] != "let":
            cb = const_bool(cond)
            if cb is False:
                self.note("branches guarded by cfg!(windows) are dropped (false on the Unix build)")
                if value or tail:
                    raise Unsupported("constant condition in a value/tail if")
                if els:
                    raise Unsupported("constant-false condition with an else branch")
                return False
            if cb is True:
                raise Unsupported("constant-true condition")

        def build(kk):
            if cond[0] == "let":
                st, sty = self.ex(cond[2])
                self.pat_match(st, sty, [(cond[1], lambda k2: self.stmts(then, 0, k2))],
                               (lambda k2: self.stmts(els or [], 0, k2)), kk)
            else:
                c, tc = self.ex(cond, "bool")
                if tc != "bool":
                    raise Unsupported("if on a non-boolean")
                self.two_way(c, lambda k2: self.stmts(then, 0, k2), lambda k2: self.stmts(els or [], 0, k2), kk)

        if value:
            if contains_return([then, els]):
                raise Unsupported("return inside a value-producing if")
            return self.join(build, self.assigned([then, els]), True, expect)
        if tail:
            build(k)
            return True
        if els is None and diverges(then):
            # `if c { ...; return/bail }` : the rest of the block is the else branch
            if cond[0] == "let":
                st, sty = self.ex(cond[2])
                self.pat_match(st, sty, [(cond[1], lambda k2: self.stmts(then, 0, KDead("unreachable")))],
                               (lambda k2: self.stmts(ss, i + 1, k2)), k)
            else:
                c, tc = self.ex(cond, "bool")
                self.two_way(c, lambda k2: self.stmts(then, 0, KDead("unreachable")), lambda k2: self.stmts(ss, i + 1, k2), k)
            return True
        if contains_return([then, els]):
            raise Unsupported("return inside a branch that does not end its block")
        self.join(build, self.assigned([then, els]))
        return False

    def match_(self, e, ss, i, k, value=False, expect=None, tail=False):
        scrut, arms = e[1], e[2]
        for p, guard, body in arms:
            if guard is not None:
                raise Unsupported("match guard")

        def body_fn(body):
            stmts = body[1] if body[0] == "block" else [("expr", body, False)]
            return lambda k2: self.stmts(stmts, 0, k2)

        def build(kk):
            st, sty = self.ex(scrut)
            lits = [self.only_literals(p) for p, _, _ in arms]
            if sty in ("char", "bool") + NUM and all(l is not None or p[0] == "pwild" for l, (p, _, _) in zip(lits, arms)):
                if not (st.isidentifier() or st.replace(".", "").isalnum()):
                    v = self.fresh()
                    self.emit(f"let {v} := {st}")
                    st = v
                default = None
                lit_arms = []
                for l, (p, _, body) in zip(lits, arms):
                    if p[0] == "pwild":
                        default = body_fn(body)
                        break
                    lit_arms.append((l, body_fn(body)))
                self.lit_match(st, sty, lit_arms, default, kk)
            else:
                self.pat_match(st, sty, [(p, body_fn(body)) for p, _, body in arms], None, kk)

        bodies = [b for _, _, b in arms]
        if value:
            if contains_return(bodies):
                raise Unsupported("return inside a value-producing match")
            return self.join(build, self.assigned(bodies), True, expect)
        if tail:
            build(k)
            return True
        if contains_return(bodies):
            raise Unsupported("return inside a match that does not end its block")
        self.join(build, self.assigned(bodies))
        return False

    # -- statements --------------------------------------------------------------------------
    def stmts(self, ss, i, k):
        while i < len(ss):
            st = ss[i]
            last = i == len(ss) - 1
            if st[0] == "let":
                if self.let_(st, ss, i, k):
                    return
                i += 1
                continue
            e, semi = st[1], st[2]
            if last and not semi:
                self.tail(e, k)
                return
            if self.stmt_expr(e, ss, i, k):
                return
            i += 1
        k.finish(self, None, "unit")

    def tail(self, e, k):
        if e[0] == "if":
            self.if_(e, None, None, k, tail=True)
            return
        if e[0] == "match":
            self.match_(e, None, None, k, tail=True)
            return
        if e[0] in ("macro", "return", "loop", "while", "for", "assign") or (e[0] == "call" and e[1] in IS_EXIT):
            if not self.stmt_expr(e, [("expr", e, True)], 0, k):
                k.finish(self, None, "unit")
            return
        want = None
        if isinstance(k, KRet):
            want = ("okv", self.ret) if self.ret_is_result else self.ret
        elif isinstance(k, KJoin):
            want = k.expect
        term, ty = self.ex(e, want)
        if ty == "unit":
            term = None
        k.finish(self, term, ty)

    def bind_pattern(self, pat, term, ty):
        if pat[0] == "pwild":
            return
        if pat[0] == "pbind":
            self.emit(f"let {ln(pat[1])} := {term}")
            self.types[pat[1]] = ty
            return
        if not (term.isidentifier()):
            v = self.fresh()
            self.emit(f"let {v} := {term}")
            term = v
        if pat[0] == "ptuple" and isinstance(ty, tuple) and ty[0] == "tup" and len(ty[1]) == len(pat[1]):
            for j, (sub, st) in enumerate(zip(pat[1], ty[1])):
                self.bind_pattern(sub, proj(term, len(pat[1]), j), st)
            return
        if pat[0] == "pstruct" and isinstance(ty, tuple) and ty[0] == "struct" and pat[1].split("::")[-1] == ty[1]:
            fields = dict(STRUCTS[ty[1]])
            for f, sub in pat[2]:
                if f == "..":
                    continue
                if f not in fields:
                    raise Unsupported(f"{ty[1]} has no field {f}")
                self.bind_pattern(sub, f"{term}.{ln(f)}", fields[f])
            return
        raise Unsupported(f"let pattern {pat[0]} for a value of type {ty}")

    def let_(self, st, ss, i, k):
        pat, ty, init, els = st[1], st[2], st[3], st[4]
        if init is None:
            if pat[0] != "pbind":
                raise Unsupported("declaration without initialiser must name one variable")
            self.types[pat[1]] = None
            return False
        expect = norm_type(ty) if ty is not None else None
        if els is not None:
            term, sty = self.ex(init)
            self.pat_match(term, sty, [(pat, lambda k2: self.stmts(ss, i + 1, k2))],
                           (lambda k2: self.stmts(els, 0, KDead("the else block of let-else must diverge"))), k)
            return True
        term, vty = self.ex(init, expect)
        if vty == "intlit" and expect in NUM:
            vty = expect
        if expect is not None and vty != expect and not (isinstance(vty, tuple) and vty[0] == "arr"):
            raise Unsupported(f"let with type {expect} initialised by a value of type {vty}")
        self.bind_pattern(pat, term, vty)
        return False

    def fmt_pieces(self, toks):
        """print!-style arguments -> list of Lean Str terms"""
        if not toks:
            return []
        args = parse_tokens(toks, "format")
        if args[0][0] != "str":
            raise Unsupported("format string is not a literal")
        fmt, rest = args[0][1], list(args[1:])
        pieces, cur, j = [], [], 0
        while j < len(fmt):
            if fmt.startswith("{{", j) or fmt.startswith("}}", j):
                cur.append(fmt[j])
                j += 2
            elif fmt.startswith("{}", j):
                if cur:
                    pieces.append(leanstr("".join(cur)))
                    cur = []
                if not rest:
                    raise Unsupported("format string has more {} than arguments")
                v, t = self.ex(rest.pop(0))
                if t != "str":
                    raise Unsupported(f"{{}} applied to a value of type {t}")
                pieces.append(v)
                j += 2
            elif fmt[j] in "{}":
                raise Unsupported(f"format specification in {fmt!r}")
            else:
                cur.append(fmt[j])
                j += 1
        if cur:
            pieces.append(leanstr("".join(cur)))
        if rest:
            raise Unsupported("format string has fewer {} than arguments")
        return pieces

    def stmt_expr(self, e, ss, i, k):
        k0 = e[0]
        last = i == len(ss) - 1
        if k0 == "macro":
            name = e[1]
            if name == "bail":
                args = parse_tokens(e[2], "bail")
                if len(args) != 1:
                    raise Unsupported("bail! with format arguments")
                if not last:
                    raise Unsupported("statements after bail!")
                self.emit(self.err_term(args[0]))
                return True
            if name == "ensure":
                args = parse_tokens(e[2], "ensure")
                if len(args) != 2:
                    raise Unsupported("ensure! must have a condition and a literal message")
                c, tc = self.ex(args[0], "bool")
                if tc != "bool":
                    raise Unsupported("ensure! on a non-boolean")
                err = self.err_term(args[1])
                self.emit(f"if !{c} then")
                self.emit(f"  {err}")
                self.emit("else do")
                self.branch(lambda k2: self.stmts(ss, i + 1, k2), k)
                return True
            if name in ("print", "println"):
                if "stdout" not in self.types:
                    raise Unsupported(f"{name}! in a function without a stdout")
                pieces = self.fmt_pieces(e[2])
                if name == "println":
                    pieces.append(leanstr("\n"))
                self.emit("let stdout := stdout ++ outText (" + " ++ ".join(pieces) + ")")
                return False
            if name in ("eprintln", "eprint", "debug_assert", "debug_assert_eq"):
                if self.assigned([parse_tokens(e[2], name)]):
                    raise Unsupported(f"{name}! with side effects in its arguments")
                self.note("eprint!/eprintln! (stderr diagnostics) are dropped" if name.startswith("e") else
                          "debug_assert! lines are dropped")
                return False
            raise Unsupported(f"macro {name}!")
        if k0 == "return":
            if not last:
                raise Unsupported("statements after return")
            if e[1] is None:
                self.fn_return(None, "unit")
            else:
                want = ("okv", self.ret) if self.ret_is_result else self.ret
                term, ty = self.ex(e[1], want)
                self.fn_return(term, ty)
            return True
        if k0 == "call" and e[1] in IS_EXIT:
            if not self.cfg.get("exit_is_return"):
                raise Unsupported("process::exit")
            if not last:
                raise Unsupported("statements after process::exit")
            term, ty = self.ex(e[2][0], "i32")
            self.fn_return(term, ty)
            return True
        if k0 == "assign":
            op, lhs, rhs = e[1], e[2], e[3]
            v = root_var(lhs)
            if v is None or v not in self.types or not (lhs[0] == "path" or (lhs[0] == "unary" and lhs[1] == "*" and lhs[2][0] == "path")):
                raise Unsupported("assignment to something that is not a variable")
            cur = self.types[v]
            if op == "=":
                term, ty = self.ex(rhs, cur if cur is not None else None)
                if ty == "intlit" and cur in NUM:
                    ty = cur
                if cur is not None and cur != ty and cur != "intlit":
                    raise Unsupported(f"{v}: assignment of a {ty} to a {cur}")
                self.emit(f"let {ln(v)} := {term}")
                self.types[v] = ty
                return False
            term, ty = self.ex(("bin", op[0], ("path", v), rhs), cur)
            self.emit(f"let {ln(v)} := {term}")
            return False
        if k0 == "if":
            return self.if_(e, ss, i, k) is True
        if k0 == "match":
            return self.match_(e, ss, i, k) is True
        if k0 in ("while", "loop", "for"):
            return self.loop(e, ss, i, k)
        if k0 == "block":
            raise Unsupported("nested block statement")
        self.ex(e)
        return False

    # -- loops -------------------------------------------------------------------------------
    def binders(self):
        tps = list(self.cfg.get("tparams", []))
        if self.err == "ε":
            tps.insert(0, "ε")
        return "".join(f" {{{t} : Type}}" for t in tps) + "".join(f" ({n} : {t})" for n, t in self.ext_params)

    def loop(self, e, ss, i, k):
        kind = e[0]
        last = i == len(ss) - 1
        self.nloops += 1
        n = self.nloops
        lname = f"{self.name}_{'for' if kind == 'for' else 'loop'}{n if n > 1 else ''}"
        final = last and isinstance(k, KRet) and self.tail_ok
        mut_arr = elem = None
        if kind == "loop":
            body, nodes = e[1], [e[1]]
            if not final:
                raise Unsupported("`loop` that is not the last statement of the function")
        elif kind == "while":
            body, nodes = e[2], [e[1], e[2]]
        else:
            body, nodes = e[3], [e[3]]
            it = e[2]
            if e[1][0] != "pbind":
                raise Unsupported("for-loop pattern")
            elem = e[1][1]
            if it[0] == "unary" and it[1] == "&mut" and it[2][0] == "path" and isinstance(self.types.get(it[2][1]), tuple) \
                    and self.types[it[2][1]][0] == "arr":
                mut_arr = it[2][1]
                list_term, list_ty = self.var(mut_arr)
            elif it[0] == "unary" and it[1] == "&":
                list_term, list_ty = self.ex(it[2])
                if not (isinstance(list_ty, tuple) and list_ty[0] in ("arr", "list")):
                    raise Unsupported(f"for over a {list_ty}")
            else:
                raise Unsupported("for-loop iterator (only `&mut array` and `&list` are translated)")
        state = [v for v in self.assigned(nodes) if self.types.get(v) is not None and v != mut_arr]
        if kind == "loop":
            state += [v for v in self.outstate if v not in state]
        ro = [v for v in self.free_vars(nodes) if v not in state and self.types.get(v) not in (None, "args") and v != mut_arr]
        params = state + ro
        ptypes = {v: self.types[v] for v in params}
        ext = self.ext_args()
        saved = (self.out, self.ind, dict(self.types), self.tail_ok)
        self.out, self.ind = [], 6
        self.tail_ok = kind == "loop"
        pnames = " ".join(ln(v) for v in params)
        elem_final = {}

        def ret_state(k2=None):
            self.emit("pure " + tup([ln(v) for v in state]))

        if kind in ("loop", "while"):
            rec = lambda: self.emit(f"{lname}{ext} fuel {pnames}".rstrip())
        elif mut_arr is None:
            rec = lambda: self.emit(f"{lname}{ext} rest_ {pnames}".rstrip())
        else:
            def rec():
                elem_final["t"] = self.types.get(elem)
                r = self.fresh()
                self.emit(f"let {r} ← {lname}{ext} rest_ {pnames}".rstrip())
                m = 1 + len(state)
                self.emit("pure " + tup([f"{ln(elem)} :: {proj(r, m, 0)}"] + [proj(r, m, j + 1) for j in range(len(state))]))
        kc = KCall(rec)
        try:
            if kind == "loop":
                self.stmts(body, 0, kc)
            elif kind == "while":
                cond = e[1]
                if cond[0] == "let":
                    st, sty = self.ex(cond[2])
                    self.pat_match(st, sty, [(cond[1], lambda k2: self.stmts(body, 0, k2))], ret_state, kc)
                else:
                    c, tc = self.ex(cond, "bool")
                    self.two_way(c, lambda k2: self.stmts(body, 0, k2), ret_state, kc)
            else:
                self.types[elem] = list_ty[1]
                self.stmts(body, 0, kc)
            lines = self.out
        finally:
            self.out, self.ind, self.types, self.tail_ok = saved
        state_ty = "Unit" if not state else (lean_ty(ptypes[state[0]]) if len(state) == 1 else
                                             "(" + " × ".join(lean_ty(ptypes[v]) for v in state) + ")")
        arrows = "".join(f"{lean_ty(ptypes[v])} → " for v in params)
        if kind in ("loop", "while"):
            if n not in self.cfg.get("fuel", {}):
                raise Unsupported(f"no fuel expression configured for loop {n}")
            rt = self.result_lean_ty() if kind == "loop" else state_ty
            d = [f"def {lname}{self.binders()} : Nat → {arrows}Res {self.err} {rt}",
                 "  | 0" + ", _" * len(params) + " => Res.panic   -- out of fuel",
                 "  | fuel + 1" + "".join(f", {ln(v)}" for v in params) + " => do"]
            self.defs.append("\n".join(d + lines) + "\n")
            call = f"{lname}{ext} ({self.cfg['fuel'][n]}) {pnames}".rstrip()
            if kind == "loop":
                self.emit(call)
                return True
            r = self.fresh()
            self.emit(f"let {r} ← {call}")
            for j, v in enumerate(state):
                self.emit(f"let {ln(v)} := {proj(r, len(state), j)}")
            return False
        ety = lean_ty(list_ty[1])
        if mut_arr is None:
            d = [f"def {lname}{self.binders()} : (List {ety}) → {arrows}Res {self.err} {state_ty}",
                 "  | []" + "".join(f", {ln(v)}" for v in params) + " => pure " + tup([ln(v) for v in state]),
                 f"  | {ln(elem)} :: rest_" + "".join(f", {ln(v)}" for v in params) + " => do"]
            self.defs.append("\n".join(d + lines) + "\n")
            r = self.fresh()
            self.emit(f"let {r} ← {lname}{ext} {list_term} {pnames}".rstrip())
            for j, v in enumerate(state):
                self.emit(f"let {ln(v)} := {proj(r, len(state), j)}")
            return False
        full_ty = f"(List {ety})" if not state else "(" + " × ".join([f"List {ety}"] + [lean_ty(ptypes[v]) for v in state]) + ")"
        d = [f"def {lname}{self.binders()} : (List {ety}) → {arrows}Res {self.err} {full_ty}",
             "  | []" + "".join(f", {ln(v)}" for v in params) + " => pure " + tup(["[]"] + [ln(v) for v in state]),
             f"  | {ln(elem)} :: rest_" + "".join(f", {ln(v)}" for v in params) + " => do"]
        self.defs.append("\n".join(d + lines) + "\n")
        r = self.fresh()
        self.emit(f"let {r} ← {lname}{ext} {ln(mut_arr)} {pnames}".rstrip())
        m = 1 + len(state)
        self.emit(f"let {ln(mut_arr)} := {proj(r, m, 0)}")
        if elem_final.get("t") not in (None, "intlit"):
            self.types[mut_arr] = ("arr", elem_final["t"])
        for j, v in enumerate(state):
            self.emit(f"let {ln(v)} := {proj(r, m, j + 1)}")
        return False


# ------------------------------------------------------------------------------------------------
# per-function configuration and the generator

def check_args_getter(g):
    """`fn g(&self) -> T { self.inner.<field> }`"""
    field, ty = ARGS_GETTERS[g]
    params, ret, body = find_rust_fn(g)
    ok = (len(params) == 1 and params[0][0] == "self" and len(body) == 1 and body[0][0] == "expr" and not body[0][2]
          and body[0][1] == ("field", ("field", ("path", "self"), "inner"), field) and ret is not None and norm_type(ret) == ty)
    if not ok:
        raise X.TranslationBroken(A, f"Args::{g} is no longer the trivial getter `self.inner.{field}`")


def translate_fn(cfg, sigs):
    name = cfg["rust"]
    try:
        if cfg.get("closure"):
            params, ret, body = [], None, find_closure_body(name, cfg["closure"])
        else:
            params, ret, body = find_rust_fn(name)
        tr = Tr(cfg, sigs)
        lean_params = []
        for pn, pt in params:
            t = norm_type(pt)
            tr.types[pn] = t
            if t == "args":
                continue
            if pt[0] == "mutref":
                tr.outstate.append(pn)
            lean_params.append((pn, t))
        if cfg.get("closure"):
            tr.types["args"] = "args"
        for pn, t in cfg.get("params", []):
            tr.types[pn] = t
            lean_params.append((pn, t))
        if "select" in cfg:
            body = cfg["select"](body)
        used = []

        def f(n):
            if n[0] in ("mcall", "field") and n[1] == ("path", "args") and tr.types.get("args") == "args":
                if n[0] == "mcall" and n[2] in ARGS_GETTERS and n[2] not in used:
                    used.append(n[2])
                if n[0] == "field" and n[2] in ARGS_FIELDS and ("." + n[2]) not in used:
                    used.append("." + n[2])
        walk(body, f)
        for g in used:
            if g.startswith("."):
                tr.types["args_" + g[1:]] = ARGS_FIELDS[g[1:]]
                lean_params.append(("args_" + g[1:], ARGS_FIELDS[g[1:]]))
            else:
                check_args_getter(g)
                tr.types["args_" + g] = ARGS_GETTERS[g][1]
                lean_params.append(("args_" + g, ARGS_GETTERS[g][1]))
        if cfg.get("stdout"):
            tr.types["stdout"] = "stdout"
            tr.outstate.append("stdout")
            lean_params.append(("stdout", "stdout"))
        tr.ext_params = [(x["lean"], x["sig"]) for x in cfg.get("externals", {}).values()]
        if "ret" in cfg:
            tr.ret = cfg["ret"]
        else:
            rt = norm_type(ret) if ret is not None else "unit"
            if isinstance(rt, tuple) and rt[0] == "res":
                tr.ret_is_result, tr.ret = True, rt[1]
            else:
                tr.ret = rt
        tr.types_at_entry = dict(tr.types)
        tr.stmts(body, 0, KRet())
    except X.TranslationBroken:
        raise
    except Unsupported as ex:
        raise X.TranslationBroken(A, f"{name}: {ex}")
    except (IndexError, KeyError, TypeError, ValueError, AttributeError) as ex:
        raise X.TranslationBroken(A, f"{name}: translator error {ex!r}")
    o = list(tr.defs)
    doc = cfg["doc"]
    if tr.notes:
        doc += "  [" + "; ".join(tr.notes) + "]"
    o.append(f"/-- {doc} -/")
    sig = "".join(f" ({ln(n)} : {lean_ty(t)})" for n, t in lean_params)
    o.append(f"def {cfg['lean']}{tr.binders()}{sig} : Res {tr.err} {tr.result_lean_ty()} := do")
    o.extend(tr.out)
    o.append("")
    sigs[name] = dict(lean=cfg["lean"], ptypes=[t for _, t in lean_params], ret=tr.ret, result=tr.ret_is_result, err=tr.err)
    return "\n".join(o), tr.msgs


def select_checkfile_loop(body):
    """check_one_checkfile: the statements that open the file / stdin are I/O plumbing; translation starts at
    `let mut line = String::new();`.  The skipped statements must not touch the failure counter or the line buffer."""
    for j, st in enumerate(body):
        if st[0] == "let" and st[1] == ("pbind", "line"):
            bad = []

            def f(n):
                if n[0] == "path" and n[1] in ("files_failed", "line"):
                    bad.append(n[1])
            walk(body[:j], f)
            if bad:
                raise Unsupported(f"the statements before `let mut line` mention {bad[0]}")
            return body[j:]
    raise Unsupported("`let mut line = ...` not found")


def configs(consts):
    return [
        dict(rust="filepath_to_string", lean="filepath_to_string", err="ε",
             doc="`filepath_to_string` (Unix): `filepath` = the OS bytes of the path"),
        dict(rust="hex_half_byte", lean="hex_half_byte", err="PErr", doc="`hex_half_byte`; `u8` arithmetic is checked"),
        dict(rust="check_for_invalid_characters", lean="check_for_invalid_characters", err="PErr",
             doc="`check_for_invalid_characters` (Unix)"),
        dict(rust="unescape", lean="unescape", err="PErr", fuel={1: "path.length + 1"},
             doc="`unescape`; the `while let` loop is `unescape_loop` with fuel `path.length + 1` (every iteration removes at "
                 "least two characters; running out of fuel is a panic and is proved unreachable)"),
        dict(rust="split_untagged_check_line", lean="split_untagged_check_line", err="ε", doc="`split_untagged_check_line`"),
        dict(rust="split_tagged_check_line", lean="split_tagged_check_line", err="ε", doc="`split_tagged_check_line`"),
        dict(rust="parse_check_line", lean="parse_check_line", err="PErr", consts=consts, doc="`parse_check_line`"),
        dict(rust="hash_one_input", lean="hash_one_input", err="ε", tparams=["Rd"], stdout=True,
             externals={
                 "hash_path": dict(lean="hash_path", keep=[1], ret=("ext", "Rd"), result=True, sig="List UInt8 → Res ε Rd"),
                 "write_raw_output": dict(lean="write_raw_output", keep=[0], ret="unit", result=True, effect="stdout_raw",
                                          sig="Rd → Res ε (List UInt8)"),
                 "write_hex_output": dict(lean="write_hex_output", keep=[0], ret="unit", result=True, effect="stdout_text",
                                          sig="Rd → Res ε Str"),
             },
             doc="`hash_one_input`: returns what it appends to `stdout`.  Abstract callees: `hash_path path` (the positioned "
                 "output reader), `write_raw_output rd` / `write_hex_output rd` = the bytes / the text they write"),
        dict(rust="check_one_checkfile", lean="check_one_checkfile", err="String", select=select_checkfile_loop,
             params=[("bufreader", "bufreader")], fuel={1: "bufreader.length + 1"},
             externals={"check_one_line": dict(lean="check_one_line", keep=[0], ret="bool", result=False, sig="Str → Res String Bool")},
             doc="the line loop of `check_one_checkfile` (from `let mut line = String::new();` on; opening the file or stdin is "
                 "not translated): `bufreader` = the future results of `read_line`; returns the new `*files_failed`.  Abstract "
                 "callee: `check_one_line line` (can only succeed or panic)"),
        dict(rust="main", lean="main_closure", err="String", closure=r"thread_pool\s*\.\s*install\s*\(\s*\|\|\s*", ret="i32",
             exit_is_return=True,
             externals={
                 "check_one_checkfile": dict(lean="check_one_checkfile_", keep=[0, 2], ret="unit", result=True, effect=("mut", 2),
                                             sig="List UInt8 → Nat → Res String Nat"),
                 "hash_one_input": dict(lean="hash_one_input_", keep=[0], ret="unit", result=True, sig="List UInt8 → Res String Unit"),
             },
             doc="the closure that `main` runs in the thread pool: the loop over `args.file_args`, the failure counter and the "
                 "argument of `std::process::exit` (the returned value; `err e` = the closure returns `Err(e)`).  Abstract "
                 "callees: `check_one_checkfile_ path files_failed` = the new counter, `hash_one_input_ path`"),
    ]


def gen_b3sum():
    global STRUCTS
    STRUCTS.clear()
    try:
        for sname in ("FilepathString", "ParsedCheckLine"):
            fields = find_rust_struct(sname)
            STRUCTS[sname] = []          # so that norm_type of a self-reference fails loudly
            STRUCTS[sname] = [(f, norm_type(t)) for f, t in fields]
    except Unsupported as ex:
        raise X.TranslationBroken(A, f"struct definitions: {ex}")
    out_len = X.rust_const_int(A, "src/lib.rs", "OUT_LEN")
    consts = {"blake3::OUT_LEN": (str(out_len), "usize")}
    o = ["/- GENERATED by gen/ext_b3sum.py from /repo/b3sum/src/main.rs (the checkfile parser and formatter, the failure counter",
         "   and the exit status) -- do not edit.  Library operations are mapped by the table PRIMS of gen/ext_b3sum.py to the",
         "   primitives of B3.B3sum.Model / B3.B3sum.RustPrim; control flow, operators, constants, literals, the order of",
         "   statements and every panicking operation (unwrap, slicing, checked arithmetic) come from the source text. -/",
         "import B3.B3sum.RustPrim", "set_option linter.unusedVariables false", "namespace B3.Gen.B3sumParse",
         "open B3.B3sum B3.B3sum.RustPrim", ""]
    for sname, fields in STRUCTS.items():
        o.append(f"/-- `struct {sname}` -/")
        o.append(f"structure {sname} where")
        for f, t in fields:
            o.append(f"  {ln(f)} : {lean_ty(t)}")
        o.append("  deriving DecidableEq, Repr")
        o.append("")
    sigs, msgs = {}, []
    for cfg in configs(consts):
        text, m = translate_fn(cfg, sigs)
        o.append(text)
        msgs += [x for x in m if x not in msgs]
    o.append("/-! the error classes used above carry exactly the messages of the source -/")
    for m in msgs:
        o.append(f"example : PErr.msg .{MSGS[m]} = {X.json.dumps(m, ensure_ascii=False)} := rfl")
    o.append("")
    o.append("end B3.Gen.B3sumParse")
    return "\n".join(o) + "\n"


ARTEFACTS = [("B3sumParse.lean", A, gen_b3sum)]

if __name__ == "__main__":
    print(gen_b3sum())
