#!/usr/bin/env python3
"""
Translator for the Rust intrinsics kernels, generalised from gen/extract_simd.py (which stays as it is
and keeps producing RsSse41.lean).  One `Target` per source file:

    src/rust_avx2.rs  ->  B3/Gen/RsAvx2.lean   (__m256i -> V8, B3/Simd/Prim256.lean)
    src/rust_sse2.rs  ->  B3/Gen/RsSse2.lean   (__m128i -> V4, B3/Simd/Prim.lean + Sse2Prim.lean)
    (src/rust_sse41.rs -> the same text as extract_simd.py produces: used as a regression check)

    python3 gen/extract_simd2.py --repo /repo --out /tmp/build/s2/lean [--target avx2|sse2|sse41]

What follows is the description of extract_simd.py, which applies unchanged; the differences are:
`__m256i`, `i32`/`i16` scalars (bit patterns: UInt32/UInt16), the 256-bit and the 16-bit-lane
intrinsics, `mut_array_refs!` pieces / pointer arrays of 8, and calls of an already translated
function of another file (`crate::sse41::hash_many` -> `B3.Gen.RsSse41.hash_many`; its signature is
read from src/rust_sse41.rs).

Every function of rust_sse41.rs outside the test module is parsed (statement by statement, with a
small Rust expression parser) and re-emitted as a Lean definition over the lane model of
B3/Simd/Prim.lean.  Nothing is copied by hand: shift counts, shuffle immediates, the order of the
g1/g2 calls, load/store offsets, ... all come from the source text.  Anything the translator does not
understand raises TranslationBroken (exit code 3, the message names the function).

Modelling conventions (also written into the header of the generated file):
  __m128i                      -> V4 (4 x UInt32 lanes)           u8/u32/u64 -> UInt8/UInt32/UInt64
  usize                        -> Nat  (no wrap: bounded by the size of real memory)
  u64 `+`                      -> UInt64 wrapping add (the real code panics in debug builds if it wraps)
  &T / &mut T parameters       -> values; a function returns the tuple of its &mut parameters
  &[u32; n], &[u8; 4n]         -> Vector UInt32 n   (little-endian words, as in the rest of the project)
  *const u8                    -> Mem = Nat -> UInt8 (byte addressed, offset 0 = the pointer)
  [__m128i; n]                 -> Vector V4 n
  IncrementCounter / .yes()    -> Bool
  `x as i32` (from u32)        -> x   (same bits);   `x as u32` -> x.toUInt32;  `x as usize` (index) -> x
  for i in a..b { S }          -> List.foldl over List.range' a (b-a) carrying the variables S assigns
  while c { S }                -> Simd.whileFuel (bounded iteration; the theorems prove the bound suffices)
  _mm_prefetch, debug_assert   -> no architectural effect / no effect in release builds: dropped (recognised explicitly)
"""
import argparse
import os
import re
import sys

sys.path.insert(0, os.path.dirname(os.path.abspath(__file__)))
from extract import TranslationBroken, match_brace, strip_comments, tokenize, write_if_changed  # noqa: E402

A = "rust_sse41"           # the current target's name / file: set by Generator (see `activate`)
REL = "src/rust_sse41.rs"
TARGET = None


def broken(fn, why):
    raise TranslationBroken(A, f"{fn}: {why}")


class Target:
    """one source file: name (for messages), path, Lean namespace, Rust vector type -> Lean lane vector,
    allowed intrinsics prefix, the load/store wrappers, the functions to translate, the file header"""

    def __init__(self, name, rel, ns, rust_vt, vt, lanes, prefix, suffix, load_body, store_body, plan, header,
                 externals=(), banned=()):
        self.name, self.rel, self.ns, self.rust_vt, self.vt, self.lanes = name, rel, ns, rust_vt, vt, lanes
        self.prefix, self.suffix, self.load_body, self.store_body = prefix, suffix, load_body, store_body
        self.plan, self.header, self.externals, self.banned = plan, header, list(externals), set(banned)


def activate(target):
    """make `target` the one error messages and the type tables refer to; returns the previous one"""
    global A, REL, TARGET
    prev = TARGET
    TARGET = target
    if target is not None:
        A, REL = target.name, target.rel
    return prev


# ------------------------------------------------------------------------------------------------
# source access


class Source:
    def __init__(self, repo):
        self.repo = repo
        path = os.path.join(repo, REL)
        try:
            with open(path, encoding="utf-8") as f:
                text = f.read()
        except OSError as ex:
            raise TranslationBroken(A, f"cannot read {path}: {ex}")
        # the test module is excluded
        m = re.search(r"#\[cfg\(test\)\]\s*mod\s+test\s*\{", text)
        if m:
            b0 = text.index("{", m.start())
            b1 = match_brace(text, b0)
            text = text[:m.start()] + text[b1:]
        self.text = text
        with open(os.path.join(repo, "src/lib.rs"), encoding="utf-8") as f:
            self.lib = f.read()
        self.consts = {}
        for name in ("BLOCK_LEN", "OUT_LEN"):
            m = re.search(rf"pub\s+const\s+{name}\s*:\s*usize\s*=\s*(\d+)\s*;", self.lib)
            if not m:
                raise TranslationBroken(A, f"constant {name} not found in src/lib.rs")
            self.consts[name] = int(m.group(1))
        m = re.search(r"pub\s+const\s+DEGREE\s*:\s*usize\s*=\s*(\d+)\s*;", self.text)
        if not m:
            raise TranslationBroken(A, "constant DEGREE not found")
        self.consts["DEGREE"] = int(m.group(1))
        self.macros = self.find_macros()

    def find_macros(self):
        """macro_rules! NAME { (params) => { body }; }  -> {NAME: ([param names], body text)}"""
        out = {}
        for m in re.finditer(r"macro_rules!\s+(\w+)\s*\{", self.text):
            b0 = self.text.index("{", m.start())
            b1 = match_brace(self.text, b0)
            inner = strip_comments(self.text[b0 + 1:b1 - 1])
            mm = re.match(r"\s*\(([^)]*)\)\s*=>\s*\{(.*)\}\s*;?\s*$", inner, re.S)
            if not mm:
                raise TranslationBroken(A, f"macro {m.group(1)}: unexpected shape")
            params = re.findall(r"\$(\w+)\s*:\s*expr", mm.group(1))
            if len(params) != mm.group(1).count("$"):
                raise TranslationBroken(A, f"macro {m.group(1)}: non-expr parameter")
            out[m.group(1)] = (params, mm.group(2).strip())
        return out

    def find_fn(self, name):
        """-> (params [(name, type text)], return type text or None, raw body text with comments)"""
        m = re.search(rf"\bfn\s+{name}\s*(<[^>]*>)?\s*\(", self.text)
        if not m:
            broken(name, f"function not found in {REL}")
        self.generics = []
        if m.group(1):
            for g in m.group(1)[1:-1].split(","):
                gm = re.match(r"^\s*const\s+(\w+)\s*:\s*usize\s*$", g)
                if not gm:
                    broken(name, f"unsupported generic parameter {g!r}")
                self.generics.append(gm.group(1))
        p0 = self.text.index("(", m.start())
        p1 = match_brace(self.text, p0, "(", ")")
        b0 = self.text.index("{", p1)
        b1 = match_brace(self.text, b0)
        ptxt = strip_comments(self.text[p0 + 1:p1 - 1])
        params = []
        for part in split_top(ptxt, ","):
            part = part.strip()
            if not part:
                continue
            mm = re.match(r"^(mut\s+)?(\w+)\s*:\s*(.+)$", part, re.S)
            if not mm:
                broken(name, f"cannot parse parameter {part!r}")
            params.append((mm.group(2), " ".join(mm.group(3).split()), bool(mm.group(1))))
        rtxt = strip_comments(self.text[p1:b0]).strip()
        ret = None
        if rtxt:
            mm = re.match(r"^->\s*(.+)$", rtxt, re.S)
            if not mm:
                broken(name, f"cannot parse return type {rtxt!r}")
            ret = " ".join(mm.group(1).split())
        return params, ret, self.text[b0 + 1:b1 - 1]

    def expand_macros(self, fn, text):
        """textual expansion of the file's own macro_rules! macros (innermost first)"""
        for _ in range(10000):
            hit = None
            for name in self.macros:
                for m in re.finditer(rf"\b{name}!\s*\(", text):
                    hit = (name, m)  # take the last occurrence: its arguments contain no later macro call
            if hit is None:
                return text
            # choose the textually last call among all macros
            best = None
            for name in self.macros:
                for m in re.finditer(rf"\b{name}!\s*\(", text):
                    if best is None or m.start() > best[1].start():
                        best = (name, m)
            name, m = best
            p0 = text.index("(", m.start())
            p1 = match_brace(text, p0, "(", ")")
            args = [a.strip() for a in split_top(text[p0 + 1:p1 - 1], ",") if a.strip()]
            params, body = self.macros[name]
            if len(args) != len(params):
                broken(fn, f"macro {name}! called with {len(args)} arguments")
            exp = body
            for p, a in zip(params, args):
                exp = re.sub(rf"\${p}\b", lambda _m, a=a: "(" + a + ")", exp)
            text = text[:m.start()] + "(" + exp + ")" + text[p1:]
        broken(fn, "macro expansion does not terminate")


def split_top(s, sep):
    out, depth, cur = [], 0, []
    for ch in s:
        if ch in "([{<" and not (ch == "<"):
            depth += 1
        elif ch in ")]}":
            depth -= 1
        if ch == sep and depth == 0:
            out.append("".join(cur))
            cur = []
        else:
            cur.append(ch)
    out.append("".join(cur))
    return out


# ------------------------------------------------------------------------------------------------
# expression parser (Pratt) for the Rust subset that occurs in rust_sse41.rs

BINP = {"||": 1, "&&": 2, "==": 3, "!=": 3, "<": 3, ">": 3, "<=": 3, ">=": 3,
        "|": 4, "^": 5, "&": 6, "<<": 7, ">>": 7, "+": 8, "-": 8, "*": 9, "/": 9, "%": 9}


class RP:
    def __init__(self, toks):
        self.t = toks
        self.i = 0

    def peek(self, k=0):
        return self.t[self.i + k] if self.i + k < len(self.t) else ("eof", None)

    def next(self):
        x = self.peek()
        self.i += 1
        return x

    def at(self, op):
        return self.peek() == ("op", op)

    def expect(self, op):
        x = self.next()
        if x != ("op", op):
            raise ValueError(f"expected {op!r}, got {x}")

    def args(self, close):
        a = []
        while not self.at(close):
            a.append(self.expr())
            if self.at(","):
                self.next()
            elif not self.at(close):
                raise ValueError(f"expected ',' or {close!r}, got {self.peek()}")
        self.expect(close)
        return a

    def type_text(self):
        """a type after `as`: ident | *const T | *mut T | [T; N]"""
        if self.at("*"):
            self.next()
            k, v = self.next()
            if (k, v) not in (("id", "const"), ("id", "mut")):
                raise ValueError("expected const/mut after '*' in a cast")
            return f"*{v} " + self.type_text()
        if self.at("["):
            self.next()
            inner = self.type_text()
            self.expect(";")
            i0 = self.i
            self.expr()
            size = "".join(str(t[1]) for t in self.t[i0:self.i])
            self.expect("]")
            return "[" + inner + "; " + size + "]"
        k, v = self.next()
        if k != "id":
            raise ValueError(f"expected a type, got {k} {v}")
        return v

    def block_expr(self):
        """{ expr }  (a block that is a single tail expression)"""
        self.expect("{")
        e = self.expr()
        self.expect("}")
        return e

    def primary(self):
        k, v = self.next()
        if k == "num":
            return ("num", v)
        if k == "id":
            if v == "if":
                c = self.expr(nostruct=True)
                a = self.block_expr()
                if self.peek() != ("id", "else"):
                    raise ValueError("if-expression without else")
                self.next()
                b = self.block_expr()
                return ("ife", c, a, b)
            if v.endswith("!"):
                self.expect("(")
                return ("macro", v[:-1], self.args(")"))
            if self.at("("):
                self.next()
                return ("call", v, self.args(")"))
            return ("var", v)
        if (k, v) == ("op", "("):
            items = self.args(")")
            # distinguish (e) from (a, b): args() accepts both; a 1-tuple does not occur
            if len(items) == 1:
                return ("paren", items[0])
            return ("tuple", items)
        if (k, v) == ("op", "["):
            return ("array", self.args("]"))
        if (k, v) == ("op", "{"):
            e = self.expr()
            self.expect("}")
            return ("paren", e)
        raise ValueError(f"unexpected token {k} {v!r}")

    def unary(self):
        if self.at("&"):
            self.next()
            if self.peek() == ("id", "mut"):
                self.next()
            return ("ref", self.unary())
        if self.at("*"):
            self.next()
            return ("deref", self.unary())
        if self.at("!"):
            self.next()
            return ("not", self.unary())
        if self.at("-"):
            self.next()
            return ("neg", self.unary())
        return self.postfix()

    def postfix(self):
        e = self.primary()
        while True:
            if self.at("["):
                self.next()
                if self.at(".") and self.peek(1) == ("op", "."):          # [..]
                    self.next(); self.next()
                    if self.at("]"):
                        self.next()
                        e = ("slice_from", e, ("num", 0))
                        continue
                    raise ValueError("unsupported range [..x]")
                idx = self.expr()
                if self.at(".") and self.peek(1) == ("op", "."):          # [a..]
                    self.next(); self.next()
                    self.expect("]")
                    e = ("slice_from", e, idx)
                    continue
                self.expect("]")
                e = ("index", e, idx)
            elif self.at(".") and self.peek(1)[0] == "id":
                self.next()
                name = self.next()[1]
                if self.at("("):
                    self.next()
                    e = ("method", e, name, self.args(")"))
                else:
                    e = ("field", e, name)
            elif self.at(".") and self.peek(1)[0] == "num":
                self.next()
                e = ("tfield", e, self.next()[1])
            elif self.peek() == ("id", "as"):
                self.next()
                e = ("cast", e, self.type_text())
            else:
                return e

    def expr(self, minp=0, nostruct=False):
        lhs = self.unary()
        while True:
            k, v = self.peek()
            if k == "op" and v in BINP and BINP[v] >= minp and self.peek(1) != ("op", "="):
                self.next()
                rhs = self.expr(BINP[v] + 1)
                lhs = ("bin", v, lhs, rhs)
            else:
                return lhs


def rtokenize(s):
    """the tokenizer of extract.py, with `..` kept as two dots and paths like core::mem::transmute as one id"""
    return tokenize(s)


def parse_expr(s):
    p = RP(rtokenize(s))
    e = p.expr()
    if p.peek()[0] != "eof":
        raise ValueError(f"trailing tokens after expression: {p.peek()}")
    return e


# ------------------------------------------------------------------------------------------------
# statements -> IR


def split_block(fn, text):
    """text of a block (without its braces) -> (list of statement items, tail expression text or None)
    item = ("simple", text) | ("for"/"while"/"if", header text, body text) | ("block", body text)"""
    items = []
    i, n = 0, len(text)
    while True:
        while i < n and text[i].isspace():
            i += 1
        if i >= n:
            return items, None
        m = re.match(r"(for|while|if)\b", text[i:])
        if m:
            j, depth = i, 0
            while j < n and not (text[j] == "{" and depth == 0):
                depth += text[j] in "(["
                depth -= text[j] in ")]"
                j += 1
            if j >= n:
                broken(fn, f"no block after {m.group(1)}")
            b1 = match_brace(text, j)
            rest = text[b1:].lstrip()
            if m.group(1) == "if" and re.match(r"else\b", rest):
                broken(fn, "if/else used as a statement is not supported")
            items.append((m.group(1), text[i + len(m.group(1)):j].strip(), text[j + 1:b1 - 1]))
            i = b1
            continue
        if text[i] == "{":
            b1 = match_brace(text, i)
            items.append(("block", text[i + 1:b1 - 1]))
            i = b1
            continue
        j, depth = i, 0
        while j < n and not (text[j] == ";" and depth == 0):
            depth += text[j] in "([{"
            depth -= text[j] in ")]}"
            j += 1
        if j >= n:
            return items, text[i:].strip()
        items.append(("simple", text[i:j].strip()))
        i = j + 1


ASSIGN_OPS = {"=": "", "|=": "|", "+=": "+", "^=": "^", "&=": "&", "-=": "-"}


def top_level_index(toks, pred):
    depth = 0
    for k, t in enumerate(toks):
        if t[0] == "op" and t[1] in "([{":
            depth += 1
        elif t[0] == "op" and t[1] in ")]}":
            depth -= 1
        elif depth == 0 and pred(t):
            return k
    return None


def parse_toks(toks):
    p = RP(toks)
    e = p.expr()
    if p.peek()[0] != "eof":
        raise ValueError(f"trailing tokens after expression: {p.peek()}")
    return e


def parse_simple(fn, s):
    if re.match(r"debug_assert(_eq)?!\s*\(", s):
        return ("noeffect", "debug_assert")
    try:
        toks = rtokenize(s)
        if toks and toks[0] == ("id", "let"):
            toks = toks[1:]
            eq = top_level_index(toks, lambda t: t == ("op", "="))
            if eq is None:
                names = [t for t in toks if t != ("id", "mut")]
                if len(names) == 1 and names[0][0] == "id":
                    return ("decl", names[0][1])
                raise ValueError("let without initialiser of unknown shape")
            lhs, rhs = toks[:eq], toks[eq + 1:]
            e = parse_toks(rhs)
            if lhs[0] == ("op", "[") or lhs[0] == ("op", "("):
                close = "]" if lhs[0][1] == "[" else ")"
                if lhs[-1] != ("op", close):
                    raise ValueError("pattern with type annotation not supported")
                names = []
                for t in lhs[1:-1]:
                    if t in (("id", "mut"), ("op", ",")):
                        continue
                    if t[0] != "id":
                        raise ValueError("nested pattern not supported")
                    names.append(t[1])
                return ("letpat", "array" if close == "]" else "tuple", names, e)
            lhs = [t for t in lhs if t != ("id", "mut")]
            if lhs[0][0] != "id":
                raise ValueError("unsupported let pattern")
            ty = None
            if len(lhs) > 1:
                if lhs[1] != ("op", ":"):
                    raise ValueError("unsupported let pattern")
                ty = "".join(str(t[1]) + (" " if t in (("id", "const"), ("id", "mut")) else "") for t in lhs[2:])
            return ("let", lhs[0][1], ty, e)
        k = top_level_index(toks, lambda t: t[0] == "op" and t[1] in ASSIGN_OPS)
        if k is not None:
            return ("assign", parse_toks(toks[:k]), ASSIGN_OPS[toks[k][1]], parse_toks(toks[k + 1:]))
        e = parse_toks(toks)
        if e[0] == "macro" and e[1] == "__segment__":
            return ("marker", e[2][0][1])
        return ("expr", e)
    except TranslationBroken:
        raise
    except Exception as ex:
        broken(fn, f"statement {s!r}: {ex}")


def parse_body(fn, text):
    """-> (list of IR statements, tail expression AST or None)"""
    items, tail = split_block(fn, text)
    out = []
    for idx, it in enumerate(items):
        if it[0] == "simple":
            out.append(parse_simple(fn, it[1]))
        elif it[0] == "block":
            inner, itail = parse_body(fn, it[1])
            last = idx == len(items) - 1 and tail is None
            if not last and (itail is not None or any(s[0] in ("let", "letpat", "decl") for s in inner)):
                broken(fn, "inner block with bindings or a value, followed by more statements")
            out.extend(inner)
            if itail is not None:
                return out, itail
        else:
            kind, head, body = it
            inner, itail = parse_body(fn, body)
            if itail is not None:
                broken(fn, f"{kind} block with a tail expression")
            try:
                if kind == "for":
                    m = re.match(r"^(.+?)\s+in\s+(.+)$", head, re.S)
                    if not m:
                        raise ValueError("cannot parse for header")
                    pat, rng = m.group(1).strip(), m.group(2).strip()
                    toks = rtokenize(rng)
                    k = top_level_index(toks, lambda t: t == ("op", "."))
                    if re.match(r"^\w+$", pat) and k is not None and toks[k + 1] == ("op", ".") \
                            and all(t != ("op", ".") or i in (k, k + 1) for i, t in enumerate(toks)):
                        out.append(("for", pat, parse_toks(toks[:k]), parse_toks(toks[k + 2:]), inner))
                    else:
                        out.append(("foriter", pat, parse_expr(rng), inner))
                elif kind == "while":
                    out.append(("while", parse_expr(head), inner))
                else:
                    out.append(("if", parse_expr(head), inner))
            except TranslationBroken:
                raise
            except Exception as ex:
                broken(fn, f"{kind} {head!r}: {ex}")
    if tail is not None:
        try:
            return out, parse_expr(tail)
        except Exception as ex:
            broken(fn, f"tail expression {tail!r}: {ex}")
    return out, None


def prepare_body(src, fn, raw, segment_markers=False):
    if segment_markers == "blank":
        # a run of blank source lines after a line whose code (comments removed) ends a statement is a cut
        # (extract_simd.py looks for `;` directly followed by the blank line, so a trailing comment hid the cut)
        raw_lines = raw.split("\n")
        code_lines = strip_comments(raw).split("\n")
        if len(raw_lines) != len(code_lines):
            broken(fn, "comment stripping changed the number of lines")
        cnt, out_lines, after_stmt = 1, [], False
        for rl, cl in zip(raw_lines, code_lines):
            if rl.strip() == "":
                if after_stmt:
                    cnt += 1
                    out_lines.append(f"__segment__!({cnt});")
                    after_stmt = False
            elif cl.strip():
                after_stmt = cl.rstrip().endswith(";")
            out_lines.append(rl)
        raw = "\n".join(out_lines)
    elif segment_markers:
        raw = re.sub(r"//[ \t]*Round[ \t]+(\d+)\b[^\n]*", r"__segment__!(\1);", raw)
    text = strip_comments(raw)
    text = re.sub(r"\bunsafe\s*\{", "{", text)
    text = src.expand_macros(fn, text)
    return parse_body(fn, text)


# ------------------------------------------------------------------------------------------------
# types
#
# type descriptors:  "V4" "u8" "u32" "u64" "usize" "bool" "prop" "mem" "lit" (untyped integer literal)
#   ("fin", n)             index into an n-element table (usize parameter used to index MSG_SCHEDULE)
#   ("words", n, eb)       Vector UInt32 n; eb = size in bytes of the Rust element (4: [u32; n], 1: [u8; 4n])
#   ("vec", elem, n)       Vector <elem> n for elem in V4 / mem / ("fin", k) / ("vec", ...)
#   ("tuple", [types])
#   ("ptr", kind, base lean, byte offset (int or lean str), elem size)   kind = "words" | "mem"
#   TVar                   integer type still to be inferred from use


class TVar:
    def __init__(self, name):
        self.name = name
        self.ty = None


def resolve(t):
    while isinstance(t, TVar) and t.ty is not None:
        t = t.ty
    return t


INT_TYPES = {"u8": "UInt8", "u16": "UInt16", "u32": "UInt32", "u64": "UInt64", "usize": "Nat"}
VECS = ("V4", "V8")


def lean_ty(fn, t):
    t = resolve(t)
    if isinstance(t, TVar):
        return "{TVAR:" + t.name + "}"
    if t in INT_TYPES:
        return INT_TYPES[t]
    if t in VECS:
        return t
    if t == "bool":
        return "Bool"
    if t == "mem":
        return "Mem"
    if t == "bytes":
        return "List UInt8"
    if t == "mutslice":
        return "MutSlice"
    if isinstance(t, tuple):
        if t[0] == "fin":
            return f"Fin {t[1]}"
        if t[0] == "words":
            return {8: "CV", 16: "St"}.get(t[1], f"Vector UInt32 {t[1]}")
        if t[0] == "vec":
            inner = lean_ty(fn, t[1])
            return f"Vector {inner if ' ' not in inner else '(' + inner + ')'} {t[2]}"
        if t[0] == "tuple":
            return " × ".join(lean_ty(fn, x) for x in t[1])
        if t[0] == "list":
            inner = lean_ty(fn, t[1])
            return f"List {inner if ' ' not in inner else '(' + inner + ')'}"
    broken(fn, f"no Lean type for {t!r}")


def atom(s):
    """parenthesise unless already atomic"""
    if re.match(r"^[\w.\[\]#']+$", s) and not s.startswith("#"):
        return s
    if s.startswith("(") and match_brace(s, 0, "(", ")") == len(s):
        return s
    if s.startswith("#v[") and match_brace(s, 2, "[", "]") == len(s):
        return s
    return "(" + s + ")"


def proj(base, k, n):
    """k-th component of an n-tuple (right-nested pairs)"""
    if n == 1:
        return base
    s = base + ".2" * k
    return s + (".1" if k < n - 1 else "")


INTRINSICS = {
    # name: (argument kinds, result)      kind "v" = V4, "w" = V8, "i" = compile-time constant, "s" = u32/i32 scalar,
    #                                     "h" = i16 scalar (UInt16 bit pattern)
    "_mm_and_si128": ("vv", "V4"), "_mm_andnot_si128": ("vv", "V4"), "_mm_cmpeq_epi16": ("vv", "V4"),
    "_mm_set1_epi16": ("h", "V4"), "_mm_set_epi16": ("hhhhhhhh", "V4"),
    "_mm256_add_epi32": ("ww", "V8"), "_mm256_xor_si256": ("ww", "V8"), "_mm256_or_si256": ("ww", "V8"),
    "_mm256_srli_epi32": ("wi", "V8"), "_mm256_slli_epi32": ("wi", "V8"),
    "_mm256_set1_epi32": ("s", "V8"), "_mm256_setr_epi32": ("ssssssss", "V8"),
    "_mm256_unpacklo_epi32": ("ww", "V8"), "_mm256_unpackhi_epi32": ("ww", "V8"),
    "_mm256_unpacklo_epi64": ("ww", "V8"), "_mm256_unpackhi_epi64": ("ww", "V8"),
    "_mm256_permute2x128_si256": ("wwi", "V8"),
    "_mm_add_epi32": ("vv", "V4"), "_mm_xor_si128": ("vv", "V4"), "_mm_or_si128": ("vv", "V4"),
    "_mm_srli_epi32": ("vi", "V4"), "_mm_slli_epi32": ("vi", "V4"),
    "_mm_set1_epi32": ("s", "V4"), "_mm_setr_epi32": ("ssss", "V4"),
    "_mm_shuffle_epi32": ("vi", "V4"), "_mm_shuffle_ps": ("vvi", "V4"), "_mm_blend_epi16": ("vvi", "V4"),
    "_mm_castps_si128": ("v", "V4"), "_mm_castsi128_ps": ("v", "V4"),
    "_mm_unpacklo_epi32": ("vv", "V4"), "_mm_unpackhi_epi32": ("vv", "V4"),
    "_mm_unpacklo_epi64": ("vv", "V4"), "_mm_unpackhi_epi64": ("vv", "V4"),
}

LEAN_BIN = {"|": "|||", "^": "^^^", "&": "&&&", "<<": "<<<", ">>": ">>>", "+": "+", "-": "-", "*": "*", "/": "/",
            "%": "%", "==": "=", "!=": "≠", "<": "<", ">": ">", "<=": "≤", ">=": "≥", "&&": "∧", "||": "∨"}
PY_BIN = {"|": lambda a, b: a | b, "^": lambda a, b: a ^ b, "&": lambda a, b: a & b, "<<": lambda a, b: a << b,
          ">>": lambda a, b: a >> b, "+": lambda a, b: a + b, "-": lambda a, b: a - b, "*": lambda a, b: a * b,
          "/": lambda a, b: a // b, "%": lambda a, b: a % b}


KIND_TY = {"v": "V4", "w": "V8", "s": "u32", "h": "u16"}


class Sig:
    def __init__(self, name, params, ret, inout, generics=(), lean=None):
        self.name, self.params, self.ret, self.inout = name, params, ret, inout  # params: [(name, type)]
        self.generics = list(generics)
        self.lean = lean or name      # the Lean constant (differs from `name` for a function of another file)


# ------------------------------------------------------------------------------------------------
# one function


class FnTr:
    def __init__(self, gen, name):
        self.gen, self.fn = gen, name
        self.env = {}       # variable -> type descriptor | None (declared, not yet assigned) | ("alias", base, [(off, n)])
        self.order = []     # variables in order of first declaration
        self.lines = []
        self.ntmp = 0
        self.tvars = []
        self.generics = []  # const generic parameters (usize), passed as leading Nat parameters
        self.pending = []   # loop bodies lifted into their own definitions: (name, closure, extra binders, type, lines, result)

    # -------- helpers
    def bad(self, why):
        broken(self.fn, why)

    def fresh(self, stem):
        while True:
            self.ntmp += 1
            n = f"{stem}{self.ntmp}"
            if n not in self.env:
                return n

    def declare(self, name, ty):
        if name not in self.env:
            self.order.append(name)
        self.env[name] = ty

    def unify(self, a, b, what):
        a, b = resolve(a), resolve(b)
        if a == "lit":
            return b
        if b == "lit":
            return a
        if isinstance(a, TVar):
            if a is not b:
                a.ty = b
            return b
        if isinstance(b, TVar):
            b.ty = a
            return a
        if a != b:
            self.bad(f"type mismatch in {what}: {a!r} vs {b!r}")
        return a

    def const(self, e, what):
        s, ty, val = self.emit(e)
        if val is None:
            self.bad(f"{what} is not a compile-time constant: {s}")
        return val

    def rust_type(self, txt):
        """Rust type text -> (descriptor, is &mut)"""
        t = txt.strip()
        inout = False
        m = re.match(r"^&\s*(mut\s+)?(.*)$", t)
        if m:
            inout = bool(m.group(1))
            t = m.group(2).strip()
        simple = {TARGET.rust_vt: TARGET.vt, "u8": "u8", "u32": "u32", "u64": "u64", "usize": "usize",
                  "i32": "u32", "i16": "u16",      # signed scalars are represented by their bit patterns
                  "CVWords": ("words", 8, 4), "CVBytes": ("words", 8, 1), "IncrementCounter": "bool"}
        if t in simple:
            return simple[t], inout
        m = re.match(r"^\[&\[u8;\s*(\w+)\]\]$", t)
        if m and m.group(1) in self.generics:
            return ("list", "bytes"), inout
        m = re.match(r"^\[([^\[\]]+);\s*([^\[\]]+)\]$", t)
        if m:
            inner, size = m.group(1).strip(), m.group(2).strip()
            try:
                n = self.const(parse_expr(size), f"array size {size!r}")
            except TranslationBroken:
                if inner == "u8" and size in self.generics:
                    return "bytes", inout                 # &[u8; N] with a const generic N: the N bytes
                raise
            if inner == "u8":
                if n % 4:
                    self.bad(f"byte array of size {n} is not a whole number of words")
                return ("words", n // 4, 1), inout
            if inner == TARGET.rust_vt:
                return ("vec", TARGET.vt, n), inout
            if inner in ("*const u8", "* const u8"):
                return ("vec", "mem", n), inout
        m = re.match(r"^\((.*)\)$", t)
        if m:
            return ("tuple", tuple(self.rust_type(x)[0] for x in split_top(m.group(1), ",") if x.strip())), inout
        if t == "[u8]":
            if not inout:
                return "bytes", inout
            return "mutslice", inout
        m = re.match(r"^\[&\[u8;\s*(\w+)\]\]$", t)
        if m and m.group(1) in self.generics:
            return ("list", "bytes"), inout
        self.bad(f"unsupported type {txt!r}")

    # -------- expressions: -> (lean text, type, constant value or None)
    def emit(self, e):
        k = e[0]
        if k == "num":
            return str(e[1]), "lit", e[1]
        if k == "var":
            return self.emit_var(e[1])
        if k in ("ref", "deref"):
            return self.emit(e[1])
        if k == "paren":
            s, ty, val = self.emit(e[1])
            return (atom(s), ty, val)
        if k == "neg":
            self.bad("unary minus")
        if k == "not":
            s, ty, val = self.emit(e[1])
            if resolve(ty) in ("bool", "prop"):
                return f"(¬ {atom(s)})", "prop", None
            return f"(~~~ {atom(s)})", ty, None     # bitwise complement at the (inferred) integer type
        if k == "bin":
            return self.emit_bin(e)
        if k == "ife":
            c, cty, _ = self.emit(e[1])
            a, aty, _ = self.emit(e[2])
            b, bty, _ = self.emit(e[3])
            return f"(if {c} then {a} else {b})", self.unify(aty, bty, "if/else"), None
        if k == "tuple":
            parts = [self.emit(x) for x in e[1]]
            return "(" + ", ".join(p[0] for p in parts) + ")", ("tuple", tuple(p[1] for p in parts)), None
        if k == "array":
            parts = [self.emit(x) for x in e[1]]
            ty = parts[0][1]
            for p in parts[1:]:
                ty = self.unify(ty, p[1], "array literal")
            return "#v[" + ", ".join(p[0] for p in parts) + "]", ("vec", ty, len(parts)), None
        if k == "index":
            return self.emit_index(e)
        if k == "cast":
            return self.emit_cast(e)
        if k == "call":
            return self.emit_call(e)
        if k == "method":
            return self.emit_method(e)
        if k == "tfield":
            self.bad(f"tuple field .{e[2]} used as a value")
        if k == "slice_from":
            a, aty, _ = self.emit(e[1])
            o, oty, ov = self.emit(e[2])
            self.unify("usize", oty, "slice start")
            aty = resolve(aty)
            if aty == "bytes" or (isinstance(aty, tuple) and aty[0] == "list"):
                return f"(List.drop {atom(o)} {atom(a)})", aty, None      # panics in Rust if the start is past the end
            if aty == "mutslice":
                return f"(MutSlice.from {atom(a)} {atom(o)})", aty, None
            self.bad(f"slicing of {aty!r}")
        if k == "macro" and e[1] == "array_ref":
            if len(e[2]) != 3:
                self.bad("array_ref! arity")
            a, aty, _ = self.emit(e[2][0])
            if resolve(aty) != "bytes":
                self.bad("array_ref! of something that is not a byte slice")
            o, oty, _ = self.emit(e[2][1])
            self.unify("usize", oty, "array_ref! offset")
            n = self.const(e[2][2], "array_ref! length")
            if n % 4:
                self.bad("array_ref! length is not a whole number of words")
            return f"(arrayRefWords {n // 4} {atom(a)} {atom(o)})", ("words", n // 4, 1), None
        self.bad(f"unsupported expression {e!r}")

    def emit_var(self, name):
        if name in self.env:
            ty = self.env[name]
            if ty is None:
                self.bad(f"variable {name} read before it is assigned")
            if isinstance(ty, tuple) and ty and ty[0] == "alias":
                self.bad(f"{name} (a mut_array_refs! tuple) used as a value")
            return name, ty, None
        if name in self.generics:
            return name, "usize", None
        if name in self.gen.src.consts:
            return str(self.gen.src.consts[name]), "lit", self.gen.src.consts[name]
        if name == "IV":
            return "IV", ("words", 8, 4), None
        if name == "MSG_SCHEDULE":
            return "MSG_SCHEDULE", ("vec", ("vec", ("fin", 16), 16), 7), None
        self.bad(f"unknown identifier {name}")

    def emit_bin(self, e):
        op = e[1]
        a, aty, av = self.emit(e[2])
        b, bty, bv = self.emit(e[3])
        if op in ("&&", "||"):
            return f"({a} {LEAN_BIN[op]} {b})", "prop", None
        if op in ("==", "!=", "<", ">", "<=", ">="):
            self.unify(aty, bty, f"comparison {op}")
            return f"({a} {LEAN_BIN[op]} {b})", "prop", None
        if op in ("<<", ">>"):
            ty = aty
        else:
            ty = self.unify(aty, bty, f"operator {op}")
        if av is not None and bv is not None and resolve(ty) == "lit":
            if op in ("/", "%") and bv == 0:
                self.bad("division by zero in a constant")
            v = PY_BIN[op](av, bv)
            if v < 0:
                self.bad("negative constant")
            return str(v), "lit", v
        rty = resolve(ty)
        if rty not in ("u8", "u16", "u32", "u64", "usize", "lit") and not isinstance(rty, TVar):
            self.bad(f"operator {op} at type {rty!r}")
        return f"({a} {LEAN_BIN[op]} {b})", ty, None

    def emit_index(self, e):
        a, aty, _ = self.emit(e[1])
        i, ity, iv = self.emit(e[2])
        aty = resolve(aty)
        if not isinstance(aty, tuple):
            self.bad(f"indexing into {aty!r}")
        if aty[0] == "words":
            n, elem = aty[1], "u32"
            if aty[2] != 4:
                self.bad("indexing bytes of a byte array")
        elif aty[0] == "vec":
            n, elem = aty[2], aty[1]
        else:
            self.bad(f"indexing into {aty!r}")
        ity = resolve(ity)
        if iv is not None:
            if not 0 <= iv < n:
                self.bad(f"constant index {iv} out of bounds (length {n}): the Rust code would panic")
            return f"({atom(a)}[{iv}]'(by decide))", elem, None
        if ity == ("fin", n):
            return f"{atom(a)}[{i}]", elem, None
        self.bad(f"index {i} of type {ity!r} into an array of length {n}")

    def emit_cast(self, e):
        s, ty, val = self.emit(e[1])
        ty = resolve(ty)
        target = e[2]
        if target.startswith("*"):
            m = re.match(r"^\*const \[\*const u8; (.+)\]$", target)
            if m and isinstance(ty, tuple) and ty[0] == "ptr" and ty[1] == "list" and ty[3] == 0:
                n = self.const(parse_expr(m.group(1)), "length of the pointer array")
                if n not in (4, 8):
                    self.bad("pointer array of length other than 4 or 8")
                return f"(ptrs{n} {ty[2]})", ("vec", "mem", n), None     # reads n references: UB in Rust if fewer
            if not (isinstance(ty, tuple) and ty[0] == "ptr"):
                self.bad(f"pointer cast of a non-pointer {s}")
            if target in ("*const u8", "*mut u8", "*const i8"):
                return s, ("ptr", ty[1], ty[2], ty[3], 1), None
            self.bad(f"unsupported pointer cast to {target}")
        if target in ("u8", "u32", "u64", "usize", "i32", "i16"):
            if ty == "lit":
                lim = {"u8": 2 ** 8, "u32": 2 ** 32, "u64": 2 ** 64, "usize": 2 ** 64, "i32": 2 ** 31, "i16": 2 ** 15}[target]
                if val is not None and val >= lim:
                    self.bad(f"constant {val} does not fit {target}")
                return s, "lit", val
            if target == "i32" and ty == "u32":
                return s, "u32", None          # same 32 bits
            if target == "i16" and ty == "u32":
                return f"{atom(s)}.toUInt16", "u16", None     # i32 -> i16 (or u32 -> i16): the low 16 bits
            if target == "u32" and ty in ("u8", "u64"):
                return f"{atom(s)}.toUInt32", "u32", None
            if target == "u32" and ty == "u32":
                return s, "u32", None
            if target == "usize" and isinstance(ty, tuple) and ty[0] == "fin":
                return s, ty, None             # table entry used as an index
        self.bad(f"unsupported cast of {s} : {ty!r} to {target}")

    def emit_args(self, sig, args):
        if len(args) != len(sig.params):
            self.bad(f"{sig.name} called with {len(args)} arguments")
        out = []
        for (pn, pty), a in zip(sig.params, args):
            s, ty, val = self.emit(a)
            rp = resolve(pty)
            if isinstance(rp, tuple) and rp[0] == "fin":
                if val is None or not 0 <= val < rp[1]:
                    self.bad(f"argument {pn} of {sig.name} must be a constant below {rp[1]}")
            else:
                self.unify(pty, ty, f"argument {pn} of {sig.name}")
            out.append(atom(s))
        return out

    def generic_args(self, sig):
        for g in sig.generics:
            if g not in self.generics:
                self.bad(f"cannot infer the const generic {g} of {sig.name}")
        return list(sig.generics)

    def emit_call(self, e):
        name, args = e[1], e[2]
        if name in self.gen.sigs:
            sig = self.gen.sigs[name]
            if sig.inout:
                self.bad(f"{name} has &mut parameters and is used as a value")
            return f"({sig.lean} {' '.join(self.generic_args(sig) + self.emit_args(sig, args))})", sig.ret, None
        if name in INTRINSICS:
            if name in TARGET.banned:
                self.bad(f"intrinsic {name} is not available at this file's target feature level")
            if not name.startswith(TARGET.prefix):
                self.bad(f"intrinsic {name} is not one of the {TARGET.prefix}* family this file is expected to use")
            kinds, ret = INTRINSICS[name]
            if len(args) != len(kinds):
                self.bad(f"{name} called with {len(args)} arguments")
            out = []
            for kd, a in zip(kinds, args):
                if kd == "i":
                    v = self.const(a, f"immediate of {name}")
                    if not 0 <= v < 256:
                        self.bad(f"immediate {v} of {name} does not fit 8 bits (rustc rejects it)")
                    out.append(str(v))
                else:
                    s, ty, _ = self.emit(a)
                    self.unify(KIND_TY[kd], ty, f"argument of {name}")
                    out.append(atom(s))
            return f"({name} {' '.join(out)})", ret, None
        if name == "loadu":
            if len(args) != 1:
                self.bad("loadu arity")
            s, ty, _ = self.emit(args[0])
            ty = resolve(ty)
            if not (isinstance(ty, tuple) and ty[0] == "ptr"):
                self.bad(f"loadu of a non-pointer {s}")
            _, kind, base, off, elem = ty
            if elem != 1:
                self.bad("loadu expects a *const u8")
            if kind == "words":
                if not isinstance(off, int) or off % 4:
                    self.bad(f"loadu from a word array at byte offset {off}: not a constant multiple of 4")
                return f"(loadu_words{TARGET.suffix} {base} {off // 4})", TARGET.vt, None
            return f"(loadu_mem{TARGET.suffix} {base} {atom(str(off))})", TARGET.vt, None
        if name in ("counter_low", "counter_high"):
            if len(args) != 1:
                self.bad(f"{name} arity")
            s, ty, _ = self.emit(args[0])
            self.unify("u64", ty, f"argument of {name}")
            return f"({name} {atom(s)})", "u32", None
        if name == "core::mem::transmute":
            s, ty, _ = self.emit(args[0])
            ty = resolve(ty)
            if ty == ("vec", "V4", 4):
                return f"(transmute_m128x4 {atom(s)})", ("words", 16, 1), None
            if ty == ("words", 8, 4):
                return s, ("words", 8, 1), None    # [u32; 8] -> [u8; 32] on a little-endian machine: same words
            self.bad(f"transmute of {ty!r}")
        self.bad(f"unknown function {name}")

    def emit_method(self, e):
        recv, name, args = e[1], e[2], e[3]
        s, ty, _ = self.emit(recv)
        ty = resolve(ty)
        if name == "yes" and ty == "bool" and not args:
            return s, "bool", None
        if name == "len" and not args:
            if ty == "bytes" or (isinstance(ty, tuple) and ty[0] == "list"):
                return f"{atom(s)}.length", "usize", None
            if ty == "mutslice":
                return f"{atom(s)}.len", "usize", None
        if name == "as_ptr" and not args and ty == ("list", "bytes"):
            return s, ("ptr", "list", atom(s), 0, 8), None
        if name in ("as_ptr", "as_mut_ptr") and not args and isinstance(ty, tuple) and ty[0] == "words":
            return s, ("ptr", "words", s, 0, ty[2]), None
        if name in ("add", "wrapping_add") and len(args) == 1:
            if ty == "mem":
                ty = ("ptr", "mem", atom(s), 0, 1)
            if isinstance(ty, tuple) and ty[0] == "ptr":
                o, oty, ov = self.emit(args[0])
                self.unify("usize", oty, "pointer offset")
                _, kind, base, off, elem = ty
                if ov is not None and isinstance(off, int):
                    noff = off + ov * elem
                else:
                    term = o if elem == 1 else f"{atom(o)} * {elem}"
                    noff = term if off == 0 else f"{off} + {term}"
                return s, ("ptr", kind, base, noff, elem), None
        self.bad(f"unsupported method .{name}() on {s} : {ty!r}")

    # -------- statements
    def base_var(self, e):
        """the variable a place expression / &mut argument designates, or None"""
        while e[0] in ("ref", "deref", "paren"):
            e = e[1]
        if e[0] == "var":
            return e[1]
        if e[0] == "index":
            return self.base_var(e[1])
        if e[0] == "tfield":
            al = self.env.get(self.base_var(e[1]))
            if isinstance(al, tuple) and al and al[0] == "alias":
                return al[1]
        if e[0] == "macro" and e[1] == "array_mut_ref":
            return self.base_var(e[2][0])
        return None

    def assigned(self, stmts):
        """variables (declared outside) that a statement list assigns, in order of first assignment"""
        out = []

        def add(v):
            if v is not None and v not in out:
                out.append(v)
        local = set()
        for s in stmts:
            if s[0] in ("let", "decl"):
                local.add(s[1])
            elif s[0] == "letpat":
                local.update(s[2])
            elif s[0] == "assign":
                add(self.base_var(s[1]))
            elif s[0] == "expr" and s[1][0] == "call":
                name, args = s[1][1], s[1][2]
                if name in self.gen.sigs:
                    for i in self.gen.sigs[name].inout:
                        if i < len(args):
                            add(self.base_var(args[i]))
                elif name == "storeu" and len(args) == 2:
                    e = args[1]
                    while e[0] in ("cast", "paren", "ref", "deref"):
                        e = e[1]
                    while e[0] == "method":
                        e = e[1]
                    add(self.base_var(e))
            elif s[0] in ("for", "foriter"):
                for v in self.assigned(s[-1]):
                    add(v)
            elif s[0] in ("while", "if"):
                for v in self.assigned(s[2]):
                    add(v)
        return [v for v in out if v not in local]

    def out(self, line):
        self.lines.append(line)

    def stmt(self, s):
        k = s[0]
        if k == "noeffect":
            self.out(f"-- {s[1]}!: no effect in release builds")
        elif k == "decl":
            self.declare(s[1], None)
        elif k == "let":
            self.stmt_let(s)
        elif k == "letpat":
            self.stmt_letpat(s)
        elif k == "assign":
            self.stmt_assign(s)
        elif k == "expr":
            self.stmt_expr(s[1])
        elif k == "for":
            self.stmt_for(s)
        elif k == "if":
            self.stmt_if(s)
        elif k == "while":
            self.stmt_while(s)
        elif k == "foriter":
            self.stmt_foriter(s)
        elif k == "marker":
            self.bad("segment marker in a function that is not split")
        else:
            self.bad(f"unsupported statement kind {k}")

    def stmt_let(self, s):
        _, name, tytxt, e = s
        if e[0] == "macro" and e[1] == "mut_array_refs":
            base = self.base_var(e[2][0])
            bty = resolve(self.env.get(base)) if base else None
            if not (isinstance(bty, tuple) and bty[0] == "vec"):
                self.bad("mut_array_refs! of something that is not a local array")
            parts, off = [], 0
            for a in e[2][1:]:
                n = self.const(a, "mut_array_refs! length")
                parts.append((off, n))
                off += n
            if off != bty[2]:
                self.bad(f"mut_array_refs! lengths sum to {off}, array has {bty[2]} (compile error in Rust)")
            self.declare(name, ("alias", base, parts, bty[1]))
            self.out(f"-- {name} := mut_array_refs!({base}, …): " + ", ".join(f"{base}[{o}..{o + n}]" for o, n in parts))
            return
        txt, ty, val = self.emit(e)
        if tytxt is not None:
            ty = self.unify(self.rust_type(tytxt)[0], ty, f"let {name}: {tytxt}")
        rty = resolve(ty)
        if isinstance(rty, tuple) and rty[0] == "ptr":
            self.bad(f"pointer stored in variable {name}")
        if rty == "lit":
            tv = TVar(name)
            self.tvars.append(tv)
            ty = tv
            self.out(f"let {name} : {{TVAR:{name}}} := {txt}")
        else:
            self.out(f"let {name} := {txt}")
        self.declare(name, ty)

    def stmt_letpat(self, s):
        _, kind, names, e = s
        txt, ty, _ = self.emit(e)
        ty = resolve(ty)
        if kind == "array":
            if not (isinstance(ty, tuple) and ty[0] == "vec" and ty[2] == len(names)):
                self.bad(f"array pattern of {len(names)} names against {ty!r}")
            t = self.fresh("r")
            self.out(f"let {t} := {txt}")
            for i, n in enumerate(names):
                self.out(f"let {n} := {t}[{i}]'(by decide)")
                self.declare(n, ty[1])
        else:
            if not (isinstance(ty, tuple) and ty[0] == "tuple" and len(ty[1]) == len(names)):
                self.bad(f"tuple pattern of {len(names)} names against {ty!r}")
            t = self.fresh("r")
            self.out(f"let {t} := {txt}")
            for i, n in enumerate(names):
                self.out(f"let {n} := {proj(t, i, len(names))}")
                self.declare(n, ty[1][i])

    def stmt_assign(self, s):
        _, lhs, op, rhs = s
        while lhs[0] in ("deref", "paren"):
            lhs = lhs[1]
        txt, ty, _ = self.emit(rhs)
        if lhs[0] == "var":
            name = lhs[1]
            if name not in self.env:
                self.bad(f"assignment to unknown variable {name}")
            cur = self.env[name]
            if op:
                if cur is None:
                    self.bad(f"{name} {op}= before assignment")
                ty = self.unify(cur, ty, f"{name} {op}=")
                txt = f"({name} {LEAN_BIN[op]} {txt})"
            elif cur is not None:
                ty = self.unify(cur, ty, f"assignment to {name}")
            if resolve(ty) == "lit":
                self.bad(f"cannot infer the type of {name}")
            self.env[name] = ty
            self.out(f"let {name} := {txt}")
            return
        if lhs[0] == "index" and lhs[1][0] == "var":
            name = lhs[1][1]
            aty = resolve(self.env.get(name))
            if not (isinstance(aty, tuple) and aty[0] == "vec"):
                self.bad(f"indexed assignment into {name} : {aty!r}")
            i = self.const(lhs[2], f"index in assignment to {name}[..]")
            if not 0 <= i < aty[2]:
                self.bad(f"index {i} out of bounds in assignment to {name}")
            self.unify(aty[1], ty, f"assignment to {name}[{i}]")
            if op:
                txt = f"(({name}[{i}]'(by decide)) {LEAN_BIN[op]} {txt})"
            self.out(f"let {name} := {name}.set {i} {atom(txt)} (by decide)")
            return
        self.bad(f"unsupported assignment target {lhs!r}")

    def place(self, e):
        """a &mut argument -> (lean value text, type, write-back function: new value text -> [lines])"""
        while e[0] in ("ref", "deref", "paren"):
            e = e[1]
        if e[0] == "var":
            name = e[1]
            ty = self.env.get(name)
            if ty is None or (isinstance(ty, tuple) and ty and ty[0] == "alias"):
                self.bad(f"&mut argument {name} is not an assigned variable")
            return name, ty, lambda new: [f"let {name} := {new}"]
        if e[0] == "tfield" and e[1][0] == "var":
            al = self.env.get(e[1][1])
            if not (isinstance(al, tuple) and al and al[0] == "alias"):
                self.bad(f"{e[1][1]}.{e[2]} is not a mut_array_refs! component")
            _, base, parts, elem = al
            if not 0 <= e[2] < len(parts):
                self.bad(f"{e[1][1]}.{e[2]}: no such component")
            off, n = parts[e[2]]
            if n not in (4, 8):
                self.bad("mut_array_refs! component of length other than 4 or 8")
            return (f"(slice{n} {base} {off})", ("vec", elem, n),
                    lambda new: [f"let {base} := setSlice{n} {base} {off} {atom(new)}"])
        if e[0] == "macro" and e[1] == "array_mut_ref" and len(e[2]) == 3 and e[2][0][0] == "var":
            name = e[2][0][1]
            if resolve(self.env.get(name)) != "mutslice":
                self.bad(f"array_mut_ref! of {name}, which is not a mutable byte slice")
            o, oty, _ = self.emit(e[2][1])
            self.unify("usize", oty, "array_mut_ref! offset")
            n = self.const(e[2][2], "array_mut_ref! length")
            if n % 4:
                self.bad("array_mut_ref! length is not a whole number of words")
            return (f"(MutSlice.readWords {name} {atom(o)} {n // 4})", ("words", n // 4, 1),
                    lambda new: [f"let {name} := MutSlice.writeWords {name} {atom(o)} {atom(new)}"])
        self.bad(f"unsupported &mut argument {e!r}")

    def stmt_expr(self, e):
        if e[0] != "call":
            self.bad(f"expression statement {e!r}")
        name, args = e[1], e[2]
        if name == "storeu":
            if len(args) != 2:
                self.bad("storeu arity")
            v, vty, _ = self.emit(args[0])
            self.unify(TARGET.vt, vty, "storeu value")
            p, pty, _ = self.emit(args[1])
            pty = resolve(pty)
            if not (isinstance(pty, tuple) and pty[0] == "ptr" and pty[1] == "words" and pty[4] == 1):
                self.bad("storeu destination is not a *mut u8 into a local/parameter array")
            _, _, base, off, _ = pty
            if not isinstance(off, int) or off % 4:
                self.bad(f"storeu at byte offset {off}: not a constant multiple of 4")
            if base not in self.env:
                self.bad(f"storeu into {base}")
            self.out(f"let {base} := storeu_words{TARGET.suffix} {atom(v)} {base} {off // 4}")
            return
        if name not in self.gen.sigs:
            self.bad(f"call of unknown function {name} as a statement")
        sig = self.gen.sigs[name]
        if not sig.inout:
            self.bad(f"result of {name} is discarded")
        if sig.ret is not None:
            self.bad(f"{name} returns a value and has &mut parameters")
        if len(args) != len(sig.params):
            self.bad(f"{name} called with {len(args)} arguments")
        texts, backs = [], []
        for i, ((pn, pty), a) in enumerate(zip(sig.params, args)):
            if i in sig.inout:
                s, ty, wb = self.place(a)
                self.unify(pty, ty, f"argument {pn} of {name}")
                backs.append(wb)
                texts.append(atom(s))
            else:
                texts.append(self.emit_args(Sig(name, [(pn, pty)], None, []), [a])[0])
        call = f"{sig.lean} {' '.join(self.generic_args(sig) + texts)}"
        if len(backs) == 1:
            for l in backs[0](call):
                self.out(l)
        else:
            t = self.fresh("r")
            self.out(f"let {t} := {call}")
            for i, wb in enumerate(backs):
                for l in wb(proj(t, i, len(backs))):
                    self.out(l)

    def carried(self, body):
        vs = self.assigned(body)
        for v in vs:
            if self.env.get(v) is None:
                self.bad(f"loop assigns {v}, which has no value before the loop")
        return vs

    def stmt_for(self, s):
        _, var, lo, hi, body = s
        if body and all(b[0] == "expr" and b[1][0] == "call" and b[1][1] == "_mm_prefetch" for b in body):
            self.out("-- for … { _mm_prefetch(…) }: prefetch hints have no architectural effect")
            return
        lo_s, lo_t, lo_v = self.emit(lo)
        hi_s, hi_t, hi_v = self.emit(hi)
        self.unify("usize", lo_t, "loop bound")
        self.unify("usize", hi_t, "loop bound")
        rng = f"List.range {atom(hi_s)}" if lo_v == 0 else f"List.range' {atom(lo_s)} ({hi_s} - {lo_s})"
        vs = self.carried(body)
        if not vs:
            self.bad("for loop without effect on any variable")
        tys = [self.env[v] for v in vs]
        self.nloop = getattr(self, "nloop", 0) + 1
        lname = f"{self.fn}_loop{self.nloop}"
        t = self.fresh("loop")
        st = "st"
        if st in self.env or var == st:
            self.bad("variable named st clashes with the loop state")
        used = expr_vars(body, [])
        closure = [v for v in self.order if v in used and v not in vs and v != var
                   and self.env.get(v) is not None and not (isinstance(self.env[v], tuple) and self.env[v][:1] == ("alias",))]
        if any(g in used for g in self.generics):
            self.bad("const generic used inside a for loop")
        saved_env, saved_order, saved_lines = dict(self.env), list(self.order), self.lines
        self.lines = []
        self.declare(var, "usize")
        for i, v in enumerate(vs):
            self.out(f"let {v} := {proj(st, i, len(vs))}")
        for b in body:
            self.stmt(b)
        inner = self.lines
        pairs = [(v, saved_env[v]) for v in closure]
        self.env, self.order, self.lines = saved_env, saved_order, saved_lines
        tup = "(" + ", ".join(vs) + ")" if len(vs) > 1 else vs[0]
        sty = " × ".join(lean_ty(self.fn, x) for x in tys)
        self.pending.append((lname, pairs, f"({st} : {sty}) ({var} : Nat)", sty, inner, tup))
        self.out(f"let {t} := ({rng}).foldl ({lname} {' '.join(closure)}) {tup}")
        for i, v in enumerate(vs):
            self.out(f"let {v} := {proj(t, i, len(vs))}")

    def stmt_if(self, s):
        _, cond, body = s
        if len(body) != 1 or body[0][0] != "assign":
            self.bad("if statement whose body is not a single assignment")
        c, cty, _ = self.emit(cond)
        saved = self.lines
        self.lines = []
        self.stmt_assign(body[0])
        (line,) = self.lines
        self.lines = saved
        m = re.match(r"^let (\w+) := (.*)$", line, re.S)
        self.out(f"let {m.group(1)} := if {c} then {m.group(2)} else {m.group(1)}")

    def lift(self, kind, used_in, vs, binders, prelude, body, postlude, result=None):
        """translate `body` (statements) as a separate definition taking the loop state `st` (the tuple of
        the carried variables `vs`); returns (definition name, closure variable names)"""
        self.nloop = getattr(self, "nloop", 0) + 1
        lname = f"{self.fn}_{kind}{self.nloop}"
        if "st" in self.env:
            self.bad("variable named st clashes with the loop state")
        used = expr_vars(used_in, [])
        closure = [v for v in self.order if v in used and v not in vs
                   and self.env.get(v) is not None and not (isinstance(self.env[v], tuple) and self.env[v][:1] == ("alias",))]
        tys = [self.env[v] for v in vs]
        saved_env, saved_order, saved_lines = dict(self.env), list(self.order), self.lines
        self.lines = []
        for i, v in enumerate(vs):
            self.out(f"let {v} := {proj('st', i, len(vs))}")
        for l in prelude():
            self.out(l)
        for b in body:
            self.stmt(b)
        for l in postlude:
            self.out(l)
        tup = "(" + ", ".join(vs) + ")" if len(vs) > 1 else vs[0]
        sty = " × ".join(lean_ty(self.fn, x) for x in tys)
        if result is not None:
            res, rty = result()
        else:
            res, rty = tup, sty
        inner = self.lines
        text = "\n".join(inner + [res])
        closure = [g for g in self.generics if re.search(rf"\b{g}\b", text)] + closure
        pairs = [(v, "usize" if v in self.generics else saved_env[v]) for v in closure]
        self.env, self.order, self.lines = saved_env, saved_order, saved_lines
        self.pending.append((lname, pairs, f"(st : {sty})" + binders, rty, inner, res))
        return lname, closure, tup

    def stmt_while(self, s):
        _, cond, body = s
        vs = self.carried(body)
        if not vs:
            self.bad("while loop without effect on any variable")
        # the iteration bound: the length of the first slice whose .len() the condition tests
        fuel = None
        stack = [cond]
        found = []
        def walk(e):
            if isinstance(e, tuple):
                if e and e[0] == "method" and e[2] == "len" and e[1][0] == "var":
                    found.append(e[1][1])
                for x in e[1:]:
                    walk(x)
            elif isinstance(e, list):
                for x in e:
                    walk(x)
        walk(cond)
        for v in found:
            if v in vs:
                t = resolve(self.env[v])
                fuel = f"({v}.len + 1)" if t == "mutslice" else f"({v}.length + 1)"
                break
        if fuel is None:
            self.bad("while loop whose condition does not test the length of a slice it shortens")
        cname, cclos, _ = self.lift("cond", [cond], vs, "", lambda: [], [], [],
                                    result=lambda: ("decide " + atom(self.emit(cond)[0]), "Bool"))
        lname, lclos, tup = self.lift("loop", body, vs, "", lambda: [], body, [])
        t = self.fresh("loop")
        self.out(f"let {t} := whileFuel {fuel} ({' '.join([cname] + cclos)}) ({' '.join([lname] + lclos)}) {tup}")
        for i, v in enumerate(vs):
            self.out(f"let {v} := {proj(t, i, len(vs))}")

    def stmt_foriter(self, s):
        """for (&x, y) in XS.iter().zip(YS.chunks_exact_mut(K)) { … }"""
        _, pat, it, body = s
        m = re.match(r"^\(\s*&(\w+)\s*,\s*(\w+)\s*\)$", pat)
        ok = (m and it[0] == "method" and it[2] == "zip" and len(it[3]) == 1
              and it[1][0] == "method" and it[1][2] == "iter" and not it[1][3] and it[1][1][0] == "var"
              and it[3][0][0] == "method" and it[3][0][2] == "chunks_exact_mut" and len(it[3][0][3]) == 1
              and it[3][0][1][0] == "var")
        if not ok:
            self.bad(f"unsupported iterator in for {pat} in …")
        x, y = m.group(1), m.group(2)
        xs, ys = it[1][1][1], it[3][0][1][1]
        if resolve(self.env.get(xs)) != ("list", "bytes") or resolve(self.env.get(ys)) != "mutslice":
            self.bad("for … in XS.iter().zip(YS.chunks_exact_mut(K)): unexpected types")
        size = self.const(it[3][0][3][0], "chunk size")
        if size == 0:
            self.bad("chunk size 0 (panics in Rust)")
        vs = [v for v in self.assigned(body) if v not in (x, y)]
        for v in vs:
            if self.env.get(v) is None:
                self.bad(f"loop assigns {v}, which has no value before the loop")
        if ys not in vs:
            vs = vs + [ys]
        if xs in vs:
            self.bad(f"{xs} is modified while it is iterated")
        idx = self.fresh("k")

        def prelude():
            self.declare(x, "bytes")
            self.declare(y, "mutslice")
            return [f"let {x} := {xs}.getD {idx} []", f"let {y} := MutSlice.chunk {ys} {size} {idx}"]
        lname, clos, tup = self.lift("loop", [body, ("var", xs)], vs, f" ({idx} : Nat)", prelude, body,
                                     [f"let {ys} := MutSlice.merge {ys} {y}"])
        t = self.fresh("loop")
        self.out(f"let {t} := (List.range (min {xs}.length ({ys}.len / {size}))).foldl ({' '.join([lname] + clos)}) {tup}")
        for i, v in enumerate(vs):
            self.out(f"let {v} := {proj(t, i, len(vs))}")

    # -------- whole function
    def params(self):
        ps, ret, raw = self.gen.src.find_fn(self.fn)
        self.generics = list(self.gen.src.generics)
        out, inout = [], []
        for i, (n, t, _m) in enumerate(ps):
            ty, io = self.rust_type(t)
            out.append((n, ty))
            if io:
                inout.append(i)
        rty = self.rust_type(ret)[0] if ret else None
        return out, rty, inout, raw

    def finish(self, text):
        for tv in self.tvars:
            r = resolve(tv)
            if isinstance(r, TVar):
                self.bad(f"cannot infer the integer type of {tv.name}")
        return re.sub(r"\{TVAR:(\w+)\}", lambda m: lean_ty(self.fn, next(t for t in self.tvars if t.name == m.group(1))), text)


# ------------------------------------------------------------------------------------------------
# the file


def expr_vars(e, acc):
    if isinstance(e, tuple):
        if e and e[0] == "var":
            acc.append(e[1])
        for x in e[1:]:
            expr_vars(x, acc)
    elif isinstance(e, list):
        for x in e:
            expr_vars(x, acc)
    return acc


CONVENTIONS = """  %(rust_vt)s -> %(vt)s (lane 0 = bits 31:0); u8/u32/u64 -> UInt8/UInt32/UInt64; i32/i16 -> UInt32/UInt16 (bit
  patterns; `x as i32` from u32 is the same 32 bits, `x as i16` keeps the low 16 bits); usize -> Nat (no
  wrap-around: bounded by the size of real memory); `+` on u64 -> UInt64 wrapping add (the Rust code would
  panic in a debug build if it wrapped); a function returns the tuple of its `&mut` parameters (after its
  own result, if any); &[u32; n] and &[u8; 4n] -> Vector UInt32 n (little-endian words); *const u8 -> Mem
  (byte addressed, offset 0 = the pointer); IncrementCounter -> Bool.
  &[u8; N] (const generic N, passed as a Nat) and &[u8] -> List UInt8; &[&[u8; N]] -> List (List UInt8);
  &mut [u8] -> MutSlice (a window into a buffer); `while` -> whileFuel (bounded; see Simd/Prim.lean);
  a loop body / loop condition is lifted into its own definition `<fn>_loopK` / `<fn>_condK` taking the
  variables it reads and the tuple `st` of the variables the loop assigns.
  `debug_assert!` lines and `_mm_prefetch` loops are dropped (a comment is left in their place)."""


def make_header(t, what, imports, opens=""):
    conv = CONVENTIONS % {"rust_vt": t.rust_vt, "vt": t.vt}
    imp = "".join(f"import {m}\n" for m in imports)
    return (f"/- GENERATED by gen/extract_simd2.py from /repo/{t.rel} -- do not edit -/\n/-\n"
            f"Statement-by-statement translation of {what}.  Conventions:\n{conv}\n-/\n"
            f"{imp}set_option linter.unusedVariables false\nnamespace {t.ns}\nopen B3 B3.Simd\n"
            f"open B3.Gen.Rs (IV MSG_SCHEDULE counter_low counter_high)\n{opens}\n")


class Generator:
    def __init__(self, repo, target):
        self.target = target
        self.repo = repo
        prev = activate(target)
        try:
            self.src = Source(repo)
        finally:
            activate(prev)
        self.sigs = {}
        self.defs = []
        m = re.search(r"MSG_SCHEDULE\s*:\s*\[\[usize;\s*16\];\s*(\d+)\]", self.src.lib)
        if not m:
            raise TranslationBroken(A, "MSG_SCHEDULE declaration not found in src/lib.rs")
        self.nsched = int(m.group(1))

    # the two pointer-cast wrappers are checked, not translated: they are the memory model of Simd/Prim.lean
    def check_wrapper(self, name, want_params, want_body):
        ps, ret, raw = self.src.find_fn(name)
        got_p = [(n, t) for n, t, _ in ps]
        got_b = re.sub(r"\s+", "", strip_comments(raw))
        if got_p != want_params or got_b != want_body:
            broken(name, f"no longer the plain unaligned load/store wrapper: {got_p} {got_b!r}")

    def start(self, name):
        tr = FnTr(self, name)
        params, rty, inout, raw = tr.params()
        params = [(n, ("fin", self.nsched) if t == "usize" and re.search(rf"MSG_SCHEDULE\s*\[\s*{n}\s*\]", raw) else t)
                  for n, t in params]
        for n, t in params:
            tr.declare(n, t)
        return tr, params, rty, inout, raw

    def ret_and_final(self, tr, params, rty, inout, tail):
        if tail is not None:
            if inout:
                tr.bad("a value is returned by a function with &mut parameters")
            if rty is None:
                tr.bad("tail expression in a function without return type")
            s, ty, _ = tr.emit(tail)
            tr.unify(rty, ty, "returned value")
            return lean_ty(tr.fn, rty), s
        if rty is not None:
            tr.bad("no tail expression in a function with a return type")
        if not inout:
            tr.bad("function without result and without &mut parameters")
        names = [params[i][0] for i in inout]
        return " × ".join(lean_ty(tr.fn, params[i][1]) for i in inout), \
            ("(" + ", ".join(names) + ")" if len(names) > 1 else names[0])

    @staticmethod
    def binders(tr, pairs):
        return " ".join(f"({n} : {lean_ty(tr.fn, t)})" for n, t in pairs)

    def render(self, tr, name, pairs, ret, lines, final, extra="", generics=()):
        body = "".join("  " + l + "\n" for l in lines)
        b = " ".join(x for x in (" ".join(f"({g} : Nat)" for g in generics), self.binders(tr, pairs), extra) if x)
        return tr.finish(f"def {name} {b} : {ret} :=\n{body}  {final}\n")

    def flush_pending(self, tr):
        for lname, pairs, extra, ty, lines, tup in tr.pending:
            self.defs.append(self.render(tr, lname, pairs, ty, lines, tup, extra))
        tr.pending = []

    def translate(self, name):
        tr, params, rty, inout, raw = self.start(name)
        stmts, tail = prepare_body(self.src, name, raw)
        for s in stmts:
            tr.stmt(s)
        ret, final = self.ret_and_final(tr, params, rty, inout, tail)
        self.flush_pending(tr)
        self.defs.append(self.render(tr, name, params, ret, tr.lines, final, generics=tr.generics))
        self.sigs[name] = Sig(name, params, rty, inout, tr.generics)

    def translate_split(self, name, mode="rounds"):
        """like translate, but the body is cut into separately defined pieces, by position: at the
        `// Round k` comments (mode "rounds": pieces init, round1, ...) or at blank lines (mode "blank":
        pieces part1, part2, ...).  The parameters/results of a piece are the variables live at its
        boundaries.  (One definition with >100 `let`s is very slow to elaborate.)"""
        tr, params, rty, inout, raw = self.start(name)
        stmts, tail = prepare_body(self.src, name, raw, segment_markers=(True if mode == "rounds" else "blank"))
        segs = [("init" if mode == "rounds" else "part1", [])]
        for s in stmts:
            if s[0] == "marker":
                label = f"round{s[1]}" if mode == "rounds" else f"part{s[1]}"
                if any(l == label for l, _ in segs):
                    tr.bad(f"two `// Round {s[1]}` comments")
                segs.append((label, []))
            else:
                segs[-1][1].append(s)
        if len(segs) == 1:
            tr.bad("no `// Round k` comments / blank lines found to split at")
        # use / def per segment
        info = []
        for label, ss in segs:
            use, dfn = [], []
            for s in ss:
                if s[0] == "decl":
                    continue
                if s[0] == "let":
                    u, d = expr_vars(s[3], []), [s[1]]
                elif s[0] == "assign":
                    lhs = s[1]
                    while lhs[0] in ("deref", "paren"):
                        lhs = lhs[1]
                    if lhs[0] == "index" and lhs[1][0] == "var":
                        u, d = [lhs[1][1]] + expr_vars(lhs[2], []) + expr_vars(s[3], []), [lhs[1][1]]
                    elif lhs[0] != "var":
                        tr.bad("unsupported assignment target in a split function")
                    else:
                        u, d = expr_vars(s[3], []) + ([lhs[1]] if s[2] else []), [lhs[1]]
                elif s[0] == "expr" and s[1][0] == "call" and s[1][1] in self.sigs:
                    sig = self.sigs[s[1][1]]
                    u = expr_vars(s[1][2], [])
                    d = [tr.base_var(s[1][2][i]) for i in sig.inout if i < len(s[1][2])]
                else:
                    tr.bad(f"statement kind {s[0]} in a split function")
                for v in u:
                    if v not in dfn and v not in use:
                        use.append(v)
                for v in d:
                    if v not in dfn:
                        dfn.append(v)
            info.append((use, dfn))
        # translate the pieces in sequence (one environment)
        pieces = []
        for label, ss in segs:
            tr.lines = []
            tr.ntmp = 0
            for s in ss:
                tr.stmt(s)
            pieces.append(tr.lines)
        tr.lines = []
        ret, final = self.ret_and_final(tr, params, rty, inout, tail)
        known = lambda v: v in tr.env
        live = [v for v in expr_vars(tail, []) if known(v)] if tail is not None else [params[i][0] for i in inout]
        live_out = [None] * len(segs)
        live_in = [None] * len(segs)
        for k in range(len(segs) - 1, -1, -1):
            live_out[k] = sorted(set(live), key=tr.order.index)
            use, dfn = info[k]
            live = [v for v in use if known(v)] + [v for v in live if v not in dfn]
            live_in[k] = sorted(set(live), key=tr.order.index)
        pnames = [n for n, _ in params]
        for v in live_in[0]:
            if v not in pnames:
                tr.bad(f"{v} is read before it is assigned")
        main = []
        defined = set()
        prev = None      # (tuple variable, [names]) returned by the previous piece
        for k, (label, _) in enumerate(segs):
            defined.update(info[k][1])
            outs = [v for v in live_out[k] if v in defined]   # the rest are still the function's own parameters
            if not outs:
                tr.bad(f"piece {label} computes nothing that is used")
            oty = " × ".join(lean_ty(tr.fn, tr.env[v]) for v in outs)
            otup = "(" + ", ".join(outs) + ")" if len(outs) > 1 else outs[0]
            # a piece receives the tuple returned by the previous piece as ONE parameter (so that the
            # composition is a linear chain), plus those of the function's parameters it reads
            if prev is not None and len(prev[1]) > 1:
                pv, pnames_prev = prev
                pty = " × ".join(lean_ty(tr.fn, tr.env[v]) for v in pnames_prev)
                others = [v for v in live_in[k] if v not in pnames_prev]
                unpack = [f"let {v} := {proj('s', i, len(pnames_prev))}" for i, v in enumerate(pnames_prev)]
                if "s" in tr.env:
                    tr.bad("variable named s clashes with the piece parameter")
                self.defs.append(self.render(tr, f"{name}_{label}", [(v, tr.env[v]) for v in others], oty,
                                             unpack + pieces[k], otup, extra=f"(s : {pty})"))
                call = f"{name}_{label} " + " ".join(others + [pv])
            else:
                ins = [(v, tr.env[v]) for v in live_in[k]]
                self.defs.append(self.render(tr, f"{name}_{label}", ins, oty, pieces[k], otup))
                call = f"{name}_{label} " + " ".join(live_in[k])
            if len(outs) == 1:
                main.append(f"let {outs[0]} := {call}")
                prev = (outs[0], outs)
            else:
                t = f"s{k}"
                main.append(f"let {t} := {call}")
                prev = (t, outs)
        if prev is not None and len(prev[1]) > 1:
            for i, v in enumerate(prev[1]):
                main.append(f"let {v} := {proj(prev[0], i, len(prev[1]))}")
        self.defs.append(self.render(tr, name, params, ret, main, final))
        self.sigs[name] = Sig(name, params, rty, inout)

    def external(self, rust_name, other, fn, lean_name):
        """a function of another, already translated file (`crate::sse41::hash_many`): its signature is read
        from that file's source (so a change there is noticed); the call is emitted as `lean_name …`"""
        caller = TARGET
        g = Generator(self.repo, other)
        activate(other)
        try:
            tr, params, rty, inout, raw = g.start(fn)
            generics = list(tr.generics)
        finally:
            activate(caller)
        for n, t in params:
            if resolve(t) in VECS or (isinstance(t, tuple) and t[0] == "vec" and t[1] in VECS):
                broken(rust_name, "vector-typed parameter in a function called across files")
        self.sigs[rust_name] = Sig(rust_name, params, rty, inout, generics, lean=lean_name)

    def run(self):
        prev = activate(self.target)
        try:
            return self.run_plan()
        finally:
            activate(prev)

    def run_plan(self):
        t = self.target
        self.check_wrapper("loadu", [("src", "*const u8")], t.load_body)
        self.check_wrapper("storeu", [("src", t.rust_vt), ("dest", "*mut u8")], t.store_body)
        if self.src.consts["DEGREE"] != t.lanes:
            raise TranslationBroken(A, f"DEGREE is {self.src.consts['DEGREE']}, expected {t.lanes}")
        for rust_name, other, fn, lean_name in t.externals:
            self.external(rust_name, other, fn, lean_name)
        for step in t.plan:
            if isinstance(step, tuple):
                self.translate_split(step[0], mode=step[1])
            else:
                self.translate(step)
        return t.header + "\n".join(self.defs) + f"\nend {t.ns}\n"


SSE41 = Target(
    "rust_sse41", "src/rust_sse41.rs", "B3.Gen.RsSse41", "__m128i", "V4", 4, "_mm_", "",
    "unsafe{_mm_loadu_si128(srcas*const__m128i)}", "unsafe{_mm_storeu_si128(destas*mut__m128i,src)}",
    ["add", "xor", "set1", "set4", "rot16", "rot12", "rot8", "rot7", "g1", "g2", "diagonalize", "undiagonalize",
     ("compress_pre", "rounds"), "compress_in_place", "compress_xof", ("round", "blank"),
     "transpose_vecs", "transpose_msg_vecs", "load_counters", "hash4", "hash1", "hash_many"],
    None)

SSE2 = Target(
    "rust_sse2", "src/rust_sse2.rs", "B3.Gen.RsSse2", "__m128i", "V4", 4, "_mm_", "",
    "unsafe{_mm_loadu_si128(srcas*const__m128i)}", "unsafe{_mm_storeu_si128(destas*mut__m128i,src)}",
    ["add", "xor", "set1", "set4", "rot16", "rot12", "rot8", "rot7", "g1", "g2", "diagonalize", "undiagonalize",
     "blend_epi16",
     ("compress_pre", "rounds"), "compress_in_place", "compress_xof", ("round", "blank"),
     "transpose_vecs", "transpose_msg_vecs", "load_counters", "hash4", "hash1", "hash_many"],
    None, banned=["_mm_blend_epi16"])       # SSE4.1: the reason `blend_epi16` exists in this file
SSE2.header = make_header(
    SSE2, "the SSE2 kernels (16-bit-lane intrinsics of `blend_epi16`: B3/Simd/Sse2Prim.lean)",
    ["B3.Prim", "B3.Gen.Consts", "B3.Gen.RsPortable", "B3.Simd.Prim", "B3.Simd.Sse2Prim"])

AVX2 = Target(
    "rust_avx2", "src/rust_avx2.rs", "B3.Gen.RsAvx2", "__m256i", "V8", 8, "_mm256_", "8",
    "unsafe{_mm256_loadu_si256(srcas*const__m256i)}", "unsafe{_mm256_storeu_si256(destas*mut__m256i,src)}",
    ["add", "xor", "set1", "set8", "rot16", "rot12", "rot8", "rot7", ("round", "blank"), "interleave128",
     "transpose_vecs", "transpose_msg_vecs", "load_counters", "hash8", "hash_many"],
    None,
    externals=[("crate::sse41::hash_many", SSE41, "hash_many", "B3.Gen.RsSse41.hash_many")])
AVX2.header = make_header(
    AVX2, "the AVX2 kernels (lane model of the 256-bit intrinsics: B3/Simd/Prim256.lean).  `crate::sse41::hash_many`,\n"
    "to which `hash_many` hands the inputs left over after the groups of eight, is the translation\n"
    "`B3.Gen.RsSse41.hash_many` of src/rust_sse41.rs (the module `sse41` of a `pure` build)",
    ["B3.Prim", "B3.Gen.Consts", "B3.Gen.RsPortable", "B3.Gen.RsSse41", "B3.Simd.Prim", "B3.Simd.Prim256"])

TARGETS = {"sse41": SSE41, "sse2": SSE2, "avx2": AVX2}
FILES = {"sse41": "RsSse41.lean", "sse2": "RsSse2.lean", "avx2": "RsAvx2.lean"}


def sse41_header():
    """the header text of extract_simd.py (the sse41 target exists only as a regression check of this copy)"""
    import extract_simd
    return extract_simd.HEADER


def main():
    ap = argparse.ArgumentParser()
    ap.add_argument("--repo", default="/repo")
    ap.add_argument("--out", default=os.path.join(os.path.dirname(os.path.abspath(__file__)), "..", "lean"))
    ap.add_argument("--target", default="avx2,sse2")
    ap.add_argument("--stdout", action="store_true", help="print instead of writing (one target)")
    a = ap.parse_args()
    SSE41.header = sse41_header()
    for name in a.target.split(","):
        try:
            content = Generator(a.repo, TARGETS[name]).run()
        except TranslationBroken as ex:
            print(f"TranslationBroken: {ex}", file=sys.stderr)
            return 3
        if a.stdout:
            sys.stdout.write(content)
            continue
        path = os.path.join(a.out, "B3", "Gen", FILES[name])
        os.makedirs(os.path.dirname(path), exist_ok=True)
        changed = write_if_changed(path, content)
        print(f"{path}: {'written' if changed else 'unchanged'}")
    return 0


if __name__ == "__main__":
    sys.exit(main())
